//go:build verif

package proxy

import (
	"bytes"
	"context"
	"crypto/hmac"
	"crypto/rsa"
	"crypto/sha256"
	"errors"
	"fmt"
	"net"
	"net/netip"
	"os"
	"testing"
	"time"
	"unicode/utf16"
	"unicode/utf8"

	"github.com/go-logr/logr"
	"github.com/robinbraemer/event"
	"pgregory.net/rapid"

	"go.minekube.com/gate/pkg/edition/java/config"
	"go.minekube.com/gate/pkg/edition/java/netmc"
	"go.minekube.com/gate/pkg/edition/java/profile"
	"go.minekube.com/gate/pkg/edition/java/proto/packet"
	"go.minekube.com/gate/pkg/edition/java/proto/state"
	"go.minekube.com/gate/pkg/edition/java/proto/version"
	"go.minekube.com/gate/pkg/edition/java/proxy/crypto"
	"go.minekube.com/gate/pkg/edition/java/proxy/crypto/keyrevision"
	"go.minekube.com/gate/pkg/edition/java/proxy/phase"
	"go.minekube.com/gate/pkg/gate/proto"
	"go.minekube.com/gate/pkg/internal/verifkit"
	"go.minekube.com/gate/pkg/util/netutil"
	"go.minekube.com/gate/pkg/util/uuid"
)

// C20 (proxy part): backendLoginSessionHandler in velocity forwarding mode.
//
//   - every velocity:player_info request is answered once, with the same message
//     id, by a payload that a Paper backend authenticates and parses to the
//     player's IP / UUID / name / properties / key data; the version in the
//     payload is Velocity's choice for the *byte* the backend sent (Velocity reads
//     the single content byte with ByteBuf.readByte(), i.e. signed: 128..255 are
//     negative and therefore select MODERN_DEFAULT);
//   - a backend that sends ServerLoginSuccess without a forwarding request having
//     been answered is refused (connection request resolved as "server
//     disconnected", backend connection closed, no transition to config/play),
//     one that did request forwarding is not.
//
// The fixture is a struct-literal serverConnection/connectedPlayer over fake
// MinecraftConns (as the repository's own tests do); the handler, the packets
// and the config are the real ones.

// ---------------------------------------------------------------- case

type c20pProp struct {
	Name      string `json:"name"`
	Value     string `json:"value"`
	Signature string `json:"signature"`
}

type c20pKeyCase struct {
	Revision int    `json:"revision"` // 1 GenericV1, 2 LinkedV2
	ExpiryMs int64  `json:"expiry_ms"`
	PubKey   []byte `json:"pub_key"`
	Sig      []byte `json:"sig"`
	Holder   []byte `json:"holder"`
}

type c20pStep struct {
	Kind    string `json:"kind"` // "velocity" | "other" | "success"
	ID      int    `json:"id"`
	Channel string `json:"channel,omitempty"` // for "other"
	Data    []byte `json:"data"`
}

type c20pCase struct {
	Secret   string       `json:"secret"`
	IP       string       `json:"ip"`
	Port     int          `json:"port"`
	UUID     []byte       `json:"uuid"`
	Name     string       `json:"name"`
	Props    []c20pProp   `json:"props"`
	Protocol int          `json:"protocol"`
	Key      *c20pKeyCase `json:"key"`
	Steps    []c20pStep   `json:"steps"`
}

// ---------------------------------------------------------------- fakes

type c20pKey struct{ c c20pKeyCase }

var _ crypto.IdentifiedKey = (*c20pKey)(nil)

func (k *c20pKey) Signer() *rsa.PublicKey                     { return nil }
func (k *c20pKey) ExpiryTemporal() time.Time                  { return time.UnixMilli(k.c.ExpiryMs).UTC() }
func (k *c20pKey) Expired() bool                              { return false }
func (k *c20pKey) Signature() []byte                          { return bytes.Clone(k.c.Sig) }
func (k *c20pKey) SignatureValid() bool                       { return true }
func (k *c20pKey) Salt() []byte                               { return nil }
func (k *c20pKey) SignedPublicKey() *rsa.PublicKey            { return nil }
func (k *c20pKey) SignedPublicKeyBytes() []byte               { return bytes.Clone(k.c.PubKey) }
func (k *c20pKey) VerifyDataSignature([]byte, ...[]byte) bool { return false }
func (k *c20pKey) SignatureHolder() uuid.UUID {
	var u uuid.UUID
	if len(k.c.Holder) == 16 {
		copy(u[:], k.c.Holder)
	}
	return u
}
func (k *c20pKey) KeyRevision() keyrevision.Revision {
	if k.c.Revision == 1 {
		return keyrevision.GenericV1
	}
	return keyrevision.LinkedV2
}

type c20pHandlerSet struct {
	reg *state.Registry
	h   netmc.SessionHandler
}

// c20pConn is a recording netmc.MinecraftConn.
type c20pConn struct {
	ctx      context.Context
	cancel   context.CancelFunc
	protocol proto.Protocol
	remote   net.Addr
	written  []proto.Packet
	handlers []c20pHandlerSet
	closed   int
}

func c20pNewConn(protocol proto.Protocol, remote net.Addr) *c20pConn {
	ctx, cancel := context.WithCancel(context.Background())
	return &c20pConn{ctx: ctx, cancel: cancel, protocol: protocol, remote: remote}
}

func (c *c20pConn) Context() context.Context                   { return c.ctx }
func (c *c20pConn) Close() error                               { c.closed++; c.cancel(); return nil }
func (c *c20pConn) State() *state.Registry                     { return state.Login }
func (c *c20pConn) Protocol() proto.Protocol                   { return c.protocol }
func (c *c20pConn) RemoteAddr() net.Addr                       { return c.remote }
func (c *c20pConn) LocalAddr() net.Addr                        { return &net.TCPAddr{} }
func (c *c20pConn) Type() phase.ConnectionType                 { return phase.Vanilla }
func (c *c20pConn) SetType(phase.ConnectionType)               {}
func (c *c20pConn) ActiveSessionHandler() netmc.SessionHandler { return nil }
func (c *c20pConn) SetActiveSessionHandler(r *state.Registry, h netmc.SessionHandler) {
	c.handlers = append(c.handlers, c20pHandlerSet{r, h})
}
func (c *c20pConn) SwitchSessionHandler(*state.Registry) bool               { return true }
func (c *c20pConn) AddSessionHandler(*state.Registry, netmc.SessionHandler) {}
func (c *c20pConn) SetAutoReading(bool)                                     {}
func (c *c20pConn) SetOutboundState(*state.Registry)                        {}
func (c *c20pConn) SetProtocol(proto.Protocol)                              {}
func (c *c20pConn) SetState(*state.Registry)                                {}
func (c *c20pConn) SetCompressionThreshold(int) error                       { return nil }
func (c *c20pConn) EnableEncryption([]byte) error                           { return nil }
func (c *c20pConn) WritePacket(p proto.Packet) error {
	if c.ctx.Err() != nil {
		return netmc.ErrClosedConn
	}
	c.written = append(c.written, p)
	return nil
}
func (c *c20pConn) Write([]byte) error                { return nil }
func (c *c20pConn) BufferPacket(p proto.Packet) error { return c.WritePacket(p) }
func (c *c20pConn) BufferPayload([]byte) error        { return nil }
func (c *c20pConn) Flush() error                      { return nil }
func (c *c20pConn) Reader() netmc.Reader              { return nil }
func (c *c20pConn) Writer() netmc.Writer              { return nil }
func (c *c20pConn) EnablePlayPacketQueue()            {}

var _ netmc.MinecraftConn = (*c20pConn)(nil)

// ---------------------------------------------------------------- references (see the velocity package part for provenance)

func c20pRefVersion(requested int, protocol int, keyRevision int) int {
	const (
		def, withKey, withKeyV2, lazy = 1, 2, 3, 4
	)
	if requested > lazy {
		requested = lazy
	}
	if requested > def {
		if protocol >= 761 { // 1.19.3
			if requested >= lazy {
				return lazy
			}
			return def
		}
		switch keyRevision {
		case 1:
			return withKey
		case 2:
			if requested >= withKeyV2 {
				return withKeyV2
			}
			return def
		}
		return def
	}
	return def
}

type c20pParsed struct {
	Version   int
	Address   string
	UUID      [16]byte
	Name      string
	Props     []c20pProp
	HasKey    bool
	ExpiryMs  int64
	PubKey    []byte
	Sig       []byte
	HasHolder bool
	Holder    [16]byte
}

func c20pRefUtf(r *verifkit.RefReader, maxChars int) (string, error) {
	n, err := r.VarInt()
	if err != nil {
		return "", err
	}
	if n < 0 || int(n) > maxChars*3 {
		return "", fmt.Errorf("encoded string length %d out of range (max %d)", n, maxChars*3)
	}
	b, err := r.Take(int(n))
	if err != nil {
		return "", err
	}
	if !utf8.Valid(b) {
		return "", errors.New("invalid UTF-8 in string")
	}
	s := string(b)
	if len(utf16.Encode([]rune(s))) > maxChars {
		return "", fmt.Errorf("string longer than %d chars", maxChars)
	}
	return s, nil
}

func c20pRefByteArray(r *verifkit.RefReader, max int) ([]byte, error) {
	n, err := r.VarInt()
	if err != nil {
		return nil, err
	}
	if n < 0 || int(n) > max {
		return nil, fmt.Errorf("byte array length %d out of range (max %d)", n, max)
	}
	return r.Take(int(n))
}

// c20pRefPaperParse: Paper's VelocityProxy.checkIntegrity + readAddress +
// createProfile + key data for forwarding versions 2 and 3.
func c20pRefPaperParse(secret, data []byte) (*c20pParsed, string, error) {
	if len(data) < 32 {
		return nil, "mac", errors.New("payload shorter than the 32-byte signature")
	}
	sig, body := data[:32], data[32:]
	m := hmac.New(sha256.New, secret)
	m.Write(body)
	if !hmac.Equal(sig, m.Sum(nil)) {
		return nil, "mac", errors.New("HMAC-SHA256 over the bytes after the signature does not match under the configured secret")
	}
	r := verifkit.NewRefReader(body)
	out := &c20pParsed{}
	v, err := r.VarInt()
	if err != nil {
		return nil, "parse", fmt.Errorf("version: %w", err)
	}
	out.Version = int(v)
	if v > 4 || v < 1 {
		return out, "parse", fmt.Errorf("unsupported forwarding version %d", v)
	}
	if out.Address, err = c20pRefUtf(r, 32767); err != nil {
		return out, "parse", fmt.Errorf("address: %w", err)
	}
	if out.UUID, err = r.UUID(); err != nil {
		return out, "parse", fmt.Errorf("uuid: %w", err)
	}
	if out.Name, err = c20pRefUtf(r, 16); err != nil {
		return out, "parse", fmt.Errorf("name: %w", err)
	}
	n, err := r.VarInt()
	if err != nil {
		return out, "parse", fmt.Errorf("property count: %w", err)
	}
	for i := 0; i < int(n); i++ {
		var p c20pProp
		if p.Name, err = c20pRefUtf(r, 32767); err != nil {
			return out, "parse", fmt.Errorf("property %d name: %w", i, err)
		}
		if p.Value, err = c20pRefUtf(r, 32767); err != nil {
			return out, "parse", fmt.Errorf("property %d value: %w", i, err)
		}
		has, err := r.Bool()
		if err != nil {
			return out, "parse", fmt.Errorf("property %d signature flag: %w", i, err)
		}
		if has {
			if p.Signature, err = c20pRefUtf(r, 32767); err != nil {
				return out, "parse", fmt.Errorf("property %d signature: %w", i, err)
			}
			if p.Signature == "" {
				return out, "parse", fmt.Errorf("property %d: signature flag set with empty signature", i)
			}
		}
		out.Props = append(out.Props, p)
	}
	if out.Version == 2 || out.Version == 3 {
		out.HasKey = true
		e, err := r.U64()
		if err != nil {
			return out, "parse", fmt.Errorf("key expiry: %w", err)
		}
		out.ExpiryMs = int64(e)
		if out.PubKey, err = c20pRefByteArray(r, 512); err != nil {
			return out, "parse", fmt.Errorf("public key: %w", err)
		}
		if out.Sig, err = c20pRefByteArray(r, 4096); err != nil {
			return out, "parse", fmt.Errorf("key signature: %w", err)
		}
		if out.Version == 3 {
			if out.HasHolder, err = r.Bool(); err != nil {
				return out, "parse", fmt.Errorf("holder flag: %w", err)
			}
			if out.HasHolder {
				if out.Holder, err = r.UUID(); err != nil {
					return out, "parse", fmt.Errorf("holder uuid: %w", err)
				}
			}
		}
	}
	return out, "", nil
}

func c20pKeyRev(k *c20pKeyCase) int {
	if k == nil {
		return 0
	}
	return k.Revision
}

func c20pCompare(c c20pCase, p *c20pParsed) *verifkit.Violation {
	got, err := netip.ParseAddr(p.Address)
	want := netip.MustParseAddr(c.IP)
	if err != nil || got != want {
		return verifkit.Violationf("payload:address", "address parsed %q, the player's IP is %s", p.Address, want)
	}
	if !bytes.Equal(p.UUID[:], c.UUID) {
		return verifkit.Violationf("payload:uuid", "uuid parsed %x want %x", p.UUID, c.UUID)
	}
	if p.Name != c.Name {
		return verifkit.Violationf("payload:name", "name parsed %q want %q", p.Name, c.Name)
	}
	if len(p.Props) != len(c.Props) {
		return verifkit.Violationf("payload:properties", "parsed %d properties want %d", len(p.Props), len(c.Props))
	}
	for i := range c.Props {
		if p.Props[i] != c.Props[i] {
			return verifkit.Violationf("payload:properties", "property %d parsed %+v want %+v", i, p.Props[i], c.Props[i])
		}
	}
	if p.HasKey {
		if c.Key == nil {
			return verifkit.Violationf("payload:key", "version %d carries key data but the player has no key", p.Version)
		}
		if p.ExpiryMs != c.Key.ExpiryMs || !bytes.Equal(p.PubKey, c.Key.PubKey) || !bytes.Equal(p.Sig, c.Key.Sig) {
			return verifkit.Violationf("payload:key", "key data differs from the player's key")
		}
		if p.Version == 3 {
			wantHolder := len(c.Key.Holder) == 16
			if p.HasHolder != wantHolder || (wantHolder && !bytes.Equal(p.Holder[:], c.Key.Holder)) {
				return verifkit.Violationf("payload:key-holder", "holder parsed (%v,%x) want (%v,%x)", p.HasHolder, p.Holder, wantHolder, c.Key.Holder)
			}
		}
	}
	return nil
}

// ---------------------------------------------------------------- run

func c20pRun(c c20pCase) verifkit.Result {
	cfg := &config.Config{Forwarding: config.Forwarding{Mode: config.VelocityForwardingMode, VelocitySecret: c.Secret}}
	p := &Proxy{cfg: cfg}
	deps := &sessionHandlerDeps{proxy: p, configProvider: p, eventMgr: event.Nop}
	var id uuid.UUID
	copy(id[:], c.UUID)
	var props []profile.Property
	for _, pr := range c.Props {
		props = append(props, profile.Property{Name: pr.Name, Value: pr.Value, Signature: pr.Signature})
	}
	clientConn := c20pNewConn(proto.Protocol(c.Protocol), &net.TCPAddr{IP: net.IP(netip.MustParseAddr(c.IP).AsSlice()), Port: c.Port})
	player := &connectedPlayer{
		MinecraftConn:      clientConn,
		sessionHandlerDeps: deps,
		log:                logr.Discard(),
		profile:            &profile.GameProfile{ID: id, Name: c.Name, Properties: props},
		virtualHost:        netutil.NewAddr("play.example.org:25565", "tcp"),
	}
	if c.Key != nil {
		player.playerKey = &c20pKey{c: *c.Key}
	}
	backendConn := c20pNewConn(proto.Protocol(c.Protocol), &net.TCPAddr{IP: net.IPv4(127, 0, 0, 1), Port: 25566})
	target := newRegisteredServer(NewServerInfo("backend", netutil.NewAddr("127.0.0.1:25566", "tcp")))
	serverConn := &serverConnection{server: target, player: player, log: logr.Discard(), connection: backendConn}
	resultChan := make(chan *connResponse, 1)
	reqCtx := &connRequestCxt{Context: context.Background(), response: resultChan}
	h := newBackendLoginSessionHandler(serverConn, reqCtx, deps)
	defer clientConn.cancel()
	defer backendConn.cancel()

	labels := []string{}
	forwarded := false
	nontrivial := false
	for i, st := range c.Steps {
		before := len(backendConn.written)
		switch st.Kind {
		case "velocity", "other":
			ch := st.Channel
			if st.Kind == "velocity" {
				ch = "velocity:player_info"
			}
			h.HandlePacket(&proto.PacketContext{Direction: proto.ClientBound, Protocol: proto.Protocol(c.Protocol),
				Packet: &packet.LoginPluginMessage{ID: st.ID, Channel: ch, Data: bytes.Clone(st.Data)}})
			wr := backendConn.written[before:]
			if st.Kind == "other" {
				// not a forwarding request: must not be answered with forwarding data
				for _, w := range wr {
					if r, ok := w.(*packet.LoginPluginResponse); ok && r.Success && len(r.Data) >= 32 {
						if _, _, err := c20pRefPaperParse([]byte(c.Secret), r.Data); err == nil {
							return verifkit.Fail("request:foreign-channel-answered", "step %d: channel %q answered with forwarding data", i, ch)
						}
					}
				}
				labels = append(labels, "other-channel")
				continue
			}
			if len(wr) != 1 {
				return verifkit.Fail("request:response-count", "step %d: forwarding request answered with %d packets, want exactly 1", i, len(wr))
			}
			resp, ok := wr[0].(*packet.LoginPluginResponse)
			if !ok {
				return verifkit.Fail("request:response-type", "step %d: forwarding request answered with %T", i, wr[0])
			}
			if resp.ID != st.ID || !resp.Success {
				return verifkit.Fail("request:response-header", "step %d: response id=%d success=%v for request id=%d", i, resp.ID, resp.Success, st.ID)
			}
			parsed, stage, err := c20pRefPaperParse([]byte(c.Secret), resp.Data)
			if err != nil {
				return verifkit.Fail("payload:"+stage, "step %d: Paper-side %s failure: %v", i, stage, err)
			}
			if v := c20pCompare(c, parsed); v != nil {
				return verifkit.Result{V: v}
			}
			// Velocity: requested = MODERN_DEFAULT unless exactly one content byte, then content.readByte() (signed).
			requested := 1
			class := "len!=1"
			if len(st.Data) == 1 {
				requested = int(int8(st.Data[0]))
				class = "byte<128"
				if st.Data[0] >= 128 {
					class = "byte>=128"
				}
			}
			want := c20pRefVersion(requested, c.Protocol, c20pKeyRev(c.Key))
			labels = append(labels, "request-"+class, fmt.Sprintf("velocity-choice-%d", want))
			if parsed.Version != want {
				key := "negotiation:version"
				if class == "byte>=128" {
					key = "negotiation:request-byte-high-bit-read-unsigned"
				}
				return verifkit.Fail(key, "step %d: request data %x, client protocol %d, key revision %d: payload carries version %d, Velocity (signed readByte => requested %d) chooses %d",
					i, st.Data, c.Protocol, c20pKeyRev(c.Key), parsed.Version, requested, want)
			}
			if requested >= 2 || len(c.Props) > 0 {
				nontrivial = true
			}
			forwarded = true
		case "success":
			handlersBefore := len(backendConn.handlers)
			h.HandlePacket(&proto.PacketContext{Direction: proto.ClientBound, Protocol: proto.Protocol(c.Protocol),
				Packet: &packet.ServerLoginSuccess{UUID: id, Username: c.Name}})
			var res *connResponse
			select {
			case res = <-resultChan:
			default:
			}
			wr := backendConn.written[before:]
			switched := len(backendConn.handlers) > handlersBefore
			acked := false
			for _, w := range wr {
				if _, ok := w.(*packet.LoginAcknowledged); ok {
					acked = true
				}
			}
			_, stillConnected := serverConn.ensureConnected()
			if !forwarded {
				labels = append(labels, "success-without-forwarding")
				nontrivial = true
				if res == nil {
					return verifkit.Fail("refuse:no-result", "backend completed login without a forwarding request but the connection request was not resolved")
				}
				if res.error == nil && (res.connectionResult == nil || res.connectionResult.status == SuccessConnectionStatus) {
					return verifkit.Fail("refuse:resolved-successful", "backend completed login without a forwarding request but the connection request resolved as successful")
				}
				if stillConnected || backendConn.closed == 0 {
					return verifkit.Fail("refuse:backend-left-open", "backend completed login without a forwarding request but its connection was not closed")
				}
				if switched || acked {
					return verifkit.Fail("refuse:login-continued", "backend completed login without a forwarding request but the proxy went on (handler switched=%v, LoginAcknowledged=%v)", switched, acked)
				}
			} else {
				labels = append(labels, "success-after-forwarding")
				if res != nil {
					return verifkit.Fail("accept:resolved-early", "backend requested forwarding and completed login but the connection request was resolved with %+v / %v", res.connectionResult, res.error)
				}
				if !stillConnected || backendConn.closed != 0 {
					return verifkit.Fail("accept:backend-closed", "backend requested forwarding and completed login but its connection was closed")
				}
				if !switched {
					return verifkit.Fail("accept:no-transition", "backend requested forwarding and completed login but no config/play handler was installed")
				}
				wantAck := c.Protocol >= 764 // 1.20.2 introduced the configuration phase
				if acked != wantAck {
					return verifkit.Fail("accept:login-ack", "client protocol %d: LoginAcknowledged sent=%v want %v", c.Protocol, acked, wantAck)
				}
			}
		}
	}
	if c.Protocol >= 761 {
		labels = append(labels, "client>=1.19.3")
	}
	labels = append(labels, fmt.Sprintf("keyrev-%d", c20pKeyRev(c.Key)))
	return verifkit.Result{NonTrivial: nontrivial, Labels: labels}
}

// ---------------------------------------------------------------- generators

var c20pAlnum = []rune("abcdefghijklmnopqrstuvwxyzABCDEFGHIJKLMNOPQRSTUVWXYZ0123456789_")
var c20pB64 = []rune("abcdefghijklmnopqrstuvwxyzABCDEFGHIJKLMNOPQRSTUVWXYZ0123456789+/=")

func c20pProtocols() []int {
	var out []int
	for _, v := range version.SupportedVersions {
		out = append(out, int(v.Protocol))
	}
	return out
}

func c20pGenText(max int) *rapid.Generator[string] {
	return rapid.OneOf(
		rapid.StringOfN(rapid.SampledFrom(c20pB64), 0, max, -1),
		rapid.StringOfN(rapid.Rune(), 0, 30, -1),
		rapid.SampledFrom([]string{"textures", "\x00", "é名\U0001F600"}),
	)
}

func c20pGenIP(t *rapid.T) string {
	if rapid.Bool().Draw(t, "v6") {
		b := rapid.SliceOfN(rapid.Byte(), 16, 16).Draw(t, "ip6")
		if rapid.Bool().Draw(t, "zerorun") {
			for i := 2; i < 14; i++ {
				b[i] = 0
			}
		}
		a := netip.AddrFrom16([16]byte(b))
		if a.Is4In6() {
			return "2001:db8::1"
		}
		return a.String()
	}
	return netip.AddrFrom4([4]byte(rapid.SliceOfN(rapid.Byte(), 4, 4).Draw(t, "ip4"))).String()
}

func c20pGenKey(t *rapid.T, rev int) *c20pKeyCase {
	k := &c20pKeyCase{Revision: rev}
	k.ExpiryMs = rapid.Int64Range(1_600_000_000_000, 1_900_000_000_000).Draw(t, "expiry")
	k.PubKey = rapid.SliceOfN(rapid.Byte(), 1, 300).Draw(t, "pubkey")
	k.Sig = rapid.SliceOfN(rapid.Byte(), 0, 300).Draw(t, "keysig")
	if rev == 2 && rapid.Bool().Draw(t, "holder") {
		k.Holder = rapid.SliceOfN(rapid.Byte(), 16, 16).Draw(t, "holderid")
		k.Holder[0] |= 1
	}
	return k
}

func c20pGenBase(t *rapid.T) c20pCase {
	c := c20pCase{}
	c.Secret = rapid.OneOf(
		rapid.Just(""),
		rapid.StringOfN(rapid.SampledFrom(c20pAlnum), 12, 12, -1),
		rapid.StringOfN(rapid.Rune(), 1, 80, -1),
	).Draw(t, "secret")
	c.IP = c20pGenIP(t)
	c.Port = rapid.IntRange(1, 65535).Draw(t, "port")
	c.UUID = rapid.SliceOfN(rapid.Byte(), 16, 16).Draw(t, "uuid")
	c.Name = rapid.StringOfN(rapid.SampledFrom(c20pAlnum), 1, 16, -1).Draw(t, "name")
	n := rapid.SampledFrom([]int{0, 1, 1, 2, 4}).Draw(t, "nprops")
	for i := 0; i < n; i++ {
		p := c20pProp{Name: rapid.OneOf(rapid.Just("textures"), c20pGenText(16)).Draw(t, "pname"),
			Value: rapid.OneOf(c20pGenText(40), c20pGenText(1500)).Draw(t, "pvalue")}
		if rapid.Bool().Draw(t, "signed") {
			p.Signature = rapid.StringOfN(rapid.SampledFrom(c20pB64), 1, 700, -1).Draw(t, "psig")
		}
		c.Props = append(c.Props, p)
	}
	switch rapid.IntRange(0, 5).Draw(t, "combo") {
	case 0:
		c.Protocol = 759
		c.Key = c20pGenKey(t, 1)
	case 1:
		c.Protocol = 760
		c.Key = c20pGenKey(t, 2)
	case 2:
		c.Protocol = rapid.SampledFrom([]int{759, 760}).Draw(t, "protocol")
	case 3:
		c.Protocol = rapid.SampledFrom(c20pProtocols()).Draw(t, "protocol")
	default:
		c.Protocol = rapid.IntRange(761, 776).Draw(t, "protocol")
	}
	return c
}

func c20pGenStepData(t *rapid.T) []byte {
	return rapid.OneOf(
		rapid.Map(rapid.IntRange(0, 6), func(i int) []byte { return []byte{byte(i)} }),
		rapid.Map(rapid.IntRange(0, 255), func(i int) []byte { return []byte{byte(i)} }),
		rapid.Map(rapid.IntRange(120, 135), func(i int) []byte { return []byte{byte(i)} }),
		rapid.Just([]byte{}),
		rapid.SliceOfN(rapid.Byte(), 2, 4),
	).Draw(t, "data")
}

func c20pGen(t *rapid.T) c20pCase {
	c := c20pGenBase(t)
	n := rapid.SampledFrom([]int{0, 0, 1, 1, 1, 2, 3}).Draw(t, "nsteps")
	for i := 0; i < n; i++ {
		if rapid.IntRange(0, 3).Draw(t, "foreign") == 0 {
			c.Steps = append(c.Steps, c20pStep{Kind: "other", ID: rapid.IntRange(0, 1000).Draw(t, "id"),
				Channel: rapid.SampledFrom([]string{"velocity:player_info2", "velocity:player", "foo:bar", "bungeecord:main", "player_info", "Velocity:player_info"}).Draw(t, "channel"),
				Data:    c20pGenStepData(t)})
			continue
		}
		c.Steps = append(c.Steps, c20pStep{Kind: "velocity", ID: rapid.OneOf(rapid.IntRange(0, 10), rapid.IntRange(-5, 1<<20)).Draw(t, "id"), Data: c20pGenStepData(t)})
	}
	c.Steps = append(c.Steps, c20pStep{Kind: "success"})
	return c
}

// ---------------------------------------------------------------- entry point

type c20pByteCase struct {
	Byte     int `json:"byte"`
	Protocol int `json:"protocol"`
	KeyRev   int `json:"key_rev"`
}

func c20pRunByte(b c20pByteCase) verifkit.Result {
	c := c20pCase{Secret: "s3cr3t", IP: "203.0.113.7", Port: 40000, UUID: bytes.Repeat([]byte{0xab}, 16), Name: "Player", Protocol: b.Protocol,
		Steps: []c20pStep{{Kind: "velocity", ID: 1, Data: []byte{byte(b.Byte)}}, {Kind: "success"}}}
	if b.KeyRev != 0 {
		c.Key = &c20pKeyCase{Revision: b.KeyRev, ExpiryMs: 1_700_000_000_000, PubKey: []byte{1, 2, 3}, Sig: []byte{4, 5}}
	}
	r := c20pRun(c)
	r.NonTrivial = r.V == nil && b.Byte >= 2
	return r
}

func TestVerif_C20(t *testing.T) {
	const byteRule = "exhaustive: request byte 0..255 x every supported client protocol x key in {none, GenericV1, LinkedV2} through backendLoginSessionHandler.HandlePacket(LoginPluginMessage velocity:player_info); version in the Paper-parsed response compared with Velocity's table applied to the byte read as Velocity reads it (signed); non-trivial = byte >= 2"
	if os.Getenv("VERIF_REPLAY") == "" {
		for _, p := range c20pProtocols() {
			for rev := 0; rev <= 2; rev++ {
				for b := 0; b <= 255; b++ {
					verifkit.CheckCase(t, "C20", "request-byte", byteRule, c20pByteCase{Byte: b, Protocol: p, KeyRev: rev}, c20pRunByte)
				}
			}
		}
		verifkit.Flush()
	}
	verifkit.Check(t, "C20", "request-byte", byteRule, func(t *rapid.T) c20pByteCase {
		return c20pByteCase{Byte: rapid.IntRange(0, 255).Draw(t, "byte"), Protocol: rapid.SampledFrom(c20pProtocols()).Draw(t, "p"), KeyRev: rapid.IntRange(0, 2).Draw(t, "rev")}
	}, c20pRunByte)

	verifkit.Check(t, "C20", "backend-login",
		"velocity mode; struct-literal serverConnection/connectedPlayer over recording conns; generated backend login scripts (0..3 login plugin messages on velocity:player_info with 0/1/2+ content bytes or on look-alike channels, then ServerLoginSuccess); each forwarding request must be answered once with a payload Paper authenticates and parses to the player's data with Velocity's version choice; ServerLoginSuccess with no answered forwarding request must be refused (request resolved unsuccessful, backend closed, no transition), otherwise login proceeds; non-trivial = success without forwarding, or requested >= 2, or properties present",
		c20pGen, c20pRun)
}
