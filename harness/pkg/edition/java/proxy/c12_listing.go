//go:build verif

package proxy

// C12: listing players and servers is safe during concurrent joins and leaves.
//
// Scenario: a real *Proxy (New, no listeners). Writer goroutines let players join
// (newConnectedPlayer over a real netmc connection on an in-memory socket, then
// canRegisterConnection / registerConnection and the session handler the login
// path installs after registration), put them on / take them off a backend
// server's player list (players.add / players.remove, what the backend play
// session handler does), let them leave (connection close -> Disconnected ->
// teardown -> unregisterConnection, or Player.Disconnect), and register /
// unregister backend servers. Reader goroutines call Players, PlayerCount,
// Servers, server.Players().Range / Len, PlayersToSlice and DisconnectAll.
//
// Sensors: the race detector (unit runs with -race; reports are attributed by
// the driver through race_anchors), the Go runtime's fatal "concurrent map
// iteration and map write" (kills the process; the driver turns the lastcase
// file into the violation), and a semantic snapshot oracle evaluated after all
// goroutines were joined: every returned list must be free of duplicates and
// equal the registered set at SOME moment of the call, as far as the logical
// time stamps taken around every write and every read can tell.

import (
	"context"
	"fmt"
	"github.com/go-logr/logr"
	"net"
	"runtime"
	"sort"
	"strings"
	"sync"
	"sync/atomic"
	"testing"
	"time"

	"github.com/robinbraemer/event"
	"go.minekube.com/common/minecraft/component"
	"go.minekube.com/gate/pkg/edition/java/config"
	"go.minekube.com/gate/pkg/edition/java/netmc"
	"go.minekube.com/gate/pkg/edition/java/profile"
	"go.minekube.com/gate/pkg/edition/java/proto/packet"
	"go.minekube.com/gate/pkg/edition/java/proto/state"
	"go.minekube.com/gate/pkg/edition/java/proto/version"
	"go.minekube.com/gate/pkg/gate/proto"
	"go.minekube.com/gate/pkg/internal/verifkit"
	"go.minekube.com/gate/pkg/util/netutil"
	"go.minekube.com/gate/pkg/util/uuid"
	"pgregory.net/rapid"
)

const c12Inf = int64(1) << 60

// ---------------------------------------------------------------- case

type c12Writer struct {
	Kind    string `json:"kind"`    // "players" or "servers"
	Ops     int    `json:"ops"`     // number of operations
	Hold    int    `json:"hold"`    // players: at most this many of its players online at once
	Pattern []int  `json:"pattern"` // cycled op selector: 0 join, 1 leave (client gone), 2 leave (Player.Disconnect), 3 move a player to another server list, 4 take a player off its server list
}

type c12Reader struct {
	Ops int      `json:"ops"`
	Mix []string `json:"mix"` // cycled: players, count, servers, range, len, slice
	// DisconnectAll is called instead of the regular op at these op indices
	DisconnectAllAt []int `json:"disconnect_all_at,omitempty"`
}

type c12Case struct {
	Procs   int         `json:"procs"`   // GOMAXPROCS during the scenario
	Stable  int         `json:"stable"`  // players that join during setup and never leave by themselves
	Servers int         `json:"servers"` // backend servers registered during setup
	Writers []c12Writer `json:"writers"`
	Readers []c12Reader `json:"readers"`
	// Kick: onlineMode + onlineModeKickExistingPlayers (registration takes the
	// kick-existing branch; identities stay distinct, so nobody is kicked)
	Kick bool `json:"kick,omitempty"`
}

// ---------------------------------------------------------------- fixtures

type c12NetConn struct {
	once   sync.Once
	closed chan struct{}
	port   int
}

func (c *c12NetConn) Read([]byte) (int, error) {
	<-c.closed
	return 0, &net.OpError{Op: "read", Net: "tcp", Err: net.ErrClosed}
}
func (c *c12NetConn) Write(b []byte) (int, error) {
	select {
	case <-c.closed:
		return 0, &net.OpError{Op: "write", Net: "tcp", Err: net.ErrClosed}
	default:
		return len(b), nil
	}
}
func (c *c12NetConn) Close() error { c.once.Do(func() { close(c.closed) }); return nil }
func (c *c12NetConn) LocalAddr() net.Addr {
	return &net.TCPAddr{IP: net.IPv4(127, 0, 0, 1), Port: 25565}
}
func (c *c12NetConn) RemoteAddr() net.Addr {
	return &net.TCPAddr{IP: net.IPv4(127, 0, 0, 1), Port: c.port}
}
func (c *c12NetConn) SetDeadline(time.Time) error      { return nil }
func (c *c12NetConn) SetReadDeadline(time.Time) error  { return nil }
func (c *c12NetConn) SetWriteDeadline(time.Time) error { return nil }

// c12Ent is one registration interval of one entity (a player in the proxy
// registry, a player on a server's list, or a server), stamped by its single
// owner goroutine with the scenario's logical clock.
type c12Ent struct {
	name string
	inB  int64 // stamp before the registering call
	inE  int64 // stamp after it returned
	ok   bool  // the call reported success
	outB int64 // stamp before the removing call (c12Inf if none)
	outE int64 // stamp after it returned (c12Inf if none)
	// computed after the scenario: the interval in which the entity is DEFINITELY
	// registered (inE..outB, cut by DisconnectAll calls); empty if defB > defE.
	// The interval in which it is POSSIBLY registered is inB..outE (if ok).
	defB, defE int64
	dbg        string // raw stamps and DisconnectAll windows, for violation messages
}

type c12Read struct {
	api   string
	t0    int64
	t1    int64
	names []string
	count int
	list  int // server index for range/len/slice
}

type c12Kill struct{ d0, d1 int64 }

type c12World struct {
	p     *Proxy
	deps  *sessionHandlerDeps
	clock atomic.Int64
	srv   []*registeredServer
}

func (w *c12World) now() int64 { return w.clock.Add(1) }

type c12Player struct {
	pl   *connectedPlayer
	conn netmc.MinecraftConn
	reg  *c12Ent
	on   int     // server list index it is on (-1 none)
	mem  *c12Ent // membership interval
	back *backendPlaySessionHandler
}

func c12NewWorld(nServers int, kick bool) *c12World {
	cfg := config.DefaultConfig
	cfg.OnlineMode = kick
	cfg.OnlineModeKickExistingPlayers = kick
	cfg.Quota.Connections.Enabled = false
	cfg.Quota.Logins.Enabled = false
	cfg.Servers = map[string]string{}
	cfg.Try = nil
	cfg.ForcedHosts = map[string][]string{}
	p, err := New(Options{Config: &cfg, EventMgr: event.Nop})
	if err != nil {
		panic(fmt.Sprintf("c12 harness: proxy.New: %v", err))
	}
	w := &c12World{p: p}
	w.deps = &sessionHandlerDeps{proxy: p, registrar: p, configProvider: p, eventMgr: p.event, authenticator: p.authenticator}
	for i := 0; i < nServers; i++ {
		rs, err := p.Register(NewServerInfo(fmt.Sprintf("base%d", i), c12Addr(30000+i)))
		if err != nil {
			panic(fmt.Sprintf("c12 harness: register server: %v", err))
		}
		w.srv = append(w.srv, rs.(*registeredServer))
	}
	return w
}

func c12Addr(port int) net.Addr {
	return netutil.NewAddr(fmt.Sprintf("127.0.0.1:%d", port), "tcp")
}

var c12Reason = &component.Text{Content: "c12"}

// join lets a new player with a fresh identity join the proxy, the way the login
// path does after authentication.
func (w *c12World) join(name string, port int) *c12Player {
	nc := &c12NetConn{closed: make(chan struct{}), port: port}
	conn, _ := netmc.NewMinecraftConn(context.Background(), nc, proto.ServerBound, 30*time.Second, 5*time.Second, -1, nil)
	conn.SetProtocol(version.Minecraft_1_20.Protocol)
	gp := &profile.GameProfile{Name: name, ID: uuid.OfflinePlayerUUID(name)}
	pl := newConnectedPlayer(conn, gp, c12Addr(25565), packet.LoginHandshakeIntent, false, nil, w.deps)
	// In the login path a session handler whose Disconnected() tears the player
	// down is active for as long as the player is registered (authSessionHandler
	// while registerConnection runs, then the handler installed by
	// completeLoginProtocolPhaseAndInitialize). The fixture installs the latter
	// before registering so that, as in production, there is no moment at which a
	// registered player has no such handler.
	conn.SetActiveSessionHandler(state.Play, newInitialConnectSessionHandler(pl))
	e := &c12Ent{name: name, outB: c12Inf, outE: c12Inf}
	e.inB = w.now()
	ok := w.p.canRegisterConnection(pl) && w.p.registerConnection(pl)
	e.ok = ok
	e.inE = w.now()
	return &c12Player{pl: pl, conn: conn, reg: e, on: -1}
}

func (w *c12World) leave(cp *c12Player, byProxy bool) {
	cp.reg.outB = w.now()
	if byProxy {
		cp.pl.Disconnect(c12Reason)
	} else {
		_ = netmc.CloseUnknown(cp.conn)
	}
	cp.reg.outE = w.now()
}

func (w *c12World) listAdd(cp *c12Player, s int) *c12Ent {
	e := &c12Ent{name: cp.reg.name, ok: true, outB: c12Inf, outE: c12Inf}
	e.inB = w.now()
	// as in production: the backend play session handler of the player's connection
	// to that server puts the player on the server's list when it is activated ...
	cp.back = &backendPlaySessionHandler{serverConn: &serverConnection{server: w.srv[s], player: cp.pl, log: logr.Discard()}, log: logr.Discard()}
	cp.back.Activated()
	e.inE = w.now()
	cp.on, cp.mem = s, e
	return e
}

func (w *c12World) listRemove(cp *c12Player) {
	if cp.on < 0 {
		return
	}
	cp.mem.outB = w.now()
	// ... and takes the player off it when that connection closes (here: closed by
	// the proxy for a server switch, so the player itself is left alone)
	cp.back.serverConn.gracefulDisconnect.Store(true)
	cp.back.Disconnected()
	cp.back = nil
	cp.mem.outE = w.now()
	cp.on, cp.mem = -1, nil
}

// ---------------------------------------------------------------- oracle

// c12Snapshot decides whether the returned names can be the registered set at
// some stamp t in [t0,t1]: every returned entity must possibly be registered at
// t (inB <= t <= outE) and every absent entity must not be definitely registered
// at t (ok && inE <= t <= outB). Returns "" or a key suffix + explanation.
func c12Snapshot(api string, r c12Read, ents map[string]*c12Ent, all []*c12Ent) *verifkit.Violation {
	seen := map[string]bool{}
	lo, hi := r.t0, r.t1
	var loBy, hiBy *c12Ent
	for _, n := range r.names {
		if seen[n] {
			return verifkit.Violationf("list-duplicate:"+api, "%s returned %q twice (call window %d..%d)", api, n, r.t0, r.t1)
		}
		seen[n] = true
		e := ents[n]
		if e == nil {
			return verifkit.Violationf("list-unknown-entry:"+api, "%s returned %q which never joined", api, n)
		}
		if e.inB > lo {
			lo, loBy = e.inB, e
		}
		if e.outE < hi {
			hi, hiBy = e.outE, e
		}
	}
	if lo > hi {
		switch {
		case hiBy != nil && hiBy.outE < r.t0:
			return verifkit.Violationf("list-stale-entry:"+api, "%s (call window %d..%d) returned %q whose removal had completed at %d, before the call started %s", api, r.t0, r.t1, hiBy.name, hiBy.outE, hiBy.dbg)
		case loBy != nil && loBy.inB > r.t1:
			return verifkit.Violationf("list-future-entry:"+api, "%s (call window %d..%d) returned %q whose registration only started at %d", api, r.t0, r.t1, loBy.name, loBy.inB)
		default:
			return verifkit.Violationf("list-mixed-moments:"+api, "%s (call window %d..%d) returned both %q (gone at %d) and %q (joining from %d): no single moment has both", api, r.t0, r.t1, hiBy.name, hiBy.outE, loBy.name, loBy.inB)
		}
	}
	// absent entities definitely registered somewhere in [lo,hi] block those stamps
	type iv struct {
		a, b int64
		e    *c12Ent
	}
	var blocks []iv
	for _, e := range all {
		if seen[e.name] || !e.ok {
			continue
		}
		a, b := e.defB, e.defE
		if a < lo {
			a = lo
		}
		if b > hi {
			b = hi
		}
		if a <= b {
			blocks = append(blocks, iv{a, b, e})
		}
	}
	sort.Slice(blocks, func(i, j int) bool { return blocks[i].a < blocks[j].a })
	t := lo
	var last *c12Ent
	for _, b := range blocks {
		if b.a > t {
			return nil // stamp t is free
		}
		if b.b >= t {
			t = b.b + 1
			last = b.e
		}
		if t > hi {
			break
		}
	}
	if t <= hi {
		return nil
	}
	if last != nil && last.defB <= r.t0 && last.defE >= r.t1 {
		return verifkit.Violationf("list-missing-entry:"+api, "%s (call window %d..%d) does not contain %q which was registered during the whole call (%d..%d) %s", api, r.t0, r.t1, last.name, last.defB, last.defE, last.dbg)
	}
	return verifkit.Violationf("list-mixed-moments:"+api, "%s (call window %d..%d, %d entries) matches the registered set at no moment of the call: at every stamp some registered entity is missing (e.g. %q registered %d..%d)", api, r.t0, r.t1, len(r.names), last.name, last.defB, last.defE)
}

func c12CountBounds(api string, r c12Read, all []*c12Ent) *verifkit.Violation {
	lower, upper := 0, 0
	for _, e := range all {
		if e.ok && e.defB <= r.t0 && e.defE >= r.t1 {
			lower++
		}
		if e.ok && e.inB <= r.t1 && e.outE >= r.t0 {
			upper++
		}
	}
	if r.count < lower || r.count > upper {
		return verifkit.Violationf("count-out-of-range:"+api, "%s = %d during %d..%d, but at least %d and at most %d entities were registered at any moment of the call", api, r.count, r.t0, r.t1, lower, upper)
	}
	return nil
}

// ---------------------------------------------------------------- scenario

func c12Run(c c12Case) (res verifkit.Result) {
	procs := c.Procs
	if procs < 1 {
		procs = 4
	}
	if procs > 16 {
		procs = 16
	}
	prev := runtime.GOMAXPROCS(procs)
	defer runtime.GOMAXPROCS(prev)

	nsrv := c.Servers
	if nsrv < 1 {
		nsrv = 1
	}
	if nsrv > 4 {
		nsrv = 4
	}
	w := c12NewWorld(nsrv, c.Kick)

	var mu sync.Mutex // guards the logs below (appended once per goroutine at its end)
	var regEnts []*c12Ent
	memEnts := make([][]*c12Ent, nsrv)
	var srvEnts []*c12Ent
	var reads []c12Read
	var kills []c12Kill
	var cleanup []*c12Player

	for i := 0; i < nsrv; i++ {
		srvEnts = append(srvEnts, &c12Ent{name: fmt.Sprintf("base%d", i), ok: true, inB: 0, inE: 0, outB: c12Inf, outE: c12Inf})
	}
	// stable players
	for i := 0; i < c.Stable && i < 64; i++ {
		cp := w.join(fmt.Sprintf("st%d", i), 40000+i)
		regEnts = append(regEnts, cp.reg)
		memEnts[i%nsrv] = append(memEnts[i%nsrv], w.listAdd(cp, i%nsrv))
		cleanup = append(cleanup, cp)
	}

	start := make(chan struct{})
	var wg sync.WaitGroup
	panics := make(chan string, 32)
	guard := func(what string) {
		if p := recover(); p != nil {
			buf := make([]byte, 8192)
			buf = buf[:runtime.Stack(buf, false)]
			panics <- fmt.Sprintf("%s: %v\n%s", what, p, buf)
		}
	}

	for wi, wr := range c.Writers {
		if wi >= 8 {
			break
		}
		wg.Add(1)
		go func(wi int, wr c12Writer) {
			defer wg.Done()
			defer guard(fmt.Sprintf("writer %d", wi))
			var myReg, mySrv []*c12Ent
			myMem := make([][]*c12Ent, nsrv)
			var held []*c12Player
			var heldSrv []*c12Ent
			hold := wr.Hold
			if hold < 1 {
				hold = 1
			}
			if hold > 16 {
				hold = 16
			}
			ops := wr.Ops
			if ops > 5000 {
				ops = 5000
			}
			pat := wr.Pattern
			if len(pat) == 0 {
				pat = []int{0, 1}
			}
			<-start
			seq := 0
			for i := 0; i < ops; i++ {
				sel := pat[i%len(pat)]
				if wr.Kind == "servers" {
					// register / unregister extra backend servers
					if sel%2 == 0 && len(heldSrv) < hold {
						name := fmt.Sprintf("x%dn%d", wi, seq)
						seq++
						e := &c12Ent{name: name, outB: c12Inf, outE: c12Inf}
						e.inB = w.now()
						_, err := w.p.Register(NewServerInfo(name, c12Addr(31000+wi)))
						e.ok = err == nil
						e.inE = w.now()
						mySrv = append(mySrv, e)
						heldSrv = append(heldSrv, e)
					} else if len(heldSrv) > 0 {
						e := heldSrv[0]
						heldSrv = heldSrv[1:]
						e.outB = w.now()
						w.p.Unregister(NewServerInfo(e.name, c12Addr(31000+wi)))
						e.outE = w.now()
					}
					continue
				}
				switch {
				case sel == 0 || len(held) == 0:
					if len(held) >= hold {
						cp := held[0]
						held = held[1:]
						w.listRemove(cp)
						w.leave(cp, false)
					}
					cp := w.join(fmt.Sprintf("w%dk%d", wi, seq), 41000+wi)
					seq++
					myReg = append(myReg, cp.reg)
					if cp.reg.ok {
						s := (wi + seq) % nsrv
						myMem[s] = append(myMem[s], w.listAdd(cp, s))
						held = append(held, cp)
					}
				case sel == 1 || sel == 2:
					cp := held[0]
					held = held[1:]
					w.listRemove(cp)
					w.leave(cp, sel == 2)
				case sel == 3:
					cp := held[i%len(held)]
					s := (cp.on + 1 + nsrv) % nsrv
					w.listRemove(cp)
					myMem[s] = append(myMem[s], w.listAdd(cp, s))
				default:
					w.listRemove(held[i%len(held)])
				}
			}
			mu.Lock()
			regEnts = append(regEnts, myReg...)
			srvEnts = append(srvEnts, mySrv...)
			for s := range myMem {
				memEnts[s] = append(memEnts[s], myMem[s]...)
			}
			cleanup = append(cleanup, held...)
			mu.Unlock()
		}(wi, wr)
	}

	for ri, rd := range c.Readers {
		if ri >= 8 {
			break
		}
		wg.Add(1)
		go func(ri int, rd c12Reader) {
			defer wg.Done()
			defer guard(fmt.Sprintf("reader %d", ri))
			var my []c12Read
			var myKills []c12Kill
			mix := rd.Mix
			if len(mix) == 0 {
				mix = []string{"players"}
			}
			da := map[int]bool{}
			for _, i := range rd.DisconnectAllAt {
				da[i] = true
			}
			ops := rd.Ops
			if ops > 5000 {
				ops = 5000
			}
			<-start
			for i := 0; i < ops; i++ {
				if da[i] {
					d0 := w.now()
					w.p.DisconnectAll(c12Reason)
					myKills = append(myKills, c12Kill{d0, w.now()})
					continue
				}
				api := mix[i%len(mix)]
				r := c12Read{api: api, list: (ri + i) % nsrv}
				switch api {
				case "count":
					r.t0 = w.now()
					r.count = w.p.PlayerCount()
					r.t1 = w.now()
				case "servers":
					r.t0 = w.now()
					l := w.p.Servers()
					r.t1 = w.now()
					for _, s := range l {
						r.names = append(r.names, s.ServerInfo().Name())
					}
				case "range":
					r.t0 = w.now()
					w.srv[r.list].Players().Range(func(p Player) bool {
						r.names = append(r.names, p.Username())
						return true
					})
					r.t1 = w.now()
				case "len":
					r.t0 = w.now()
					r.count = w.srv[r.list].Players().Len()
					r.t1 = w.now()
				case "slice":
					r.t0 = w.now()
					l := PlayersToSlice[Player](w.srv[r.list].Players())
					r.t1 = w.now()
					for _, p := range l {
						r.names = append(r.names, p.Username())
					}
				default:
					r.api = "players"
					r.t0 = w.now()
					l := w.p.Players()
					r.t1 = w.now()
					for _, p := range l {
						r.names = append(r.names, p.Username())
					}
				}
				my = append(my, r)
			}
			mu.Lock()
			reads = append(reads, my...)
			kills = append(kills, myKills...)
			mu.Unlock()
		}(ri, rd)
	}

	close(start)
	wr := verifkit.Watch(30*time.Second, "proxy.(*Proxy)", func() { wg.Wait() })
	switch wr.Outcome {
	case verifkit.Deadlocked:
		return verifkit.Fail("deadlock:scenario", "the scenario did not finish; a goroutine is parked in a lock inside Proxy code:\n%s", wr.Stack)
	case verifkit.Slow:
		return verifkit.Result{Inconclusive: true, Labels: []string{"inconclusive:slow"}}
	}
	select {
	case p := <-panics:
		return verifkit.Fail("panic:scenario", "%s", p)
	default:
	}

	// quiescent reads: no writer is active any more
	for _, api := range []string{"players", "count", "servers"} {
		r := c12Read{api: api + "-quiescent"}
		r.t0 = w.now()
		switch api {
		case "players":
			for _, p := range w.p.Players() {
				r.names = append(r.names, p.Username())
			}
		case "count":
			r.count = w.p.PlayerCount()
		case "servers":
			for _, s := range w.p.Servers() {
				r.names = append(r.names, s.ServerInfo().Name())
			}
		}
		r.t1 = w.now()
		reads = append(reads, r)
	}
	for s := 0; s < nsrv; s++ {
		r := c12Read{api: "range-quiescent", list: s}
		r.t0 = w.now()
		w.srv[s].Players().Range(func(p Player) bool { r.names = append(r.names, p.Username()); return true })
		r.t1 = w.now()
		reads = append(reads, r)
		r2 := c12Read{api: "len-quiescent", list: s}
		r2.t0 = w.now()
		r2.count = w.srv[s].Players().Len()
		r2.t1 = w.now()
		reads = append(reads, r2)
	}
	// end: every player still online leaves, so nothing of the case stays behind
	for _, cp := range cleanup {
		_ = netmc.CloseUnknown(cp.conn)
	}

	// DisconnectAll "disconnects all current connected players ... and waits until
	// all players have been disconnected": whoever was registered before it
	// started is gone when it returns, and is not definitely registered from its
	// start on.
	finalize := func(es []*c12Ent) {
		for _, e := range es {
			e.defB, e.defE = e.inE, e.outB
		}
	}
	finalize(regEnts)
	finalize(srvEnts)
	for s := range memEnts {
		finalize(memEnts[s])
	}
	for _, e := range regEnts {
		// (1) upper end of the "possibly registered" interval. Closers of e are its
		// owner's leave (outB..outE) and every DisconnectAll that started after e
		// was surely registered (d0 > inE). A closer that finds the close already in
		// progress elsewhere may return early (Player.Disconnect checks Active()
		// first), so e is only known to be gone at the end of the whole cluster of
		// overlapping closer intervals that contains the first definite closer.
		type iv struct {
			a, b int64
			def  bool
		}
		var ivs []iv
		e.dbg = fmt.Sprintf("[raw stamps: join %d..%d ok=%v, leave %d..%d; DisconnectAll windows %v]", e.inB, e.inE, e.ok, e.outB, e.outE, kills)
		if e.outB != c12Inf {
			ivs = append(ivs, iv{e.outB, e.outE, true})
		}
		for _, k := range kills {
			if k.d1 >= e.inB {
				ivs = append(ivs, iv{k.d0, k.d1, k.d0 > e.inE})
			}
		}
		sort.Slice(ivs, func(i, j int) bool { return ivs[i].a < ivs[j].a })
		for i := 0; i < len(ivs); {
			end, def := ivs[i].b, ivs[i].def
			j := i + 1
			for j < len(ivs) && ivs[j].a <= end {
				if ivs[j].b > end {
					end = ivs[j].b
				}
				def = def || ivs[j].def
				j++
			}
			if def {
				e.outE = end
				break
			}
			i = j
		}
		// (2) "definitely registered" is cut at the start of any DisconnectAll that
		// overlaps it.
		for _, k := range kills {
			// a DisconnectAll that overlaps the join call itself (d1 >= inB) may have
			// caught the player between registration and the return of the join
			if k.d1 >= e.inB && k.d0 <= e.defE {
				if k.d0 <= e.defB {
					e.defB, e.defE = 1, 0 // may have been kicked right away: never definitely registered
				} else {
					e.defE = k.d0 - 1
				}
			}
		}
	}

	regBy := map[string]*c12Ent{}
	for _, e := range regEnts {
		regBy[e.name] = e
	}
	srvBy := map[string]*c12Ent{}
	for _, e := range srvEnts {
		srvBy[e.name] = e
	}

	labels := map[string]bool{fmt.Sprintf("procs:%d", procs): true, fmt.Sprintf("kick-existing:%v", c.Kick): true}
	overlap := 0
	// all write stamps, for the non-trivial rule
	var wstamps []int64
	for _, e := range regEnts {
		wstamps = append(wstamps, e.inB, e.outB)
	}
	for s := range memEnts {
		for _, e := range memEnts[s] {
			wstamps = append(wstamps, e.inB, e.outB)
		}
	}
	for _, e := range srvEnts {
		wstamps = append(wstamps, e.inB, e.outB)
	}
	sort.Slice(wstamps, func(i, j int) bool { return wstamps[i] < wstamps[j] })
	overlaps := func(t0, t1 int64) bool {
		i := sort.Search(len(wstamps), func(i int) bool { return wstamps[i] > t0 })
		return i < len(wstamps) && wstamps[i] < t1
	}

	for _, r := range reads {
		if !strings.HasSuffix(r.api, "-quiescent") && overlaps(r.t0, r.t1) {
			overlap++
			labels["overlap:"+r.api] = true
		}
		var v *verifkit.Violation
		switch strings.TrimSuffix(r.api, "-quiescent") {
		case "players":
			v = c12Snapshot(r.api, r, regBy, regEnts)
		case "count":
			v = c12CountBounds(r.api, r, regEnts)
		case "servers":
			v = c12Snapshot(r.api, r, srvBy, srvEnts)
		case "range", "slice":
			v = c12SnapshotMulti(r.api, r, memEnts[r.list])
		case "len":
			v = c12CountBoundsMulti(r.api, r, memEnts[r.list])
		}
		if v != nil {
			return verifkit.Result{V: v}
		}
	}
	if len(kills) > 0 {
		labels["disconnect-all"] = true
	}
	verifkit.AddNote("C12", "listing", "listing_calls_overlapped_by_a_write", int64(overlap))
	verifkit.AddNote("C12", "listing", "listing_calls", int64(len(reads)))
	return verifkit.Result{NonTrivial: overlap > 0, Labels: c12Keys(labels)}
}

// c12SnapshotMulti is c12Snapshot for entities that may have several intervals
// under the same name (a player put on the same server list repeatedly).
func c12SnapshotMulti(api string, r c12Read, all []*c12Ent) *verifkit.Violation {
	byName := map[string][]*c12Ent{}
	for _, e := range all {
		byName[e.name] = append(byName[e.name], e)
	}
	seen := map[string]bool{}
	for _, n := range r.names {
		if seen[n] {
			return verifkit.Violationf("list-duplicate:"+api, "%s returned %q twice (call window %d..%d)", api, n, r.t0, r.t1)
		}
		seen[n] = true
		if len(byName[n]) == 0 {
			return verifkit.Violationf("list-unknown-entry:"+api, "%s returned %q which was never put on that list", api, n)
		}
	}
	// candidate stamps: every integer in [t0,t1] (the clock only moves by the
	// stamps taken, so the range is as small as the number of events in the call)
	for t := r.t0; t <= r.t1; t++ {
		ok := true
		for n := range seen {
			poss := false
			for _, e := range byName[n] {
				if e.inB <= t && t <= e.outE {
					poss = true
					break
				}
			}
			if !poss {
				ok = false
				break
			}
		}
		if !ok {
			continue
		}
		for n, es := range byName {
			if seen[n] {
				continue
			}
			for _, e := range es {
				if e.ok && e.defB <= t && t <= e.defE {
					ok = false
					break
				}
			}
			if !ok {
				break
			}
		}
		if ok {
			return nil
		}
		if r.t1-r.t0 > 200000 {
			return nil // absurdly long call: do not judge
		}
	}
	return verifkit.Violationf("list-mixed-moments:"+api, "%s (call window %d..%d) returned %v, which matches the list's content at no moment of the call", api, r.t0, r.t1, r.names)
}

func c12CountBoundsMulti(api string, r c12Read, all []*c12Ent) *verifkit.Violation {
	byName := map[string][]*c12Ent{}
	for _, e := range all {
		byName[e.name] = append(byName[e.name], e)
	}
	lower, upper := 0, 0
	for _, es := range byName {
		def, poss := false, false
		for _, e := range es {
			if e.ok && e.defB <= r.t0 && e.defE >= r.t1 {
				def = true
			}
			if e.inB <= r.t1 && e.outE >= r.t0 {
				poss = true
			}
		}
		if def {
			lower++
		}
		if poss {
			upper++
		}
	}
	if r.count < lower || r.count > upper {
		return verifkit.Violationf("count-out-of-range:"+api, "%s = %d during %d..%d, but at least %d and at most %d players were on the list at any moment of the call", api, r.count, r.t0, r.t1, lower, upper)
	}
	return nil
}

func c12Keys(m map[string]bool) []string {
	out := make([]string, 0, len(m))
	for k := range m {
		out = append(out, k)
	}
	sort.Strings(out)
	return out
}

// ---------------------------------------------------------------- generator

func c12Gen(t *rapid.T) c12Case {
	c := c12Case{
		Procs:   rapid.SampledFrom([]int{2, 4, 16}).Draw(t, "procs"),
		Stable:  rapid.SampledFrom([]int{0, 1, 2, 4, 8, 16, 32, 48}).Draw(t, "stable"),
		Servers: rapid.IntRange(1, 3).Draw(t, "servers"),
		Kick:    rapid.Bool().Draw(t, "kick"),
	}
	maxOps := 400
	if verifkit.Thorough() {
		maxOps = 2000
	}
	nw := rapid.IntRange(1, 6).Draw(t, "writers")
	for i := 0; i < nw; i++ {
		w := c12Writer{Kind: "players", Ops: rapid.IntRange(200, maxOps).Draw(t, "wops"), Hold: rapid.IntRange(1, 8).Draw(t, "hold")}
		if i > 0 && rapid.IntRange(0, 4).Draw(t, "srvwriter") == 0 {
			w.Kind = "servers"
		}
		w.Pattern = rapid.SliceOfN(rapid.SampledFrom([]int{0, 0, 0, 1, 2, 3, 4}), 2, 12).Draw(t, "pattern")
		c.Writers = append(c.Writers, w)
	}
	nr := rapid.IntRange(1, 6).Draw(t, "readers")
	das := rapid.IntRange(0, 2).Draw(t, "disconnectalls")
	for i := 0; i < nr; i++ {
		r := c12Reader{Ops: rapid.IntRange(200, maxOps).Draw(t, "rops")}
		r.Mix = rapid.SliceOfN(rapid.SampledFrom([]string{"players", "players", "count", "servers", "range", "range", "len", "slice"}), 1, 6).Draw(t, "mix")
		if das > 0 {
			das--
			r.DisconnectAllAt = []int{rapid.IntRange(0, r.Ops-1).Draw(t, "da")}
		}
		c.Readers = append(c.Readers, r)
	}
	return c
}

func TestVerif_C12(t *testing.T) {
	verifkit.Check(t, "C12", "listing",
		"scenario: 0-48 stable players and 1-3 servers, default registration or onlineModeKickExistingPlayers; 1-6 writer goroutines (join via canRegisterConnection/registerConnection, put on / move between / take off server player lists by the backend play session handler's Activated()/Disconnected(), leave via connection close or Player.Disconnect - all through the real teardown path - and Register/Unregister of extra servers) against 1-6 reader goroutines cycling Players, PlayerCount, Servers, Players().Range/Len, PlayersToSlice and up to 2 DisconnectAll calls; 200-400 ops each (2000 thorough), GOMAXPROCS in {2,4,16}, run under the race detector. Oracle: no race report that involves a listing function or the registry writers (registerConnection / unregisterConnection: the memory the listings read), no runtime fatal, and every returned list has no duplicates and equals the registered set at some logical-clock stamp inside the call (counts within the bounds of the call window); listings taken after all writers finished must match exactly. non-trivial = at least one listing call was overlapped by a write (measured with the stamps)",
		c12Gen, c12Run)
}
