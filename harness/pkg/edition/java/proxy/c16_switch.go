//go:build verif

package proxy

// C16: server switches keep exactly one live backend and consistent server
// player lists.
//
// Scenarios are generated op lists run against the real proxy through the C15
// rig (real Proxy.HandleConn, scripted fake client, scripted fake backends):
// sequential requests, requests issued while another attempt is parked at a
// backend stage (dial / login / configuration / before JoinGame), requests
// parked together inside ServerPreConnectEvent subscribers and released in a
// generated order, two requests pushed together through the window between
// checkServer and setInFlightConnection, backend kicks / drops in play, and
// requests whose ServerPreConnectEvent subscriber re-targets them (to another
// registered server, to the server the player is on, while another attempt is
// in flight) or denies them. Predictions are made on the destination the
// subscriber chose, not on the originally requested server.
//
// Oracle (all clauses from the property statement): statuses of requests that
// must not start an attempt (AlreadyConnected / InProgress) and absence of side
// effects (in-flight slot, dials, events); at most one attempt in flight; after
// Success the player is on the destination, the previous backend connection is
// closed and the player is in exactly the destination's player list; after a
// failure before the backend accepted the login the player is still on its
// previous server (same connection); at every quiescent point the only open
// backend connection is the current server's and the player lists agree with
// Player.CurrentServer.

import (
	"context"
	"encoding/json"
	"fmt"
	"os"
	"path/filepath"
	"runtime/debug"
	"sort"
	"strings"
	"testing"
	"time"

	"github.com/go-logr/logr"

	"go.minekube.com/gate/pkg/edition/java/proto/state"
	"go.minekube.com/gate/pkg/internal/verifkit"
	"pgregory.net/rapid"
)

const (
	c16APIConnect    = 0
	c16APIIndication = 1
	// c16CancelGrace: how long a request cancelled during the backend's
	// configuration phase is given to return before the backend moves on; both
	// continuations are judged by the same rules (never a verdict by itself).
	c16CancelGrace = 200 * time.Millisecond
)

type c16Backend struct {
	Health int `json:"health"` // 0 healthy, 1 refuses connections, 2 kicks during login, 3 closes during login
	Thr    int `json:"thr"`
}

type c16Step struct {
	Op        string    `json:"op"` // seq | overlap | prehold | window | redirect | kick | drop
	T1        int       `json:"t1"`
	API1      int       `json:"api1"`
	S1        c15Script `json:"s1"`
	T2        int       `json:"t2"`
	API2      int       `json:"api2"`
	Third     bool      `json:"third"`
	T3        int       `json:"t3"`
	API3      int       `json:"api3"`
	Finish    string    `json:"finish"`     // overlap: release | cancel
	First     int       `json:"first"`      // prehold: which request is released first
	WaitFirst bool      `json:"wait_first"` // prehold: wait for the first to return before releasing the second
	Forced    bool      `json:"forced"`     // window: force both requests through the checkServer window together
	// redirect / prehold: what the ServerPreConnectEvent subscriber of request 1 / 2 does:
	// "" nothing | other: Allow(another registered server) | current: Allow(the server the
	// player is on when the subscriber returns) | deny: Deny()
	RM1 string `json:"rm1,omitempty"`
	RT1 int    `json:"rt1,omitempty"` // other: destination as offset (!= 0) from the current server at step start
	RM2 string `json:"rm2,omitempty"`
	RT2 int    `json:"rt2,omitempty"`
}

type c16Case struct {
	Protocol  int          `json:"protocol"`
	ClientThr int          `json:"client_thr"`
	Backends  []c16Backend `json:"backends"`
	Try       []int        `json:"try"`
	Steps     []c16Step    `json:"steps"`
}

var c16Protocols = []int{340, 763, 763, 764, 767, 767, 774}

func c16HealthScript(b c16Backend) c15Script {
	sc := c15Script{Thr: b.Thr}
	switch b.Health {
	case 1:
		sc.Refuse = true
	case 2:
		sc.FaultAt, sc.Fault = c15StLogin, "kick"
	case 3:
		sc.FaultAt, sc.Fault = c15StLogin, "close"
	}
	return sc
}

// ---------------------------------------------------------------- generator

func c16GenScript(t *rapid.T, cfgPhase bool, needHold bool) c15Script {
	sc := c15Script{Thr: rapid.SampledFrom([]int{-1, -1, 0, 256}).Draw(t, "thr")}
	stages := []string{c15StLogin, c15StPreJoin}
	if cfgPhase {
		stages = []string{c15StLogin, c15StConfig, c15StPreJoin}
	}
	if needHold {
		sc.HoldAt = rapid.SampledFrom(append([]string{c15StDial}, stages...)).Draw(t, "hold_at")
	}
	switch rapid.IntRange(0, 9).Draw(t, "outcome") {
	case 0:
		sc.Refuse = true
	case 1, 2, 3:
		// (biased to a kick after the backend accepted the login and before JoinGame:
		// the one failure whose recoverability depends on the connection type)
		sc.FaultAt = rapid.SampledFrom(append(append([]string(nil), stages...), c15StPreJoin)).Draw(t, "fault_at")
		sc.Fault = rapid.SampledFrom([]string{"kick", "kick", "close"}).Draw(t, "fault")
	}
	if sc.HoldAt != "" && sc.FaultAt != "" {
		// a fault can only follow the hold
		order := map[string]int{c15StDial: 0, c15StLogin: 1, c15StConfig: 2, c15StPreJoin: 3}
		if order[sc.FaultAt] < order[sc.HoldAt] {
			sc.FaultAt = sc.HoldAt
		}
	}
	if sc.HoldAt == c15StDial && sc.Refuse {
		sc.Refuse = false
		sc.FaultAt, sc.Fault = c15StDial, "close"
	}
	return sc
}

func c16Gen(t *rapid.T) c16Case {
	c := c16Case{
		Protocol:  rapid.SampledFrom(c16Protocols).Draw(t, "protocol"),
		ClientThr: rapid.SampledFrom([]int{-1, 256}).Draw(t, "client_thr"),
	}
	cfgPhase := c.Protocol >= 764
	nb := rapid.IntRange(2, 4).Draw(t, "backends")
	for i := 0; i < nb; i++ {
		h := 0
		if i > 0 && rapid.IntRange(0, 4).Draw(t, "unhealthy") == 0 {
			h = rapid.IntRange(1, 3).Draw(t, "health")
		}
		c.Backends = append(c.Backends, c16Backend{Health: h, Thr: rapid.SampledFrom([]int{-1, 0, 256}).Draw(t, "bthr")})
	}
	// try list: a permutation prefix; the first healthy backend is reachable
	perm := rapid.Permutation(c16Range(nb)).Draw(t, "try")
	c.Try = perm[:rapid.IntRange(1, nb).Draw(t, "try_n")]
	hasHealthy := false
	for _, i := range c.Try {
		if c.Backends[i].Health == 0 {
			hasHealthy = true
		}
	}
	if !hasHealthy {
		c.Try = append(c.Try[:len(c.Try):len(c.Try)], 0)
		for i, v := range c.Try[:len(c.Try)-1] {
			if v == 0 {
				c.Try = append(c.Try[:i:i], c.Try[i+1:]...)
				break
			}
		}
	}
	ns := rapid.IntRange(2, 7).Draw(t, "steps")
	for i := 0; i < ns; i++ {
		// targets are offsets from the player's current server at execution time (0 = the current server)
		st := c16Step{
			T1: rapid.IntRange(1, nb-1).Draw(t, "t1"), API1: rapid.IntRange(0, 1).Draw(t, "api1"),
			T2: rapid.IntRange(0, nb-1).Draw(t, "t2"), API2: rapid.SampledFrom([]int{0, 1, 1, 1, 1, 1, 1, 1}).Draw(t, "api2"),
			T3: rapid.IntRange(0, nb-1).Draw(t, "t3"), API3: rapid.SampledFrom([]int{0, 1, 1, 1, 1, 1, 1, 1}).Draw(t, "api3"),
		}
		if rapid.IntRange(0, 9).Draw(t, "to_current") == 0 {
			st.T1 = 0
		}
		genRT := func(label string, avoid int) int {
			rt := rapid.IntRange(1, nb-1).Draw(t, label)
			if rt == avoid && nb > 2 { // prefer a destination that differs from the requested server
				rt = rt%(nb-1) + 1
			}
			return rt
		}
		switch rk := rapid.SampledFrom([]string{"redirect", "", "prehold-redirect", "", "cancel-in-config", ""}).Draw(t, "redirect_op"); rk {
		case "redirect":
			// one request whose PreConnect subscriber re-targets or denies it
			st.Op = "redirect"
			st.S1 = c16GenScript(t, cfgPhase, false)
			st.RM1 = rapid.SampledFrom([]string{"current", "other", "deny", "other", "current"}).Draw(t, "rm1")
			st.RT1 = genRT("rt1", st.T1)
			c.Steps = append(c.Steps, st)
			continue
		case "cancel-in-config":
			if cfgPhase {
				// the caller gives up while the backend sits in the configuration phase; another request follows
				st.Op = "overlap"
				st.S1 = c15Script{Thr: rapid.SampledFrom([]int{-1, -1, 0, 256}).Draw(t, "thr"), HoldAt: c15StConfig}
				st.Third = rapid.IntRange(0, 2).Draw(t, "third") == 0
				st.Finish = "cancel"
				c.Steps = append(c.Steps, st)
				continue
			}
		case "prehold-redirect":
			// two requests parked in their subscribers; at least the one released last is re-targeted / denied
			st.Op = "prehold"
			st.S1 = c15Script{Thr: -1}
			st.T2 = rapid.IntRange(1, nb-1).Draw(t, "t2_other")
			st.First = rapid.IntRange(0, 1).Draw(t, "first")
			st.WaitFirst = rapid.IntRange(0, 2).Draw(t, "wait_first") == 2
			firstModes := []string{"", "other"} // released first without waiting: it has to reach its backend
			if st.WaitFirst {
				firstModes = []string{"", "current", "other", "deny"}
			}
			rm := [2]string{}
			rm[st.First] = rapid.SampledFrom(firstModes).Draw(t, "rm_first")
			rm[1-st.First] = rapid.SampledFrom([]string{"current", "other", "deny"}).Draw(t, "rm_second")
			st.RM1, st.RM2 = rm[0], rm[1]
			st.RT1, st.RT2 = genRT("rt1", st.T1), genRT("rt2", st.T2)
			c.Steps = append(c.Steps, st)
			continue
		}
		switch k := rapid.IntRange(0, 99).Draw(t, "op"); {
		case k < 25:
			st.Op = "seq"
			st.S1 = c16GenScript(t, cfgPhase, false)
		case k < 55:
			st.Op = "overlap"
			st.S1 = c16GenScript(t, cfgPhase, true)
			st.Third = rapid.IntRange(0, 2).Draw(t, "third") == 0
			st.Finish = rapid.SampledFrom([]string{"release", "release", "cancel"}).Draw(t, "finish")
			if cfgPhase && rapid.IntRange(0, 3).Draw(t, "cancel_in_config") == 0 {
				// the caller gives up while the backend sits in the configuration phase
				st.S1 = c15Script{Thr: st.S1.Thr, HoldAt: c15StConfig}
				st.Finish = "cancel"
			}
		case k < 77:
			st.Op = "prehold"
			st.S1 = c15Script{Thr: -1}
			st.First = rapid.IntRange(0, 1).Draw(t, "first")
			st.WaitFirst = rapid.Bool().Draw(t, "wait_first")
		case k < 85:
			st.Op = "window"
			st.S1 = c15Script{Thr: -1}
			st.Forced = rapid.IntRange(0, 2).Draw(t, "forced") == 0
		case k < 93:
			st.Op = "kick"
		default:
			st.Op = "drop"
		}
		c.Steps = append(c.Steps, st)
	}
	return c
}

func c16Range(n int) []int {
	out := make([]int, n)
	for i := range out {
		out[i] = i
	}
	return out
}

// ---------------------------------------------------------------- executor

type c16Req struct {
	id       string
	target   string // the requested server
	dest     string // the server the attempt must go to: target unless a PreConnect subscriber re-targeted the request
	redir    string // what the PreConnect subscriber did: "" | other | current | deny
	api      int
	cancel   context.CancelFunc
	script   *c15Script
	returned bool // guarded by rig.mu
	status   string
	errText  string
	panicked string
}

type c16Snap struct {
	inFlight *serverConnection
	cur      *serverConnection
	dials    int
	events   int
	alive    bool // the client was still connected to the proxy
}

type c16Exec struct {
	rig    *c15Rig
	c      c16Case
	names  []string
	player *connectedPlayer
	reqN   int
	labels map[string]bool
	nt     bool
	// pre-connect barrier (guarded by rig.mu)
	preArmed   bool
	preArrived int
	preRelease map[int]chan struct{}
	preAct     map[int]c16PreAct
	winArmed   bool
	winArrived int
	winNeed    int
	winCh      chan struct{}
	curModel   string // expected current server; "?" when the model does not know
	needServer string // set when the proxy's own recovery ran: an alive player must be on some server
}

// c16PreAct is what a parked ServerPreConnectEvent subscriber does once released.
type c16PreAct struct {
	deny  bool
	allow RegisteredServer // nil: leave the event as is
}

type c16Sink struct{ hook func(name string) }

func (s *c16Sink) Init(logr.RuntimeInfo)             {}
func (s *c16Sink) Enabled(int) bool                  { return false }
func (s *c16Sink) Info(int, string, ...any)          {}
func (s *c16Sink) Error(error, string, ...any)       {}
func (s *c16Sink) WithValues(...any) logr.LogSink    { return s }
func (s *c16Sink) WithName(name string) logr.LogSink { s.hook(name); return s }

func (x *c16Exec) label(l string) { x.labels[l] = true }

func (x *c16Exec) snapshot() c16Snap {
	inFlight, cur := x.player.connectionInFlight(), x.player.connectedServer()
	alive := x.alive()
	x.rig.mu.Lock()
	defer x.rig.mu.Unlock()
	n := 0
	for _, e := range x.rig.events {
		if e.Kind != "preconnect" && e.Kind != "redirect" {
			n++
		}
	}
	return c16Snap{inFlight: inFlight, cur: cur, dials: len(x.rig.dials), events: n, alive: alive}
}

func (x *c16Exec) issue(t, api int, sc *c15Script) *c16Req {
	return x.issueVia(t, api, sc, x.names[t])
}

// issueVia issues a request to server t; the one-shot script sc is given to
// backend scriptAt (the server the attempt is expected to dial).
func (x *c16Exec) issueVia(t, api int, sc *c15Script, scriptAt string) *c16Req {
	r := x.rig
	name := x.names[t]
	srv := r.proxy.Server(name)
	q := &c16Req{id: fmt.Sprintf("r%d", x.reqN), target: name, dest: name, api: api, script: sc}
	x.reqN++
	ctx, cancel := context.WithCancel(context.WithValue(context.Background(), c15ReqKey{}, q.id))
	q.cancel = cancel
	if sc != nil {
		r.mu.Lock()
		r.backends[scriptAt].overrides = append(r.backends[scriptAt].overrides, sc)
		r.mu.Unlock()
	}
	r.wg.Add(1)
	go func() {
		defer r.wg.Done()
		defer cancel() // like a real caller; also ends the proxy's per-attempt context watchers
		defer func() {
			if p := recover(); p != nil {
				q.panicked = fmt.Sprintf("%v\n%s", p, debug.Stack())
			}
			r.mu.Lock()
			q.returned = true
			if b := r.backends[scriptAt]; sc != nil {
				for i, o := range b.overrides {
					if o == sc { // never dialed: drop its one-shot script
						b.overrides = append(b.overrides[:i:i], b.overrides[i+1:]...)
						break
					}
				}
			}
			r.cond.Broadcast()
			r.mu.Unlock()
		}()
		req := x.player.CreateConnectionRequest(srv)
		if api == c16APIConnect {
			res, err := req.Connect(ctx)
			switch {
			case err != nil:
				q.status, q.errText = "error", err.Error()
			case res == nil:
				q.status = "nil-result"
			default:
				q.status = map[ConnectionStatus]string{SuccessConnectionStatus: "success", AlreadyConnectedConnectionStatus: "already",
					InProgressConnectionStatus: "inprogress", CanceledConnectionStatus: "canceled", ServerDisconnectedConnectionStatus: "disconnected"}[res.Status()]
			}
		} else {
			if req.ConnectWithIndication(ctx) {
				q.status = "success"
			} else {
				q.status = "notok"
			}
		}
	}()
	return q
}

func (x *c16Exec) heldLocked(q *c16Req) bool {
	for _, d := range x.rig.dials {
		if d.ReqID != q.id {
			continue
		}
		if x.rig.dialHolding[d.Seq] {
			return true
		}
		if d.Sess != nil && d.Sess.holding != "" {
			return true
		}
	}
	return false
}

func (x *c16Exec) dialedLocked(q *c16Req) bool {
	for _, d := range x.rig.dials {
		if d.ReqID == q.id {
			return true
		}
	}
	return false
}

// release lets the held attempt of q continue.
func (x *c16Exec) release(q *c16Req) {
	r := x.rig
	r.mu.Lock()
	for _, d := range r.dials {
		if d.ReqID != q.id {
			continue
		}
		b := r.backends[d.Backend]
		if ch, ok := b.dialHold[d.Idx]; ok {
			select {
			case <-ch:
			default:
				close(ch)
			}
		}
		if d.Sess != nil {
			for _, st := range []string{c15StLogin, c15StConfig, c15StPreJoin, c15StPlay} {
				d.Sess.released[st] = true
			}
		}
	}
	r.cond.Broadcast()
	r.mu.Unlock()
}

type c16Stop struct {
	res verifkit.Result
}

func (x *c16Exec) fail(key, format string, a ...any) {
	panic(c16Stop{verifkit.Fail(key, format, a...)})
}

// checkDoubleRecovery: a KickedFromServerEvent for server X reports the failure of
// one attempt to X (or of the established connection to X). A second one for X
// needs a new attempt to X, which fires ServerPreConnectEvent for X first (or for
// another server, whose subscriber re-targets the request to X); two kicked
// events for X without that in between mean two goroutines ran the recovery
// for a single failure.
func (x *c16Exec) checkDoubleRecovery() {
	x.rig.mu.Lock()
	ev := append([]c15Event(nil), x.rig.events...)
	x.rig.mu.Unlock()
	kickedSince := map[string]bool{}
	for _, e := range ev {
		switch e.Kind {
		case "preconnect", "redirect":
			delete(kickedSince, e.Server)
		case "kicked":
			if kickedSince[e.Server] {
				x.fail("recovery:ran-twice-concurrently", "the proxy ran its recovery twice for one failure of %s (two KickedFromServerEvents without a new attempt to it in between; the second recovery's request interferes with the first one's attempt); %s", e.Server, x.describe())
			}
			kickedSince[e.Server] = true
		}
	}
}

func (x *c16Exec) inconclusive(why string) {
	x.checkDoubleRecovery()
	// keep the scenario and the observed state for diagnosis (never a verdict)
	if b, err := json.Marshal(map[string]any{"why": why, "case": x.c, "state": x.describe(), "stacks": c15Stacks("go.minekube.com/gate/pkg/edition/java", nil)}); err == nil {
		_ = os.WriteFile(filepath.Join(verifkit.WorkDir(), fmt.Sprintf("inconclusive-C16-%d-%d.json", os.Getpid(), x.reqN)), b, 0o644)
	}
	panic(c16Stop{verifkit.Result{Inconclusive: true, Labels: []string{why}}})
}

func (x *c16Exec) waitReq(q *c16Req, orHeld bool) {
	ok := x.rig.wait(c15Watchdog, func() bool {
		return q.returned || (orHeld && x.heldLocked(q)) || len(x.rig.harnessErrs) > 0
	})
	if !ok {
		x.inconclusive("request-watchdog")
	}
	if q.panicked != "" {
		x.fail("panic:connect", "connection request panicked: %s", q.panicked)
	}
}

func (x *c16Exec) isReturned(q *c16Req) bool {
	x.rig.mu.Lock()
	defer x.rig.mu.Unlock()
	return q.returned
}

func (x *c16Exec) alive() bool {
	x.rig.mu.Lock()
	defer x.rig.mu.Unlock()
	return !x.rig.handleDone && !x.rig.client.rdDone && !x.rig.client.kicked
}

func (x *c16Exec) curName() string {
	if cs := x.player.CurrentServer(); cs != nil {
		return cs.Server().ServerInfo().Name()
	}
	return ""
}

func (x *c16Exec) inList(name string) bool {
	found := false
	x.rig.proxy.Server(name).Players().Range(func(p Player) bool {
		if p.ID() == x.player.ID() {
			found = true
			return false
		}
		return true
	})
	return found
}

func (x *c16Exec) describe() string {
	r := x.rig
	r.mu.Lock()
	defer r.mu.Unlock()
	var sb strings.Builder
	for _, d := range r.dials {
		if d.Sess == nil {
			fmt.Fprintf(&sb, "[dial#%d %s req=%q no-conn] ", d.Seq, d.Backend, d.ReqID)
			continue
		}
		s := d.Sess
		fmt.Fprintf(&sb, "[dial#%d %s req=%q phase=%d holding=%q proxyClosed=%v eof=%v] ", d.Seq, d.Backend, d.ReqID, s.phase, s.holding, s.peer.closed, s.rdDone)
	}
	var ev []string
	for _, e := range r.events {
		ev = append(ev, e.Kind+":"+e.Server)
	}
	for _, d := range r.dials {
		if s := d.Sess; s != nil && s.openLocked() {
			fmt.Fprintf(&sb, "{%s preRx:", s.name)
			for _, rx := range s.preRx {
				fmt.Fprintf(&sb, " %#x/%d", rx.ID, len(rx.Payload))
			}
			fmt.Fprintf(&sb, " sent=%d proxyRead=%d proxyWrote=%d got=%d} ", s.sent, s.peer.delivered, s.peer.written, s.got)
		}
	}
	cl := r.client
	fmt.Fprintf(&sb, "client{last play rx:")
	for i := len(cl.play) - 8; i < len(cl.play); i++ {
		if i >= 0 {
			fmt.Fprintf(&sb, " %#x/%d", cl.play[i].ID, len(cl.play[i].Payload))
		}
	}
	fmt.Fprintf(&sb, " | cfg rx:")
	for i := len(cl.cfgRx) - 8; i < len(cl.cfgRx); i++ {
		if i >= 0 {
			fmt.Fprintf(&sb, " %#x/%d", cl.cfgRx[i].ID, len(cl.cfgRx[i].Payload))
		}
	}
	fmt.Fprintf(&sb, " st=%d sent=%d proxyRead=%d proxyWrote=%d got=%d} ", cl.st, cl.sent, cl.peer.delivered, cl.peer.written, cl.got)
	fmt.Fprintf(&sb, "client[kicked=%v %q closed=%v joins=%d startUpdates=%d cfgFinished=%d handleDone=%v] ", cl.kicked, c15Printable(cl.kickPayload), cl.rdDone, cl.joins, cl.startUpdates, cl.cfgFinished, r.handleDone)
	return sb.String() + "events=" + strings.Join(ev, ",")
}

// settle waits until the transport is quiescent (the proxy's read loops are
// back in Read and every pipe is drained), so that snapshots are taken and
// further requests are issued at a stable point of the pending attempt.
func (x *c16Exec) settle() {
	r := x.rig
	if !r.wait(c15Watchdog, func() bool { return r.quietLocked() || len(r.harnessErrs) > 0 }) {
		x.inconclusive("settle-watchdog")
	}
}

// checkNoSideEffects: a request that must not start an attempt left the
// in-flight slot, the current server, the dial count and the event log alone.
func (x *c16Exec) checkNoSideEffects(site string, before c16Snap, q *c16Req, allowPreConnect bool) {
	after := x.snapshot()
	if after.inFlight != before.inFlight {
		x.fail("inflight-slot:changed-by-"+site+"-request", "request %s to %s (api %d) returned %q but changed the player's in-flight connection slot (%p -> %p) while another attempt was pending; %s",
			q.id, q.target, q.api, q.status, before.inFlight, after.inFlight, x.describe())
	}
	if after.cur != before.cur {
		x.fail("side-effect:current-server:"+site, "request %s returned %q but changed the current server; %s", q.id, q.status, x.describe())
	}
	if after.dials != before.dials {
		x.fail("side-effect:dial:"+site, "request %s returned %q but a backend was dialed; %s", q.id, q.status, x.describe())
	}
	if after.events != before.events {
		x.fail("side-effect:event:"+site, "request %s returned %q but events beyond ServerPreConnect were fired; %s", q.id, q.status, x.describe())
	}
}

func (x *c16Exec) expectNoop(site string, q *c16Req, want ...string) {
	ok := false
	for _, w := range want {
		ok = ok || q.status == w
	}
	if q.api == c16APIIndication {
		ok = q.status == "notok"
	}
	if !ok {
		x.fail("status:"+site, "request %s to %s%s (api %d): got %q, want %q; %s", q.id, q.target, q.via(), q.api, q.status, want, x.describe())
	}
}

func (q *c16Req) via() string {
	switch q.redir {
	case "":
		return ""
	case "deny":
		return " (denied by its ServerPreConnectEvent subscriber)"
	}
	return fmt.Sprintf(" (re-targeted to %s by its ServerPreConnectEvent subscriber)", q.dest)
}

// quiescent waits for the transport to settle and checks the structural
// invariants that must hold whenever no request is pending.
func (x *c16Exec) quiescent(site string) {
	r := x.rig
	if !r.wait(c15Watchdog, func() bool { return r.quietLocked() || len(r.harnessErrs) > 0 }) {
		x.inconclusive("quiescence-watchdog")
	}
	r.mu.Lock()
	herr := append([]string(nil), r.harnessErrs...)
	r.mu.Unlock()
	if len(herr) > 0 {
		x.fail("harness:error", "%v", herr)
	}
	x.checkDoubleRecovery()
	alive := x.alive()
	cur := ""
	if alive {
		cur = x.curName()
	}
	// Every backend connection except the current server's must get closed by
	// the proxy; closing an abandoned attempt may trail the request's return.
	okClosed := r.wait(c15Watchdog, func() bool {
		for _, s := range r.sessionsLocked() {
			if s.openLocked() && !(alive && s.b.name == cur && s.joinSent) {
				return false
			}
		}
		return true
	})
	if !okClosed {
		x.fail("backend-conn:left-open", "%s: a backend connection other than the current server's (%q) stays open; %s", site, cur, x.describe())
	}
	r.mu.Lock()
	open := 0
	for _, s := range r.sessionsLocked() {
		if s.openLocked() {
			open++
		}
	}
	r.mu.Unlock()
	if alive && cur != "" && open != 1 {
		x.fail("backend-conn:count", "%s: player is on %q but %d backend connections are open; %s", site, cur, open, x.describe())
	}
	if alive {
		if inf := x.player.connectionInFlight(); inf != nil {
			x.fail("inflight-slot:stale", "%s: no request is pending but the in-flight slot still holds a connection to %s; %s", site, inf.server.info.Name(), x.describe())
		}
	}
	for _, n := range x.names {
		in := x.inList(n)
		want := alive && n == cur
		if in != want {
			x.fail("player-list:mismatch", "%s: player on %q (alive=%v): Players() of %q contains player = %v, want %v; %s", site, cur, alive, n, in, want, x.describe())
		}
	}
	if alive && x.needServer != "" && cur == "" {
		x.fail("recovery:left-without-server", "%s: after %s the player is still connected to the proxy but on no server (neither previous server nor fallback, nor disconnected); %s", site, x.needServer, x.describe())
	}
	x.needServer = ""
	if alive && x.curModel != "?" && cur != x.curModel {
		x.fail("current-server:unexpected", "%s: player is on %q, expected %q; %s", site, cur, x.curModel, x.describe())
	}
	if !alive {
		x.curModel = ""
	} else if x.curModel == "?" {
		x.curModel = cur
	}
}

// predict classifies what a request with script sc to target must do.
func (x *c16Exec) predict(target string, sc c15Script, canceledAt string) string {
	if target == x.curModel {
		return "already"
	}
	post := func(stage string) bool {
		// after the backend accepted the login: on configuration-phase versions the
		// proxy has already left the previous server at that point
		return x.rig.cfgPhase && (stage == c15StConfig || stage == c15StPreJoin)
	}
	if canceledAt != "" {
		if post(canceledAt) {
			return "fail-post"
		}
		return "fail-pre"
	}
	if sc.Refuse || sc.FaultAt == c15StDial {
		return "fail-pre"
	}
	if sc.FaultAt != "" {
		if post(sc.FaultAt) {
			return "fail-post"
		}
		return "fail-pre"
	}
	return "success"
}

// checkAttemptClosed: once a request has returned unsuccessfully, the backend
// connection(s) of its own attempt get closed by the proxy, whatever stage the
// backend is in and independently of any later request (closing may trail the
// request's return; counted at the fake backends).
func (x *c16Exec) checkAttemptClosed(q *c16Req) {
	if q.status == "success" {
		return // judged as a wrong status by the caller
	}
	r := x.rig
	var open *c15Session
	ok := r.wait(c15Watchdog, func() bool {
		open = nil
		for _, d := range r.dials {
			if d.ReqID == q.id && d.Sess != nil && d.Sess.openLocked() {
				open = d.Sess
			}
		}
		return open == nil
	})
	if !ok {
		x.fail("failure:attempt-connection-left-open", "request %s to %s%s returned unsuccessfully (%s %s) but the backend connection %s of its attempt stays open (backend phase %d, parked at %q): the abandoned attempt stays live next to whatever the player does next; %s",
			q.id, q.target, q.via(), q.status, q.errText, open.name, open.phase, open.holding, x.describe())
	}
}

// judge checks the result of a request that was allowed to start an attempt.
func (x *c16Exec) judge(site string, q *c16Req, pred string, before c16Snap) {
	switch pred {
	case "already":
		x.expectNoop(site+":already", q, "already")
		x.checkNoSideEffects("already-connected", before, q, false)
	case "canceled":
		x.expectNoop(site+":canceled", q, "canceled")
		x.checkNoSideEffects("canceled", before, q, false)
	case "success":
		if q.status != "success" {
			x.fail("status:"+site, "request %s to healthy %s%s: got %q (%s), want success; %s", q.id, q.target, q.via(), q.status, q.errText, x.describe())
		}
		// immediately on return: destination is current, previous connection closed, lists exact
		if cur := x.curName(); cur != q.dest {
			x.fail("success:not-on-destination", "request %s to %s%s succeeded but the player is on %q; %s", q.id, q.target, q.via(), cur, x.describe())
		}
		if before.cur != nil {
			if mc := before.cur.conn(); mc != nil {
				x.fail("success:previous-not-closed", "request %s succeeded but the previous server connection (%s) is still attached; %s", q.id, before.cur.server.info.Name(), x.describe())
			}
			x.rig.mu.Lock()
			stillOpen := ""
			for _, s := range x.rig.sessionsLocked() {
				if s.b.name == before.cur.server.info.Name() && s.joinSent && !s.peer.closed && s.b.name != q.dest {
					stillOpen = s.name
				}
			}
			x.rig.mu.Unlock()
			if stillOpen != "" {
				x.fail("success:previous-not-closed", "request %s succeeded but the proxy has not closed its connection %s to the previous server; %s", q.id, stillOpen, x.describe())
			}
		}
		for _, n := range x.names {
			if in, want := x.inList(n), n == q.dest; in != want {
				x.fail("success:player-list", "after a successful switch to %s: Players() of %q contains player = %v; %s", q.dest, n, in, x.describe())
			}
		}
		x.curModel = q.dest
	case "fail-pre":
		x.checkAttemptClosed(q)
		if q.status == "success" || q.status == "already" || q.status == "inprogress" {
			x.fail("status:"+site, "request %s to failing %s%s: got %q; %s", q.id, q.target, q.via(), q.status, x.describe())
		}
		if before.cur != nil {
			// safe failure before the previous server was left: the player is still
			// connected to the proxy ...
			if before.alive && !x.alive() {
				x.fail("failure:player-disconnected", "request %s to %s%s failed (%s %s) before the backend accepted the login while the player was on %s: safe to recover from, but the proxy disconnected the player; %s",
					q.id, q.target, q.via(), q.status, q.errText, before.cur.server.info.Name(), x.describe())
			}
			// ... and still there, same connection
			if now := x.player.connectedServer(); now != before.cur {
				// (a player the proxy disconnected because of this failure has lost its
				// previous server just the same: the failure was safe to recover from)
				if q.api == c16APIConnect || x.alive() || before.alive {
					x.fail("failure:previous-server-lost", "request %s to %s%s failed (%s %s) before the backend accepted the login, but the player is no longer on its previous server %s; %s",
						q.id, q.target, q.via(), q.status, q.errText, before.cur.server.info.Name(), x.describe())
				}
			}
		} else {
			x.curModel = "?"
		}
	case "fail-post":
		x.checkAttemptClosed(q)
		if q.status == "success" || q.status == "already" || q.status == "inprogress" {
			x.fail("status:"+site, "request %s to failing %s%s: got %q; %s", q.id, q.target, q.via(), q.status, x.describe())
		}
		x.label("failure-after-previous-server-left")
		if q.api == c16APIConnect {
			x.curModel = "" // the caller is responsible; the proxy leaves the player without a server
			if !x.alive() {
				x.curModel = "?"
			}
		} else {
			x.curModel = "?" // next fallback or disconnect (choice of fallback: C17)
			x.needServer = "a failed ConnectWithIndication (" + q.status + " " + q.errText + ")"
		}
	}
}

func (x *c16Exec) stepSeq(st c16Step) {
	before := x.snapshot()
	pred := x.predict(x.names[st.T1], st.S1, "")
	sc := st.S1
	sc.HoldAt = ""
	q := x.issue(st.T1, st.API1, &sc)
	x.waitReq(q, false)
	if sc.FaultAt != "" && sc.FaultAt != c15StDial && pred != "already" {
		x.nt = true
		x.label("fault-" + sc.FaultAt + "-" + sc.Fault)
	}
	x.label("seq-" + pred)
	x.judge("seq", q, pred, before)
}

func (x *c16Exec) stepOverlap(st c16Step) {
	before := x.snapshot()
	sc := st.S1
	q1 := x.issue(st.T1, st.API1, &sc)
	x.waitReq(q1, true)
	if x.isReturned(q1) {
		// no attempt was started (target is the current server)
		x.judge("overlap-first", q1, x.predict(x.names[st.T1], sc, ""), before)
		return
	}
	// q1 is parked with an attempt in flight.
	x.nt = true
	x.label("overlap-hold-" + sc.HoldAt)
	x.settle()
	mid := x.snapshot()
	if mid.inFlight == nil {
		x.fail("inflight-slot:empty-during-attempt", "request %s is parked at %s of %s but the in-flight slot is empty; %s", q1.id, sc.HoldAt, q1.target, x.describe())
	}
	second := []struct{ t, api int }{{st.T2, st.API2}}
	if st.Third {
		second = append(second, struct{ t, api int }{st.T3, st.API3})
	}
	for _, s := range second {
		q := x.issue(s.t, s.api, nil)
		x.waitReq(q, true)
		if !x.isReturned(q) || x.dialedLocked2(q) {
			x.fail("inflight:second-attempt-started", "request %s to %s started a second connection attempt while %s to %s is still in flight (parked at %s); %s",
				q.id, q.target, q1.id, q1.target, sc.HoldAt, x.describe())
		}
		x.expectNoop("overlap-second", q, "inprogress")
		x.checkNoSideEffects("in-progress", mid, q, false)
	}
	canceledAt := ""
	switch {
	case st.Finish == "cancel" && sc.HoldAt == c15StConfig:
		// The caller's context ends while the backend sits in the configuration
		// phase. Whether the request ends right away is the proxy's choice (only
		// its login and transition stages watch the context): the grace period
		// selects the branch, it decides no verdict. If the request returns, the
		// backend stays as it is (parked in configuration) and the abandoned
		// attempt's connection has to be closed by the proxy; if not, the backend
		// drops the connection and the request fails then.
		x.label("cancel-at-config")
		q1.cancel()
		if x.rig.wait(c16CancelGrace, func() bool { return q1.returned }) {
			x.label("cancel-at-config-request-returned")
			canceledAt = sc.HoldAt
		} else {
			x.label("cancel-at-config-request-pending")
			x.rig.mu.Lock()
			for _, d := range x.rig.dials {
				if d.ReqID == q1.id && d.Sess != nil {
					d.Sess.script.FaultAt, d.Sess.script.Fault = c15StConfig, "close"
				}
			}
			x.rig.mu.Unlock()
			sc.FaultAt, sc.Fault = c15StConfig, "close"
			x.release(q1)
		}
	case st.Finish == "cancel":
		canceledAt = sc.HoldAt
		x.label("cancel-at-" + sc.HoldAt)
		q1.cancel()
	default:
		x.release(q1)
	}
	x.waitReq(q1, false)
	// After a cancellation the backend stays silent (as before it): the proxy
	// reports the failure first and closes the abandoned connection afterwards,
	// so a backend answer in between would race with that close.
	x.judge("overlap-first", q1, x.predict(x.names[st.T1], sc, canceledAt), before)
}

func (x *c16Exec) dialedLocked2(q *c16Req) bool {
	x.rig.mu.Lock()
	defer x.rig.mu.Unlock()
	return x.dialedLocked(q)
}

// armPre arms the ServerPreConnectEvent barrier for the next n arrivals.
func (x *c16Exec) armPre(n int) {
	x.rig.mu.Lock()
	x.preArmed = true
	x.preArrived = 0
	x.preRelease = map[int]chan struct{}{}
	x.preAct = map[int]c16PreAct{}
	for i := 0; i < n; i++ {
		x.preRelease[i] = make(chan struct{})
	}
	x.rig.mu.Unlock()
}

func (x *c16Exec) disarmPre() {
	x.rig.mu.Lock()
	x.preArmed = false
	for _, ch := range x.preRelease {
		select {
		case <-ch:
		default:
			close(ch)
		}
	}
	x.rig.mu.Unlock()
}

func (x *c16Exec) releasePre(i int) { x.releasePreWith(i, c16PreAct{}) }

// releasePreWith lets the subscriber parked as arrival i return after it has
// applied act to its event.
func (x *c16Exec) releasePreWith(i int, act c16PreAct) {
	x.rig.mu.Lock()
	x.preAct[i] = act
	if ch, ok := x.preRelease[i]; ok {
		select {
		case <-ch:
		default:
			close(ch)
		}
	}
	x.rig.mu.Unlock()
}

func (x *c16Exec) onPreConnect(e *ServerPreConnectEvent) {
	r := x.rig
	r.mu.Lock()
	if !x.preArmed {
		r.mu.Unlock()
		return
	}
	idx := x.preArrived
	x.preArrived++
	ch := x.preRelease[idx]
	r.cond.Broadcast()
	r.mu.Unlock()
	if ch != nil {
		select {
		case <-ch:
		case <-r.closingCh:
			return
		}
		r.mu.Lock()
		act := x.preAct[idx]
		r.mu.Unlock()
		switch {
		case act.deny:
			e.Deny()
		case act.allow != nil:
			e.Allow(act.allow)
			// harness note in the event log (not a proxy event): the attempt goes to this server
			r.logEvent(c15Event{Kind: "redirect", Server: c15ServerName(act.allow), Previous: c15ServerName(e.PreviousServer())})
		}
	}
}

// redirDest: the destination of mode "other" (rt is an offset != 0 from the
// server the model has the player on; fixed when the request is issued).
func (x *c16Exec) redirDest(rt int) string {
	base, nb := 0, len(x.names)
	for j, n := range x.names {
		if n == x.curModel {
			base = j
		}
	}
	rt %= nb
	if rt == 0 {
		rt = 1
	}
	return x.names[(base+rt)%nb]
}

// scriptAt: the backend the attempt of a request to orig with subscriber mode
// (destination other) is expected to dial, if it dials at all.
func (x *c16Exec) scriptAt(orig, mode, other string) string {
	if mode == "other" {
		return other
	}
	return orig
}

// redirect decides, at the moment the parked subscriber of q is released, what
// it does with its event, and records the resulting destination in q.
func (x *c16Exec) redirect(q *c16Req, mode, other string) c16PreAct {
	switch mode {
	case "deny":
		q.redir, q.dest = "deny", ""
		return c16PreAct{deny: true}
	case "other":
		q.redir, q.dest = "other", other
		return c16PreAct{allow: x.rig.proxy.Server(other)}
	case "current":
		// the server the player is on now; the model must know it
		if x.curModel != "" && x.curModel != "?" {
			q.redir, q.dest = "current", x.curModel
			return c16PreAct{allow: x.rig.proxy.Server(x.curModel)}
		}
	}
	return c16PreAct{}
}

// predictReq: prediction for a released request, made on its destination.
func (x *c16Exec) predictReq(q *c16Req, sc c15Script) string {
	if q.redir == "deny" {
		return "canceled"
	}
	return x.predict(q.dest, sc, "")
}

func (x *c16Exec) onLogName(name string) {
	if name != "serverConn" {
		return
	}
	r := x.rig
	r.mu.Lock()
	if !x.winArmed {
		r.mu.Unlock()
		return
	}
	x.winArrived++
	ch := x.winCh
	if x.winArrived >= x.winNeed {
		x.winArmed = false
		close(ch)
	}
	r.cond.Broadcast()
	r.mu.Unlock()
	select {
	case <-ch:
	case <-r.closingCh:
	}
}

// parkTwo issues two requests that both wait inside ServerPreConnectEvent
// subscribers; it returns them with the arrival index of each (-1: the request
// returned without reaching the event).
func (x *c16Exec) parkTwo(st c16Step, sc1, sc2 *c15Script, at [2]string) (qs [2]*c16Req, idx [2]int) {
	x.armPre(2)
	arrived := 0
	for i, ta := range []struct {
		t, api int
		sc     *c15Script
	}{{st.T1, st.API1, sc1}, {st.T2, st.API2, sc2}} {
		q := x.issueVia(ta.t, ta.api, ta.sc, at[i])
		want := arrived + 1
		ok := x.rig.wait(c15Watchdog, func() bool { return q.returned || x.preArrived >= want })
		if !ok {
			x.inconclusive("prehold-watchdog")
		}
		qs[i] = q
		if x.isReturned(q) {
			idx[i] = -1
		} else {
			idx[i] = arrived
			arrived++
		}
	}
	return
}

func (x *c16Exec) stepPrehold(st c16Step) {
	before := x.snapshot()
	hold := c15Script{Thr: -1, HoldAt: c15StLogin}
	plain := c15Script{Thr: -1}
	first, second := st.First, 1-st.First
	mode := [2]string{st.RM1, st.RM2}
	other := [2]string{x.redirDest(st.RT1), x.redirDest(st.RT2)}
	if !st.WaitFirst && (mode[first] == "current" || mode[first] == "deny") {
		mode[first] = "" // released first without waiting: it has to reach its backend
	}
	at := [2]string{x.scriptAt(x.names[st.T1], mode[0], other[0]), x.scriptAt(x.names[st.T2], mode[1], other[1])}
	var sc [2]*c15Script
	for i := range sc {
		s := plain
		holder := st.First
		if at[0] == at[1] {
			holder = 0 // same backend: one-shot scripts are consumed in dial order
		}
		if !st.WaitFirst && i == holder {
			s = hold
		}
		sc[i] = &s
	}
	qs, idx := x.parkTwo(st, sc[0], sc[1], at)
	defer x.disarmPre()
	noteRedirect := func(q *c16Req, pred string) {
		if q.redir != "" {
			x.nt = true
			x.label("redirect-" + q.redir + "-" + pred)
		}
	}
	for i, q := range qs {
		if idx[i] == -1 {
			// returned at the first check: it targets the current server
			x.judge("prehold-early", q, x.predict(q.target, plain, ""), before)
		}
	}
	if idx[0] == -1 || idx[1] == -1 {
		// only one (or none) is parked: let it run like a sequential request
		for i, q := range qs {
			if idx[i] != -1 {
				act := x.redirect(q, mode[i], other[i])
				pred := x.predictReq(q, plain)
				x.releasePreWith(idx[i], act)
				x.waitReq(q, true)
				if !x.isReturned(q) {
					x.release(q)
					x.waitReq(q, false)
				}
				noteRedirect(q, pred)
				x.judge("prehold-single", q, pred, before)
			}
		}
		return
	}
	x.nt = true
	act := x.redirect(qs[first], mode[first], other[first])
	predFirst := x.predictReq(qs[first], plain)
	x.releasePreWith(idx[first], act)
	if st.WaitFirst {
		x.label("prehold-sequential")
		x.waitReq(qs[first], false)
		noteRedirect(qs[first], predFirst)
		x.judge("prehold-first", qs[first], predFirst, before)
		mid := x.snapshot()
		act = x.redirect(qs[second], mode[second], other[second])
		predSecond := x.predictReq(qs[second], plain)
		x.releasePreWith(idx[second], act)
		x.waitReq(qs[second], false)
		noteRedirect(qs[second], predSecond)
		x.judge("prehold-second", qs[second], predSecond, mid)
		return
	}
	x.label("prehold-overlapping")
	x.waitReq(qs[first], true)
	if x.isReturned(qs[first]) {
		x.fail("status:prehold-first", "request %s to %s%s returned %q instead of reaching the backend; %s", qs[first].id, qs[first].target, qs[first].via(), qs[first].status, x.describe())
	}
	x.settle()
	mid := x.snapshot()
	act = x.redirect(qs[second], mode[second], other[second])
	x.releasePreWith(idx[second], act)
	x.waitReq(qs[second], true)
	if !x.isReturned(qs[second]) || x.dialedLocked2(qs[second]) {
		x.fail("inflight:second-attempt-started", "request %s to %s%s started a second connection attempt while %s to %s is in flight (both passed the first check, released one after the other); %s",
			qs[second].id, qs[second].target, qs[second].via(), qs[first].id, qs[first].target, x.describe())
	}
	// Another attempt is in flight: the request is reported as such. Where the
	// statement names a second applicable report (the subscriber denied the
	// request; it re-targeted it to the current server) that one is accepted too.
	want := []string{"inprogress"}
	switch {
	case qs[second].redir == "deny":
		want = append(want, "canceled")
	case qs[second].dest == x.curModel:
		want = append(want, "already")
	}
	if qs[second].redir != "" {
		x.label("redirect-" + qs[second].redir + "-while-in-flight")
	}
	x.expectNoop("prehold-second", qs[second], want...)
	x.checkNoSideEffects("in-progress", mid, qs[second], true)
	x.release(qs[first])
	x.waitReq(qs[first], false)
	noteRedirect(qs[first], predFirst)
	x.judge("prehold-first", qs[first], predFirst, before)
}

// stepRedirect: one request whose ServerPreConnectEvent subscriber re-targets it
// (to another registered server or to the server the player is on) or denies it.
func (x *c16Exec) stepRedirect(st c16Step) {
	before := x.snapshot()
	sc := st.S1
	sc.HoldAt = ""
	other := x.redirDest(st.RT1)
	x.armPre(1)
	defer x.disarmPre()
	q := x.issueVia(st.T1, st.API1, &sc, x.scriptAt(x.names[st.T1], st.RM1, other))
	if !x.rig.wait(c15Watchdog, func() bool { return q.returned || x.preArrived >= 1 }) {
		x.inconclusive("prehold-watchdog")
	}
	if x.isReturned(q) {
		// returned at the first check (it targets the current server): no event, no subscriber
		x.waitReq(q, false)
		x.judge("redirect-early", q, x.predict(q.target, sc, ""), before)
		return
	}
	act := x.redirect(q, st.RM1, other)
	pred := x.predictReq(q, sc)
	x.releasePreWith(0, act)
	x.waitReq(q, false)
	if q.redir != "" {
		x.nt = true
		x.label("redirect-" + q.redir + "-" + pred)
	}
	if sc.FaultAt != "" && sc.FaultAt != c15StDial && pred != "already" && pred != "canceled" {
		x.nt = true
		x.label("fault-" + sc.FaultAt + "-" + sc.Fault)
	}
	x.judge("redirect", q, pred, before)
}

func (x *c16Exec) stepWindow(st c16Step) {
	before := x.snapshot()
	s1, s2 := c15Script{Thr: -1, HoldAt: c15StLogin}, c15Script{Thr: -1, HoldAt: c15StLogin}
	qs, idx := x.parkTwo(st, &s1, &s2, [2]string{x.names[st.T1], x.names[st.T2]})
	defer x.disarmPre()
	if idx[0] == -1 || idx[1] == -1 {
		for i, q := range qs {
			if idx[i] == -1 {
				x.judge("window-early", q, x.predict(q.target, c15Script{}, ""), before)
			}
		}
		for i, q := range qs {
			if idx[i] != -1 {
				x.releasePre(idx[i])
				x.waitReq(q, true)
				x.release(q)
				x.waitReq(q, false)
				x.judge("window-single", q, x.predict(q.target, c15Script{}, ""), before)
			}
		}
		return
	}
	x.nt = true
	if st.Forced {
		x.label("window-forced")
		x.rig.mu.Lock()
		x.winArmed, x.winArrived, x.winNeed, x.winCh = true, 0, 2, make(chan struct{})
		x.rig.mu.Unlock()
	} else {
		x.label("window-natural")
	}
	x.releasePre(idx[0])
	x.releasePre(idx[1])
	// each request ends up parked at its backend or returns
	for _, q := range qs {
		x.waitReq(q, true)
	}
	x.rig.mu.Lock()
	x.winArmed = false
	held, dialed := 0, 0
	for _, q := range qs {
		if !q.returned && x.heldLocked(q) {
			held++
		}
		if x.dialedLocked(q) {
			dialed++
		}
	}
	x.rig.mu.Unlock()
	if held == 2 || dialed == 2 {
		x.fail("inflight:two-attempts:checkServer-window", "two concurrent requests (%s to %s, %s to %s) both passed checkServer and both have a backend connection attempt in flight (each parked in its backend's login); %s",
			qs[0].id, qs[0].target, qs[1].id, qs[1].target, x.describe())
	}
	if held == 0 {
		x.fail("status:window", "neither of two concurrent requests reached its backend: %q / %q; %s", qs[0].status, qs[1].status, x.describe())
	}
	var winner, loser *c16Req
	for _, q := range qs {
		if x.isReturned(q) {
			loser = q
		} else {
			winner = q
		}
	}
	x.settle()
	x.expectNoop("window-loser", loser, "inprogress")
	if x.dialedLocked2(loser) {
		x.fail("inflight:second-attempt-started", "request %s returned %q but had dialed its backend; %s", loser.id, loser.status, x.describe())
	}
	mid := x.snapshot()
	if mid.inFlight == nil {
		x.fail("inflight-slot:changed-by-in-progress-request", "after the losing request %s (api %d) returned %q the in-flight slot is empty although %s is still in flight; %s", loser.id, loser.api, loser.status, winner.id, x.describe())
	}
	x.release(winner)
	x.waitReq(winner, false)
	x.judge("window-winner", winner, x.predict(winner.target, c15Script{}, ""), before)
}

func (x *c16Exec) stepKick(st c16Step) {
	r := x.rig
	cur := x.curName()
	if cur == "" {
		return
	}
	r.mu.Lock()
	var sess *c15Session
	for _, s := range r.sessionsLocked() {
		if s.b.name == cur && s.joinSent && s.openLocked() {
			sess = s
		}
	}
	before := r.countEventsLocked("postconnect")
	r.mu.Unlock()
	if sess == nil {
		x.fail("backend-conn:count", "player is on %q but no open backend connection exists; %s", cur, x.describe())
	}
	x.nt = true
	kind := "kick"
	if st.Op == "drop" {
		kind = "close"
	}
	x.label("play-" + kind)
	sess.fail(kind, state.Play)
	ok := r.wait(c15Watchdog, func() bool {
		return r.handleDone || r.client.rdDone || r.countEventsLocked("postconnect") > before
	})
	if !ok {
		x.inconclusive("kick-watchdog")
	}
	x.curModel = "?"
	x.needServer = "a " + kind + " by the current server"
}

func (x *c16Exec) run() {
	r := x.rig
	r.start()
	ok := r.wait(c15Watchdog, func() bool {
		return r.countEventsLocked("postconnect") > 0 || r.client.kicked || r.client.rdDone || r.handleDone || len(r.harnessErrs) > 0
	})
	if !ok {
		x.inconclusive("join-watchdog")
	}
	r.mu.Lock()
	joined := r.countEventsLocked("postconnect") > 0
	r.mu.Unlock()
	if !joined {
		x.fail("setup:join-failed", "initial join failed although a healthy server is in the try list; %s", x.describe())
	}
	x.player = r.player()
	if x.player == nil {
		x.fail("setup:join-failed", "player not registered after join; %s", x.describe())
	}
	x.curModel = "?"
	x.quiescent("after-join")
	// the initial server is the first try entry that accepts
	for _, i := range x.c.Try {
		if x.c.Backends[i].Health == 0 {
			if x.curModel != x.names[i] {
				x.fail("initial-server:unexpected", "player joined %q, expected the first accepting try server %q; %s", x.curModel, x.names[i], x.describe())
			}
			break
		}
	}
	for i, st := range x.c.Steps {
		if !x.alive() {
			x.label("player-gone-early")
			break
		}
		base := 0
		for j, n := range x.names {
			if n == x.curModel {
				base = j
			}
		}
		nb := len(x.names)
		st.T1, st.T2, st.T3 = (base+st.T1)%nb, (base+st.T2)%nb, (base+st.T3)%nb
		switch st.Op {
		case "seq":
			x.stepSeq(st)
		case "overlap":
			x.stepOverlap(st)
		case "prehold":
			x.stepPrehold(st)
		case "redirect":
			x.stepRedirect(st)
		case "window":
			x.stepWindow(st)
		case "kick", "drop":
			x.stepKick(st)
		}
		x.quiescent(fmt.Sprintf("after-step-%d-%s", i, st.Op))
	}
}

func c16Run(c c16Case) (res verifkit.Result) {
	var x *c16Exec
	sink := &c16Sink{hook: func(name string) {
		if x != nil {
			x.onLogName(name)
		}
	}}
	log := logr.New(sink)
	opts := c15RigOpts{Protocol: c.Protocol, ClientThr: c.ClientThr, ProxyLevel: -1, ClientLevel: -1, BackendLevel: -1, Log: &log}
	var names []string
	for i, b := range c.Backends {
		n := fmt.Sprintf("s%d", i)
		names = append(names, n)
		opts.Backends = append(opts.Backends, c15BackendSpec{Name: n, Scripts: []c15Script{c16HealthScript(b)}})
	}
	for _, i := range c.Try {
		opts.Try = append(opts.Try, names[i])
	}
	rig, err := c15NewRig(opts)
	if err != nil {
		return verifkit.Fail("harness:rig", "%v", err)
	}
	x = &c16Exec{rig: rig, c: c, names: names, labels: map[string]bool{}}
	rig.preConnect = x.onPreConnect
	func() {
		defer func() {
			if p := recover(); p != nil {
				if s, ok := p.(c16Stop); ok {
					res = s.res
					return
				}
				res = verifkit.Fail("harness:panic", "%v\n%s", p, debug.Stack())
			}
		}()
		x.run()
	}()
	leak := rig.close()
	if res.V != nil || res.Inconclusive {
		return res
	}
	if leak != "" {
		if c15DebugLeak {
			return verifkit.Fail("debug:leak", "%s", leak)
		}
		return verifkit.Result{Inconclusive: true, Labels: []string{"goroutines-left-after-close"}}
	}
	labels := []string{fmt.Sprintf("protocol-%d", c.Protocol)}
	for l := range x.labels {
		labels = append(labels, l)
	}
	sort.Strings(labels)
	return verifkit.Result{NonTrivial: x.nt, Labels: labels}
}

func TestVerif_C16(t *testing.T) {
	verifkit.Check(t, "C16", "switch",
		"one player session per case through the real proxy with 2-4 scripted backends (healthy / refusing / kicking or closing during login) and a try list; 2-7 ops: sequential requests (Connect / ConnectWithIndication) to backends that accept, refuse, kick or drop at login / configuration / before JoinGame; requests issued while another attempt is parked at dial/login/config/pre-join (then released or cancelled); two requests parked in ServerPreConnectEvent subscribers and released in generated order; two requests released together (optionally forced through the checkServer window); kick / drop by the current backend; requests whose ServerPreConnectEvent subscriber re-targets them to another registered server, to the server the player is on, while another attempt is in flight, or denies them (predictions made on the chosen destination); protocols 1.12.2, 1.20.1, 1.20.2, 1.21, 1.21.11; non-trivial: two overlapping requests, a backend fault after the handshake, or a request re-targeted / denied by its subscriber",
		c16Gen, c16Run)
}
