//go:build verif

package proxy

// C31, sub-check "dispatch": the Lite branch of the real handshake handler.
// The main C31 check (package lite) mirrors the three Lite statements of
// handshakeSessionHandler.handleHandshake because package lite cannot import
// package proxy; this sub-check closes that gap: a real Proxy in Lite mode
// (Proxy.HandleConn), a loopback TCP backend, a client that sends a handshake
// with next state 2 (login) or 3 (transfer) followed by opaque bytes. The
// backend must receive the handshake exactly as sent and then every client byte,
// the client every backend byte.

import (
	"bufio"
	"bytes"
	"fmt"
	"io"
	"net"
	"testing"
	"time"

	"github.com/pires/go-proxyproto"
	"github.com/robinbraemer/event"
	"pgregory.net/rapid"

	"go.minekube.com/gate/pkg/edition/java/config"
	liteconfig "go.minekube.com/gate/pkg/edition/java/lite/config"
	"go.minekube.com/gate/pkg/internal/verifkit"
)

type c31dCase struct {
	Protocol  int32  `json:"protocol"`
	Next      int32  `json:"next"` // 2 login, 3 transfer
	Host      string `json:"host"`
	Port      uint16 `json:"port"`
	StreamLen int    `json:"stream_len"` // opaque client bytes after the handshake
	ReplyLen  int    `json:"reply_len"`  // opaque backend bytes
	Pipelined bool   `json:"pipelined"`  // handshake and stream in one write
	Seed      byte   `json:"seed"`
	// ProxyProtocol: the route sends a PROXY protocol header with the client's real
	// address in front of everything else. Reload: before the client connects the
	// routes are published again through Proxy.ApplyLiveConfig (a live reload that
	// adds an unrelated route); the route's options must survive that.
	ProxyProtocol bool `json:"proxy_protocol,omitempty"`
	Reload        bool `json:"reload,omitempty"`
}

const c31dWait = 20 * time.Second

func c31dBytes(n int, seed byte) []byte {
	out := make([]byte, n)
	x := uint32(seed)*2654435761 + 1
	for i := range out {
		x ^= x << 13
		x ^= x >> 17
		x ^= x << 5
		out[i] = byte(x >> 9)
	}
	return out
}

func c31dRun(c c31dCase) verifkit.Result {
	return c43Guard("c31d", func() verifkit.Result { return c31dRunInner(c) })
}

func c31dRunInner(c c31dCase) (res verifkit.Result) {
	ln, err := net.Listen("tcp", "127.0.0.1:0")
	if err != nil {
		return verifkit.Result{Inconclusive: true, Labels: []string{"inconclusive:listen"}}
	}
	defer ln.Close()
	hs := c43Handshake(c.Protocol, c.Host, c.Port, c.Next)
	stream := c31dBytes(c.StreamLen, c.Seed)
	reply := c31dBytes(c.ReplyLen, c.Seed+1)
	want := append(append([]byte(nil), hs...), stream...)

	type backendResult struct {
		got []byte
		err error
	}
	backendDone := make(chan backendResult, 1)
	gotAll := make(chan struct{})
	go func() {
		conn, err := ln.Accept()
		if err != nil {
			return
		}
		defer conn.Close()
		got := make([]byte, len(want))
		_ = conn.SetReadDeadline(time.Now().Add(c31dWait))
		var rd io.Reader = conn
		if c.ProxyProtocol {
			br := bufio.NewReader(conn)
			hdr, herr := proxyproto.Read(br)
			if herr != nil {
				peek, _ := br.Peek(min(br.Buffered(), 24))
				backendDone <- backendResult{err: fmt.Errorf("the route has proxyProtocol on, but the connection does not start with a PROXY header (%v; first bytes %x)", herr, peek)}
				return
			}
			if src, ok := hdr.SourceAddr.(*net.TCPAddr); !ok || !src.IP.Equal(net.IPv4(127, 0, 0, 1)) {
				backendDone <- backendResult{err: fmt.Errorf("PROXY header carries source %v, the client's address is 127.0.0.1:<port>", hdr.SourceAddr)}
				return
			}
			rd = br
		}
		n, err := io.ReadFull(rd, got)
		if err != nil {
			backendDone <- backendResult{got: got[:n], err: err}
			return
		}
		_, _ = conn.Write(reply)
		_ = conn.(*net.TCPConn).CloseWrite()
		close(gotAll)
		// anything the proxy sends beyond what the client sent (until the client leaves)
		_ = conn.SetReadDeadline(time.Now().Add(c31dWait))
		extra, _ := io.ReadAll(rd)
		backendDone <- backendResult{got: append(got[:n], extra...)}
	}()

	var startCfg config.Config
	p := c43NewProxy(event.Nop, nil, func(cfg *config.Config) {
		cfg.OnlineMode = false
		cfg.Lite.Enabled = true
		cfg.Lite.Routes = []liteconfig.Route{{Host: []string{"*"}, Backend: []string{ln.Addr().String()}, ProxyProtocol: c.ProxyProtocol}}
		startCfg = *cfg
	})
	if c.Reload {
		candidate := startCfg
		candidate.Lite.Routes = []liteconfig.Route{
			{Host: []string{"decoy.c31d.invalid"}, Backend: []string{"127.0.0.9:1"}},
			{Host: []string{"*"}, Backend: []string{ln.Addr().String()}, ProxyProtocol: c.ProxyProtocol},
		}
		if err := p.ApplyLiveConfig(&candidate); err != nil {
			return verifkit.Result{Inconclusive: true, Labels: []string{"inconclusive:live-reload-refused:" + err.Error()}}
		}
	}
	cl := c43Dial(p)
	defer cl.Finish()

	if c.Pipelined {
		err = cl.Send(append(append([]byte(nil), hs...), stream...))
	} else {
		if err = cl.Send(hs); err == nil && len(stream) > 0 {
			err = cl.Send(stream)
		}
	}
	labels := []string{fmt.Sprintf("next-state:%d", c.Next)}
	if c.ProxyProtocol {
		labels = append(labels, "proxy-protocol-route")
	}
	if c.Reload {
		labels = append(labels, "after-live-reload")
	}
	if c.Pipelined {
		labels = append(labels, "pipelined")
	}
	res.Labels = labels
	res.NonTrivial = c.StreamLen > 0 && c.ReplyLen > 0

	// wait for: every reply byte at the client, or the proxy closing the client
	deadline := time.Now().Add(c31dWait)
	clientState := func() (n int, eof bool, buf []byte) {
		cl.mu.Lock()
		defer cl.mu.Unlock()
		return len(cl.buf), cl.eof, append([]byte(nil), cl.buf...)
	}
	var br *backendResult
	all := false
	for {
		if !all {
			select {
			case <-gotAll:
				all = true
			default:
			}
		}
		n, eof, buf := clientState()
		if all && n >= len(reply) {
			break
		}
		if eof && !all {
			// the proxy closed the client: did the backend see the connection through?
			select {
			case <-gotAll:
				all = true
				continue
			case r := <-backendDone:
				br = &r
			case <-time.After(500 * time.Millisecond):
			}
			got := []byte(nil)
			if br != nil {
				got = br.got
			}
			return verifkit.Fail("dispatch:not-forwarded",
				"Lite mode, handshake protocol %d next state %d host %q: the proxy closed the client connection (after writing %d bytes %q to it) but the backend received only %d of the %d bytes the client sent (send error: %v)",
				c.Protocol, c.Next, c.Host, n, c31dShort(buf), len(got), len(want), err)
		}
		if eof && all {
			break // judged below by the byte comparison
		}
		if time.Now().After(deadline) {
			return verifkit.Result{Inconclusive: true, Labels: []string{"inconclusive:timeout"}}
		}
		time.Sleep(2 * time.Millisecond)
	}
	// the client leaves; the backend sees EOF and reports
	_, _, buf := clientState()
	cl.Finish()
	if br == nil {
		select {
		case r := <-backendDone:
			br = &r
		case <-time.After(c31dWait):
			return verifkit.Result{Inconclusive: true, Labels: []string{"inconclusive:backend-timeout"}}
		}
	}
	if br.err != nil || !bytes.Equal(br.got, want) {
		return verifkit.Fail("dispatch:backend-bytes", "Lite mode, next state %d: backend received %d bytes %q (err %v), the client sent %d bytes %q", c.Next, len(br.got), c31dShort(br.got), br.err, len(want), c31dShort(want))
	}
	cl.mu.Lock()
	buf = append([]byte(nil), cl.buf...)
	cl.mu.Unlock()
	if !bytes.Equal(buf, reply) {
		return verifkit.Fail("dispatch:client-bytes", "Lite mode, next state %d: client received %d bytes %q, the backend sent %d bytes %q", c.Next, len(buf), c31dShort(buf), len(reply), c31dShort(reply))
	}
	return res
}

func c31dShort(b []byte) string {
	if len(b) > 48 {
		return fmt.Sprintf("%x…(%d)", b[:48], len(b))
	}
	return fmt.Sprintf("%x", b)
}

func c31dGen(t *rapid.T) c31dCase {
	return c31dCase{
		Protocol:      rapid.SampledFrom([]int32{47, 340, 754, 763, 765, 766, 767, 769, 772, 774, 776}).Draw(t, "protocol"),
		Next:          rapid.SampledFrom([]int32{2, 2, 3}).Draw(t, "next"),
		Host:          rapid.SampledFrom([]string{"play.example.org", "mc.example.com", "localhost", "Play.Example.ORG.", "h\x00FML2\x00"}).Draw(t, "host"),
		Port:          rapid.SampledFrom([]uint16{25565, 0, 65535}).Draw(t, "port"),
		StreamLen:     rapid.SampledFrom([]int{0, 1, 20, 300, 4096, 5000}).Draw(t, "stream"),
		ReplyLen:      rapid.SampledFrom([]int{0, 1, 20, 300, 5000}).Draw(t, "reply"),
		Pipelined:     rapid.Bool().Draw(t, "pipelined"),
		Seed:          rapid.Byte().Draw(t, "seed"),
		ProxyProtocol: rapid.IntRange(0, 2).Draw(t, "proxyProtocol") == 0,
		Reload:        rapid.IntRange(0, 2).Draw(t, "reload") == 0,
	}
}

func TestVerif_C31Dispatch(t *testing.T) {
	verifkit.Check(t, "C31", "dispatch",
		"real Proxy.HandleConn in Lite mode with one catch-all route to a loopback TCP backend: handshake (11 protocols 1.8..26.2, next state 2 login / 3 transfer, host with upper case, trailing dot or Forge marker, port boundary values) optionally a route with proxyProtocol and/or a live reload of the routes (Proxy.ApplyLiveConfig) before the client connects, followed by 0..5000 opaque client bytes (pipelined with the handshake or not) and 0..5000 backend bytes; oracle: the backend receives the handshake exactly as sent and then every client byte, the client every backend byte, and the proxy never answers the client itself; non-trivial = bytes in both directions",
		c31dGen, c31dRun)
}
