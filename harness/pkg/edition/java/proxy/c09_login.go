//go:build verif

package proxy

// C09, sub-check "login-serverid": the server id as the proxy really sends it to
// the session server. The main C09 check decides auth.GenerateServerID against a
// math/big reference; this one runs complete online-mode logins through
// Proxy.HandleConn (rig of C08: scripted client with its own RSA/AES, scripted
// session server) with shared secrets of 16, 24 and 32 bytes and compares the
// serverId of the hasJoined request with the reference digest over the secret the
// client sent and the proxy's public key.

import (
	"testing"

	"pgregory.net/rapid"

	"go.minekube.com/gate/pkg/internal/verifkit"
)

func c09lGen(t *rapid.T) c08Case {
	c := c08Case{
		Protocol:    rapid.SampledFrom(c08Protocols).Draw(t, "protocol"),
		OnlineMode:  true,
		PreLogin:    rapid.SampledFrom([]string{"none", "none", "allow", "force-online"}).Draw(t, "prelogin"),
		Session:     rapid.SampledFrom([]string{"ok", "ok", "ok-othername"}).Draw(t, "session"),
		Compression: rapid.SampledFrom([]int{-1, 256}).Draw(t, "compression"),
		Secret:      rapid.SliceOfN(rapid.Byte(), 16, 16).Draw(t, "secret"),
		Seed:        rapid.SliceOfN(rapid.Byte(), 8, 8).Draw(t, "seed"),
	}
	name := rapid.SampledFrom([]string{"Alice", "bob_123", "X_", "Sixteen_Chars_16", "Notch"}).Draw(t, "loginName")
	c.Ops = []c08Op{
		{Kind: "login", Name: name},
		{Kind: "encresp", Token: "correct", Secret: rapid.SampledFrom([]string{"valid", "len24", "len32"}).Draw(t, "secretKind")},
	}
	return c
}

func c09lRun(c c08Case) verifkit.Result {
	r := c08Run(c)
	if r.V == nil {
		compared := false
		for _, l := range r.Labels {
			compared = compared || l == "admitted-online" || l == "odd-secret-serverid-compared"
		}
		if !compared {
			// the proxy never got as far as the session server within the wait: nothing was compared
			return verifkit.Result{Inconclusive: true, Labels: append(r.Labels, "serverid-not-compared")}
		}
		r.NonTrivial = true
		r.Labels = append(r.Labels, "secret-kind:"+c.Ops[1].Secret)
	}
	return r
}

func TestVerif_C09Login(t *testing.T) {
	verifkit.Check(t, "C09", "login-serverid",
		"clean online-mode logins through the real Proxy.HandleConn (14 protocols 1.8..26.2, compression on/off, PreLogin none/allow/force-online, session server answers 200) with shared secrets of 16, 24 and 32 bytes; oracle: the hasJoined request the proxy sends carries exactly the reference server id (SHA-1 over secret || public key as a signed hex number) of the secret the client sent, plus every C08 oracle of the same history; every case is non-trivial",
		c09lGen, c09lRun)
}
