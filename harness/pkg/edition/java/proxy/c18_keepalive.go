//go:build verif

package proxy

import (
	"context"
	"fmt"
	"net"
	"sort"
	"sync"
	"testing"
	"time"

	"github.com/go-logr/logr"
	"go.minekube.com/gate/pkg/edition/java/netmc"
	"go.minekube.com/gate/pkg/edition/java/proto/packet"
	"go.minekube.com/gate/pkg/edition/java/proto/state"
	"go.minekube.com/gate/pkg/edition/java/proto/version"
	"go.minekube.com/gate/pkg/edition/java/proxy/phase"
	"go.minekube.com/gate/pkg/gate/proto"
	"go.minekube.com/gate/pkg/internal/verifkit"
	"pgregory.net/rapid"
)

// C18: keep-alive replies reach only the backend that asked, once.
//
// Real code driven: the three backend session handlers' handleKeepAlive (which
// call recordBackendKeepAlive), and the client play/config handlers'
// keep-alive path (forwardKeepAlive -> sendKeepAliveToBackend ->
// consumePendingKeepAlive) over serverConnections built with the production
// constructor and recording connections.
//
// Oracle: an executable model written from the property text: per backend a
// set of asked-and-unanswered ids bounded to the 64 most recently asked (LRU);
// a reply goes to the current backend if the id is pending there, else to the
// in-flight one; it is written iff that backend has an open connection in
// CONFIG or PLAY; the id is consumed either way; everything else is dropped.

// ---------------------------------------------------------------- recording conn

type c18Conn struct {
	mu      sync.Mutex
	st      *state.Registry
	ctx     context.Context
	cancel  context.CancelFunc
	packets []proto.Packet
	raw     [][]byte
	handler netmc.SessionHandler
	typ     phase.ConnectionType
	wr      c18Writer
}

func c18NewConn(st *state.Registry) *c18Conn {
	ctx, cancel := context.WithCancel(context.Background())
	return &c18Conn{st: st, ctx: ctx, cancel: cancel}
}

func (c *c18Conn) Context() context.Context { return c.ctx }
func (c *c18Conn) Close() error             { c.cancel(); return nil }
func (c *c18Conn) State() *state.Registry {
	c.mu.Lock()
	defer c.mu.Unlock()
	return c.st
}
func (c *c18Conn) setState(s *state.Registry) {
	c.mu.Lock()
	c.st = s
	c.mu.Unlock()
}
func (c *c18Conn) Protocol() proto.Protocol { return version.Minecraft_1_20_3.Protocol }
func (c *c18Conn) RemoteAddr() net.Addr     { return &net.TCPAddr{IP: net.IPv4(127, 0, 0, 1), Port: 1} }
func (c *c18Conn) LocalAddr() net.Addr      { return &net.TCPAddr{IP: net.IPv4(127, 0, 0, 1), Port: 2} }
func (c *c18Conn) Type() phase.ConnectionType {
	if c.typ != nil {
		return c.typ
	}
	return phase.Vanilla
}
func (c *c18Conn) SetType(t phase.ConnectionType)                                    { c.typ = t }
func (c *c18Conn) ActiveSessionHandler() netmc.SessionHandler                        { return c.handler }
func (c *c18Conn) SetActiveSessionHandler(_ *state.Registry, h netmc.SessionHandler) { c.handler = h }
func (c *c18Conn) SwitchSessionHandler(*state.Registry) bool                         { return true }
func (c *c18Conn) AddSessionHandler(*state.Registry, netmc.SessionHandler)           {}
func (c *c18Conn) SetAutoReading(bool)                                               {}
func (c *c18Conn) SetOutboundState(*state.Registry)                                  {}
func (c *c18Conn) SetProtocol(proto.Protocol)                                        {}
func (c *c18Conn) SetState(s *state.Registry)                                        { c.setState(s) }
func (c *c18Conn) SetCompressionThreshold(int) error                                 { return nil }
func (c *c18Conn) EnableEncryption([]byte) error                                     { return nil }
func (c *c18Conn) WritePacket(p proto.Packet) error {
	c.mu.Lock()
	c.packets = append(c.packets, p)
	c.mu.Unlock()
	return nil
}
func (c *c18Conn) BufferPacket(p proto.Packet) error { return c.WritePacket(p) }
func (c *c18Conn) Write(b []byte) error {
	c.mu.Lock()
	c.raw = append(c.raw, append([]byte(nil), b...))
	c.mu.Unlock()
	return nil
}
func (c *c18Conn) BufferPayload(b []byte) error { return c.Write(b) }
func (c *c18Conn) Flush() error                 { return nil }
func (c *c18Conn) Reader() netmc.Reader         { return nil }
func (c *c18Conn) Writer() netmc.Writer         { return &c.wr }
func (c *c18Conn) EnablePlayPacketQueue()       {}

func (c *c18Conn) snapshot() []proto.Packet {
	c.mu.Lock()
	defer c.mu.Unlock()
	return append([]proto.Packet(nil), c.packets...)
}

var _ netmc.MinecraftConn = (*c18Conn)(nil)

type c18Writer struct{}

func (*c18Writer) WritePacket(proto.Packet) (int, error) { return 0, nil }
func (*c18Writer) Write([]byte) (int, error)             { return 0, nil }
func (*c18Writer) Flush() error                          { return nil }
func (*c18Writer) SetProtocol(proto.Protocol)            {}
func (*c18Writer) SetState(*state.Registry)              {}
func (*c18Writer) SetCompressionThreshold(int) error     { return nil }
func (*c18Writer) EnableEncryption([]byte) error         { return nil }
func (*c18Writer) Direction() proto.Direction            { return proto.ServerBound }

// ---------------------------------------------------------------- case

// Op kinds:
//
//	new     create a fresh backend (state St) and make it the in-flight connection
//	promote the in-flight backend becomes the current one (setConnectedServer)
//	abort   the in-flight connection is reset (switch failed); the backend object lingers
//	state   backend B changes state (login/config/play/closed/noconn)
//	ka      backend B sends keep-alive ID through handler Via (config/play/transition)
//	burst   backend B sends N keep-alives with ids ID, ID+1, ... (to exceed the bound)
//	reply   the client replies with ID, handled by the client handler Via (play/config)
type c18Op struct {
	K   string `json:"k"`
	B   int    `json:"b,omitempty"`
	ID  int64  `json:"id,omitempty"`
	N   int    `json:"n,omitempty"`
	Via string `json:"via,omitempty"`
	St  string `json:"st,omitempty"`
}

type c18Case struct {
	Ops []c18Op `json:"ops"`
}

const c18Cap = 64 // bound of pending keep-alives per backend (property quantifier: ">64 pending")

func c18Registry(s string) *state.Registry {
	switch s {
	case "login":
		return state.Login
	case "config":
		return state.Config
	case "play":
		return state.Play
	}
	return state.Play
}

// ---------------------------------------------------------------- model

type c18MBackend struct {
	pending  []int64 // most recently asked first
	st       string
	asked    map[int64]int // how often ever asked
	answered map[int64]int // how often consumed
	evicted  map[int64]bool
}

func (m *c18MBackend) has(id int64) bool {
	for _, x := range m.pending {
		if x == id {
			return true
		}
	}
	return false
}

func (m *c18MBackend) remove(id int64) {
	for i, x := range m.pending {
		if x == id {
			m.pending = append(m.pending[:i:i], m.pending[i+1:]...)
			return
		}
	}
}

func (m *c18MBackend) ask(id int64) {
	m.asked[id]++
	delete(m.evicted, id)
	if m.has(id) {
		m.remove(id)
	}
	m.pending = append([]int64{id}, m.pending...)
	if len(m.pending) > c18Cap {
		old := m.pending[len(m.pending)-1]
		m.pending = m.pending[:len(m.pending)-1]
		m.evicted[old] = true
	}
}

func (m *c18MBackend) eligible() bool { return m.st == "config" || m.st == "play" }

// ---------------------------------------------------------------- real fixture

type c18Fixture struct {
	player   *connectedPlayer
	client   *c18Conn
	backends []*serverConnection
	conns    []*c18Conn
	seen     []int // number of packets of conns[i] already accounted for
}

func c18NewFixture() *c18Fixture {
	client := c18NewConn(state.Play)
	return &c18Fixture{
		client: client,
		player: &connectedPlayer{MinecraftConn: client, log: logr.Discard()},
	}
}

func (f *c18Fixture) newBackend(st string) int {
	i := len(f.backends)
	srv := newRegisteredServer(NewServerInfo(fmt.Sprintf("s%d", i), &net.TCPAddr{IP: net.IPv4(10, 0, 0, byte(i+1)), Port: 25565}))
	sc := newServerConnection(srv, nil, f.player)
	conn := c18NewConn(state.Play)
	f.backends = append(f.backends, sc)
	f.conns = append(f.conns, conn)
	f.seen = append(f.seen, 0)
	f.setState(i, st)
	return i
}

func (f *c18Fixture) setState(i int, st string) {
	sc, conn := f.backends[i], f.conns[i]
	switch st {
	case "noconn":
		sc.mu.Lock()
		sc.connection = nil
		sc.mu.Unlock()
		return
	case "closed":
		_ = conn.Close()
	default:
		if conn.ctx.Err() != nil { // re-opened: a fresh connection object, same recorder semantics
			nc := c18NewConn(c18Registry(st))
			nc.packets = conn.snapshot()
			f.conns[i] = nc
			conn = nc
		}
		conn.setState(c18Registry(st))
	}
	sc.mu.Lock()
	sc.connection = conn
	sc.mu.Unlock()
}

func (f *c18Fixture) ka(i int, id int64, via string) {
	p := &packet.KeepAlive{RandomID: id}
	sc := f.backends[i]
	switch via {
	case "config":
		(&backendConfigSessionHandler{serverConn: sc}).handleKeepAlive(p)
	case "transition":
		(&backendTransitionSessionHandler{serverConn: sc}).handleKeepAlive(p)
	default:
		(&backendPlaySessionHandler{serverConn: sc}).handleKeepAlive(p, &proto.PacketContext{
			Direction: proto.ClientBound, Protocol: version.Minecraft_1_20_3.Protocol,
			Packet: p, Payload: []byte{0x24, 0, 0, 0, 0, 0, 0, 0, byte(id)},
		})
	}
}

func (f *c18Fixture) reply(id int64, via string) {
	p := &packet.KeepAlive{RandomID: id}
	switch via {
	case "initial":
		newInitialConnectSessionHandler(f.player).HandlePacket(&proto.PacketContext{Direction: proto.ServerBound, Protocol: version.Minecraft_1_20.Protocol,
			Packet: p, Payload: []byte{0x12}})
	case "config":
		h := newClientConfigSessionHandler(f.player)
		h.HandlePacket(&proto.PacketContext{Direction: proto.ServerBound, Protocol: version.Minecraft_1_20_3.Protocol,
			Packet: p, Payload: []byte{0x04}})
	default:
		(&clientPlaySessionHandler{player: f.player}).handleKeepAlive(p)
	}
}

// newWrites returns, per backend index, the keep-alive ids written since the
// last call; any non-keep-alive packet is reported through bad.
func (f *c18Fixture) newWrites() (w map[int][]int64, bad string) {
	w = map[int][]int64{}
	for i, c := range f.conns {
		ps := c.snapshot()
		for _, p := range ps[f.seen[i]:] {
			k, ok := p.(*packet.KeepAlive)
			if !ok {
				bad = fmt.Sprintf("backend %d received %T", i, p)
				continue
			}
			w[i] = append(w[i], k.RandomID)
		}
		f.seen[i] = len(ps)
	}
	return w, bad
}

// ---------------------------------------------------------------- sequential run

type c18Model struct {
	b        []*c18MBackend
	cur, inf int
}

func (m *c18Model) newBackend(st string) int {
	m.b = append(m.b, &c18MBackend{st: st, asked: map[int64]int{}, answered: map[int64]int{}, evicted: map[int64]bool{}})
	return len(m.b) - 1
}

// reply returns the backend expected to receive the write (-1 none).
func (m *c18Model) reply(id int64) int {
	for _, r := range []int{m.cur, m.inf} {
		if r < 0 {
			continue
		}
		b := m.b[r]
		if !b.has(id) {
			continue
		}
		b.remove(id)
		b.answered[id]++
		if b.eligible() {
			return r
		}
		return -1
	}
	return -1
}

func c18ValidState(s string) bool {
	switch s {
	case "login", "config", "play", "closed", "noconn":
		return true
	}
	return false
}

func c18Run(c c18Case) verifkit.Result {
	f := c18NewFixture()
	m := &c18Model{cur: -1, inf: -1}
	labels := map[string]bool{}
	nt := false

	for step, op := range c.Ops {
		switch op.K {
		case "new":
			if !c18ValidState(op.St) || len(m.b) >= 6 {
				continue
			}
			i := f.newBackend(op.St)
			m.newBackend(op.St)
			f.player.setInFlightConnection(f.backends[i])
			m.inf = i
		case "promote":
			if m.inf < 0 {
				continue
			}
			f.player.setConnectedServer(f.backends[m.inf])
			m.cur, m.inf = m.inf, -1
			labels["switch"] = true
		case "abort":
			if m.inf < 0 {
				continue
			}
			f.player.resetInFlightConnection()
			m.inf = -1
		case "state":
			if op.B < 0 || op.B >= len(m.b) || !c18ValidState(op.St) {
				continue
			}
			f.setState(op.B, op.St)
			m.b[op.B].st = op.St
		case "ka":
			if op.B < 0 || op.B >= len(m.b) {
				continue
			}
			f.ka(op.B, op.ID, op.Via)
			m.b[op.B].ask(op.ID)
		case "burst":
			if op.B < 0 || op.B >= len(m.b) || op.N < 0 || op.N > 200 {
				continue
			}
			for k := 0; k < op.N; k++ {
				f.ka(op.B, op.ID+int64(k), op.Via)
				m.b[op.B].ask(op.ID + int64(k))
			}
			if len(m.b[op.B].evicted) > 0 {
				labels["over-64-pending"] = true
			}
		case "reply":
			// classification before the model consumes
			holders := 0
			for i, b := range m.b {
				if b.has(op.ID) {
					holders++
					if i != m.cur && i != m.inf {
						labels["pending-only-on-detached"] = true
					}
				}
			}
			if holders >= 2 {
				labels["same-id-on-two-backends"] = true
				nt = true
			}
			for _, r := range []int{m.cur, m.inf} {
				if r >= 0 && m.b[r].evicted[op.ID] {
					labels["reply-to-evicted"] = true
					nt = true
				}
				if r >= 0 && !m.b[r].has(op.ID) && m.b[r].answered[op.ID] > 0 {
					labels["reply-to-answered"] = true
				}
			}
			if op.Via == "initial" {
				// the handler that serves the client while the first backend connection is
				// being established does not deal with keep-alives at all: nothing reaches
				// a backend, nothing is consumed
				f.reply(op.ID, op.Via)
				labels["reply-via-initial-connect-handler"] = true
				w, bad := f.newWrites()
				if bad != "" || len(w) > 0 {
					return verifkit.Fail("forward:by-initial-connect-handler", "step %d %+v: a keep-alive the client sent while the initial-connect handler was active reached backends %v %s (pending ids are matched only by the play / config handlers)", step, op, w, bad)
				}
				continue
			}
			f.reply(op.ID, op.Via)
			want := m.reply(op.ID)
			if want >= 0 {
				labels["forwarded"] = true
				if want == m.inf {
					labels["forwarded-to-inflight"] = true
				}
			} else {
				labels["dropped"] = true
			}
			w, bad := f.newWrites()
			if bad != "" {
				return verifkit.Fail("forward:not-a-keepalive", "step %d %+v: %s", step, op, bad)
			}
			if r := c18JudgeReply(m, step, op, want, w); r != nil {
				return *r
			}
			continue
		default:
			continue
		}
		// steps that are not client replies must not write anything to any backend
		w, bad := f.newWrites()
		if bad != "" || len(w) > 0 {
			return verifkit.Fail("write-without-reply", "step %d %+v wrote to backends %v %s", step, op, w, bad)
		}
	}
	var ls []string
	for l := range labels {
		ls = append(ls, l)
	}
	sort.Strings(ls)
	return verifkit.Result{NonTrivial: nt, Labels: ls}
}

// c18JudgeReply compares the writes observed for one client reply with the
// model's expectation and classifies a mismatch by root cause.
func c18JudgeReply(m *c18Model, step int, op c18Op, want int, w map[int][]int64) *verifkit.Result {
	fail := func(key, format string, a ...any) *verifkit.Result {
		r := verifkit.Fail(key, "step %d reply id=%d via=%s (model: cur=%d inf=%d want-backend=%d) observed writes %v: %s",
			step, op.ID, op.Via, m.cur, m.inf, want, w, fmt.Sprintf(format, a...))
		return &r
	}
	total := 0
	for i, ids := range w {
		total += len(ids)
		for _, id := range ids {
			if id != op.ID {
				return fail("forward:wrong-id", "backend %d got id %d", i, id)
			}
		}
	}
	if total > 1 {
		return fail("forward:more-than-once", "one reply produced %d writes", total)
	}
	if total == 1 {
		var got int
		for i := range w {
			got = i
		}
		if got == want {
			return nil
		}
		b := m.b[got]
		// the model already consumed; reason on its bookkeeping
		switch {
		case b.asked[op.ID] == 0:
			return fail("forward:never-asked", "backend %d never sent this id", got)
		case got != m.cur && got != m.inf:
			return fail("forward:detached-backend", "backend %d is neither current nor in-flight", got)
		case b.evicted[op.ID]:
			return fail("forward:evicted-id", "id fell out of backend %d's bound of %d pending ids", got, c18Cap)
		case !b.has(op.ID) && want != got && b.answered[op.ID] > 0 && want == -1 && b.eligible():
			return fail("forward:already-answered", "backend %d's keep-alive %d was already answered", got, op.ID)
		case !b.eligible():
			return fail("forward:backend-not-config-or-play", "backend %d is in state %q", got, b.st)
		default:
			return fail("forward:wrong-backend", "expected backend %d", want)
		}
	}
	if want >= 0 {
		return fail("dropped:pending-reply", "backend %d has this id pending and is in %q", want, m.b[want].st)
	}
	return nil
}

// ---------------------------------------------------------------- generators

func c18GenID(t *rapid.T, bursts []c18Op) int64 {
	if len(bursts) > 0 && rapid.IntRange(0, 2).Draw(t, "fromBurst") == 0 {
		b := bursts[rapid.IntRange(0, len(bursts)-1).Draw(t, "burst")]
		n := int64(b.N)
		offs := []int64{0, 1, n - 65, n - 64, n - 63, n - 1, n / 2}
		o := offs[rapid.IntRange(0, len(offs)-1).Draw(t, "off")]
		if o < 0 {
			o = 0
		}
		return b.ID + o
	}
	return int64(rapid.IntRange(1, 5).Draw(t, "id"))
}

var (
	c18States  = []string{"play", "config", "play", "config", "login", "closed", "noconn"}
	c18KaVias  = []string{"play", "config", "transition"}
	c18RepVias = []string{"play", "config"}
)

func c18Gen(t *rapid.T) c18Case {
	var ops []c18Op
	nb, cur, inf := 0, -1, -1
	var bursts []c18Op
	n := rapid.IntRange(1, 40).Draw(t, "nops")
	add := func(op c18Op) { ops = append(ops, op) }
	// start with a connected backend most of the time
	if rapid.IntRange(0, 9).Draw(t, "startConnected") > 0 {
		add(c18Op{K: "new", St: "play"})
		add(c18Op{K: "promote"})
		nb, cur = 1, 0
	}
	for len(ops) < n+2 {
		k := rapid.IntRange(0, 19).Draw(t, "kind")
		switch {
		case k == 0 && nb < 5 && inf < 0:
			add(c18Op{K: "new", St: rapid.SampledFrom(c18States[:5]).Draw(t, "st")})
			inf = nb
			nb++
		case k == 1 && inf >= 0:
			add(c18Op{K: "promote"})
			cur, inf = inf, -1
		case k == 2 && inf >= 0:
			add(c18Op{K: "abort"})
			inf = -1
		case k == 3 && nb > 0:
			add(c18Op{K: "state", B: rapid.IntRange(0, nb-1).Draw(t, "b"), St: rapid.SampledFrom(c18States).Draw(t, "st")})
		case k == 4 && nb > 0 && len(bursts) < 2:
			op := c18Op{K: "burst", B: rapid.IntRange(0, nb-1).Draw(t, "b"), ID: int64(100 * (len(bursts) + 1)),
				N: rapid.IntRange(60, 70).Draw(t, "n"), Via: rapid.SampledFrom(c18KaVias).Draw(t, "via")}
			// a second burst may reuse the id range of the first (same ids on two backends)
			if len(bursts) == 1 && rapid.Bool().Draw(t, "sameRange") {
				op.ID = bursts[0].ID
			}
			bursts = append(bursts, op)
			add(op)
		case k <= 11 && nb > 0:
			// bias keep-alives towards the role-holding backends
			b := rapid.IntRange(0, nb-1).Draw(t, "b")
			if r := rapid.IntRange(0, 3).Draw(t, "role"); r == 0 && cur >= 0 {
				b = cur
			} else if r == 1 && inf >= 0 {
				b = inf
			}
			add(c18Op{K: "ka", B: b, ID: c18GenID(t, bursts), Via: rapid.SampledFrom(c18KaVias).Draw(t, "via")})
		default:
			add(c18Op{K: "reply", ID: c18GenID(t, bursts), Via: rapid.SampledFrom([]string{"play", "config", "play", "config", "play", "config", "initial"}).Draw(t, "via")})
		}
	}
	return c18Case{Ops: ops}
}

// ---------------------------------------------------------------- concurrent variant

// c18RaceCase: a sequential setup (judged by the exact model), then one batch
// of goroutines handling client replies and backend keep-alives concurrently
// (roles and states fixed), then a deterministic drain (two replies per id).
// Verdicts are conservation bounds over the whole post-setup history; they hold
// for every interleaving, so no verdict depends on the schedule that occurred.
type c18RaceCase struct {
	Setup   []c18Op   `json:"setup"`
	Workers [][]c18Op `json:"workers"` // only ka / reply ops
}

func c18RunRace(c c18RaceCase) verifkit.Result {
	// phase 1: setup through the sequential runner's logic (re-run for verdict)
	if r := c18Run(c18Case{Ops: c.Setup}); r.V != nil {
		return r
	}
	// rebuild the same state (c18Run owns its fixture); replay setup silently
	f := c18NewFixture()
	m := &c18Model{cur: -1, inf: -1}
	for _, op := range c.Setup {
		switch op.K {
		case "new":
			if !c18ValidState(op.St) || len(m.b) >= 6 {
				continue
			}
			i := f.newBackend(op.St)
			m.newBackend(op.St)
			f.player.setInFlightConnection(f.backends[i])
			m.inf = i
		case "promote":
			if m.inf >= 0 {
				f.player.setConnectedServer(f.backends[m.inf])
				m.cur, m.inf = m.inf, -1
			}
		case "abort":
			if m.inf >= 0 {
				f.player.resetInFlightConnection()
				m.inf = -1
			}
		case "state":
			if op.B >= 0 && op.B < len(m.b) && c18ValidState(op.St) {
				f.setState(op.B, op.St)
				m.b[op.B].st = op.St
			}
		case "ka":
			if op.B >= 0 && op.B < len(m.b) {
				f.ka(op.B, op.ID, op.Via)
				m.b[op.B].ask(op.ID)
			}
		case "reply":
			f.reply(op.ID, op.Via)
			m.reply(op.ID)
		}
	}
	f.newWrites() // discard setup writes

	type key struct {
		b  int
		id int64
	}
	p0 := map[key]int{}
	ids := map[int64]bool{}
	for i, b := range m.b {
		for _, id := range b.pending {
			p0[key{i, id}] = 1
			ids[id] = true
		}
	}
	sets := map[key]int{}
	replies := map[int64]int{}
	nWorkersReplyingSame := map[int64]int{}
	for _, w := range c.Workers {
		seen := map[int64]bool{}
		for _, op := range w {
			switch op.K {
			case "ka":
				if op.B >= 0 && op.B < len(m.b) {
					sets[key{op.B, op.ID}]++
					ids[op.ID] = true
				}
			case "reply":
				replies[op.ID]++
				ids[op.ID] = true
				if !seen[op.ID] {
					seen[op.ID] = true
					nWorkersReplyingSame[op.ID]++
				}
			}
		}
	}

	// phase 2: concurrent batch
	start := make(chan struct{})
	var wg sync.WaitGroup
	wr := verifkit.Watch(10*time.Second, "proxy.", func() {
		for _, w := range c.Workers {
			w := w
			wg.Add(1)
			go func() {
				defer wg.Done()
				<-start
				for _, op := range w {
					switch op.K {
					case "ka":
						if op.B >= 0 && op.B < len(m.b) {
							f.ka(op.B, op.ID, op.Via)
						}
					case "reply":
						f.reply(op.ID, op.Via)
					}
				}
			}()
		}
		close(start)
		wg.Wait()
	})
	switch wr.Outcome {
	case verifkit.Deadlocked:
		return verifkit.Fail("deadlock:keepalive", "concurrent keep-alive handling blocked:\n%s", wr.Stack)
	case verifkit.Slow:
		return verifkit.Result{Inconclusive: true, Labels: []string{"slow"}}
	case verifkit.Panicked:
		return verifkit.Fail("panic:keepalive", "%v\n%s", wr.PanicValue, wr.PanicStack)
	}

	// phase 3: drain — two replies per id (one can reach the current, one the in-flight backend)
	var idList []int64
	for id := range ids {
		idList = append(idList, id)
	}
	sort.Slice(idList, func(i, j int) bool { return idList[i] < idList[j] })
	for _, id := range idList {
		f.reply(id, "play")
		f.reply(id, "config")
		replies[id] += 2
	}

	w, bad := f.newWrites()
	if bad != "" {
		return verifkit.Fail("forward:not-a-keepalive", "%s", bad)
	}
	writes := map[key]int{}
	perID := map[int64]int{}
	for b, l := range w {
		for _, id := range l {
			writes[key{b, id}]++
			perID[id]++
		}
	}
	labels := map[string]bool{}
	nt := false
	for k, n := range writes {
		b := m.b[k.b]
		role := k.b == m.cur || k.b == m.inf
		switch {
		case !role:
			return verifkit.Fail("forward:detached-backend", "backend %d (neither current nor in-flight) got id %d x%d", k.b, k.id, n)
		case !b.eligible():
			return verifkit.Fail("forward:backend-not-config-or-play", "backend %d in state %q got id %d", k.b, b.st, k.id)
		case p0[k]+sets[k] == 0:
			return verifkit.Fail("forward:never-asked", "backend %d got id %d which it has not pending (asked before: %d)", k.b, k.id, b.asked[k.id])
		case n > p0[k]+sets[k]:
			return verifkit.Fail("forward:more-than-once", "backend %d got id %d %d times but asked it %d time(s) (pending before batch %d, asked in batch %d)",
				k.b, k.id, n, p0[k]+sets[k], p0[k], sets[k])
		}
	}
	for id, n := range perID {
		if n > replies[id] {
			return verifkit.Fail("forward:more-writes-than-replies", "id %d: %d writes for %d client replies", id, n, replies[id])
		}
	}
	// after the drain every id asked by an eligible role-holding backend must have been forwarded
	for _, r := range []int{m.cur, m.inf} {
		if r < 0 || !m.b[r].eligible() {
			continue
		}
		for _, id := range idList {
			k := key{r, id}
			if p0[k]+sets[k] > 0 && writes[k] == 0 {
				return verifkit.Fail("dropped:pending-reply", "backend %d asked id %d (pending before %d, asked in batch %d) but no reply reached it", r, id, p0[k], sets[k])
			}
			if p0[k] == 1 && sets[k] == 0 && writes[k] != 1 {
				return verifkit.Fail("forward:more-than-once", "backend %d id %d pending once, written %d times", r, id, writes[k])
			}
		}
	}
	for id, n := range nWorkersReplyingSame {
		if n >= 2 {
			for _, r := range []int{m.cur, m.inf} {
				if r >= 0 && p0[key{r, id}]+sets[key{r, id}] > 0 {
					labels["concurrent-replies-same-pending-id"] = true
					nt = true
				}
			}
		}
	}
	for k := range sets {
		if replies[k.id] > 2 {
			labels["ka-races-with-reply"] = true
		}
	}
	if m.cur >= 0 && m.inf >= 0 {
		for _, id := range idList {
			if p0[key{m.cur, id}]+sets[key{m.cur, id}] > 0 && p0[key{m.inf, id}]+sets[key{m.inf, id}] > 0 {
				labels["same-id-on-two-backends"] = true
				nt = true
			}
		}
	}
	var ls []string
	for l := range labels {
		ls = append(ls, l)
	}
	sort.Strings(ls)
	return verifkit.Result{NonTrivial: nt, Labels: ls}
}

func c18GenRace(t *rapid.T) c18RaceCase {
	var setup []c18Op
	setup = append(setup, c18Op{K: "new", St: rapid.SampledFrom(c18States[:5]).Draw(t, "curSt")}, c18Op{K: "promote"})
	nb := 1
	if rapid.IntRange(0, 3).Draw(t, "withInflight") > 0 {
		setup = append(setup, c18Op{K: "new", St: rapid.SampledFrom(c18States[:5]).Draw(t, "infSt")})
		nb = 2
	}
	for i, n := 0, rapid.IntRange(0, 8).Draw(t, "nsetup"); i < n; i++ {
		setup = append(setup, c18Op{K: "ka", B: rapid.IntRange(0, nb-1).Draw(t, "b"), ID: int64(rapid.IntRange(1, 4).Draw(t, "id")),
			Via: rapid.SampledFrom(c18KaVias).Draw(t, "via")})
	}
	nw := rapid.IntRange(2, 6).Draw(t, "workers")
	workers := make([][]c18Op, nw)
	hot := int64(rapid.IntRange(1, 4).Draw(t, "hot"))
	for i := range workers {
		for j, n := 0, rapid.IntRange(1, 6).Draw(t, "nw"); j < n; j++ {
			id := hot
			if rapid.IntRange(0, 2).Draw(t, "other") == 0 {
				id = int64(rapid.IntRange(1, 4).Draw(t, "id"))
			}
			if rapid.IntRange(0, 3).Draw(t, "isKa") == 0 {
				workers[i] = append(workers[i], c18Op{K: "ka", B: rapid.IntRange(0, nb-1).Draw(t, "b"), ID: id,
					Via: rapid.SampledFrom(c18KaVias).Draw(t, "via")})
			} else {
				workers[i] = append(workers[i], c18Op{K: "reply", ID: id, Via: rapid.SampledFrom(c18RepVias).Draw(t, "via")})
			}
		}
	}
	return c18RaceCase{Setup: setup, Workers: workers}
}

func TestVerif_C18(t *testing.T) {
	verifkit.Check(t, "C18", "history",
		"op histories (<=42 ops) over {new in-flight backend, promote, abort, backend state login/config/play/closed/no-conn, backend keep-alive via config/play/transition handler (ids 1..5 so ids repeat and collide across backends), bursts of 60..70 keep-alives (crossing the 64 bound), client reply via play/config handler or via the initial-connect handler (never forwarded, nothing consumed)}; every step compared with an exact model (LRU-64 pending set per backend, current before in-flight); non-trivial = a reply whose id is pending on two backends or was evicted by the bound",
		c18Gen, c18Run)
}

// ---- concurrent replies to one pending id, many rounds per case

type c18HammerCase struct {
	Rounds  int    `json:"rounds"`
	Workers int    `json:"workers"` // goroutines replying to the same id at once
	St      string `json:"st"`      // state of the current backend (play | config)
	Via     string `json:"via"`     // handler the client replies go through
	KaVia   string `json:"ka_via"`
}

// c18RunHammer: per round the current backend asks one keep-alive id once, then
// Workers goroutines released from one barrier all handle a client reply with
// that id. Whatever the interleaving, the backend must receive the reply exactly
// once (asked once, at least one reply, nothing else pending under that id).
func c18RunHammer(c c18HammerCase) verifkit.Result {
	if c.Rounds < 1 || c.Rounds > 2000 || c.Workers < 2 || c.Workers > 16 || (c.St != "play" && c.St != "config") {
		return verifkit.Result{Inconclusive: true, Labels: []string{"invalid-case"}}
	}
	f := c18NewFixture()
	b := f.newBackend(c.St)
	f.player.setInFlightConnection(f.backends[b])
	f.player.setConnectedServer(f.backends[b])
	f.newWrites()
	var v *verifkit.Violation
	wr := verifkit.Watch(20*time.Second, "proxy.", func() {
		for r := 0; r < c.Rounds && v == nil; r++ {
			id := int64(r%7 + 1)
			f.ka(b, id, c.KaVia)
			start := make(chan struct{})
			var wg sync.WaitGroup
			for i := 0; i < c.Workers; i++ {
				wg.Add(1)
				go func() {
					defer wg.Done()
					<-start
					f.reply(id, c.Via)
				}()
			}
			close(start)
			wg.Wait()
			w, bad := f.newWrites()
			if bad != "" {
				v = verifkit.Violationf("forward:not-a-keepalive", "%s", bad)
				return
			}
			n := 0
			for _, got := range w[b] {
				if got == id {
					n++
				}
			}
			if n != 1 {
				key := "forward:more-than-once"
				if n == 0 {
					key = "dropped:pending-reply"
				}
				v = verifkit.Violationf(key, "round %d: the backend asked keep-alive id %d once and %d handlers processed the client's reply concurrently; the backend received it %d times (all writes of the round: %v)", r, id, c.Workers, n, w)
			}
		}
	})
	switch wr.Outcome {
	case verifkit.Deadlocked:
		return verifkit.Fail("deadlock:keepalive", "concurrent keep-alive handling blocked:\n%s", wr.Stack)
	case verifkit.Slow:
		return verifkit.Result{Inconclusive: true, Labels: []string{"slow"}}
	case verifkit.Panicked:
		return verifkit.Fail("panic:keepalive", "%v\n%s", wr.PanicValue, wr.PanicStack)
	}
	if v != nil {
		return verifkit.Result{V: v}
	}
	return verifkit.Result{NonTrivial: true, Labels: []string{fmt.Sprintf("workers:%d", c.Workers), "state:" + c.St}}
}

func c18GenHammer(t *rapid.T) c18HammerCase {
	return c18HammerCase{
		Rounds:  rapid.SampledFrom([]int{50, 100, 100, 200}).Draw(t, "rounds"),
		Workers: rapid.SampledFrom([]int{2, 2, 3, 4, 8}).Draw(t, "workers"),
		St:      rapid.SampledFrom([]string{"play", "config"}).Draw(t, "st"),
		Via:     rapid.SampledFrom(c18RepVias).Draw(t, "via"),
		KaVia:   rapid.SampledFrom(c18KaVias).Draw(t, "kaVia"),
	}
}

// TestVerif_C18Hammer is its own (race) unit so that its case count can differ
// from the concurrent sub-check's.
func TestVerif_C18Hammer(t *testing.T) {
	verifkit.Check(t, "C18", "concurrent-same-id",
		"50..200 rounds per case: the current backend (play or config state) asks one keep-alive id once, then 2..8 goroutines released from one barrier all handle the client's reply with that id (play or config client handler); oracle: the backend receives the reply exactly once in every round; race detector on; every case is non-trivial",
		c18GenHammer, c18RunHammer)
}

func TestVerif_C18Race(t *testing.T) {
	verifkit.Check(t, "C18", "concurrent",
		"sequential setup (current + optional in-flight backend in any state, 0..8 keep-alives), then 2..6 goroutines released from one barrier each handling 1..6 client replies / backend keep-alives biased to one hot id, then a drain of two replies per id; conservation bounds valid for every interleaving (writes(b,id) <= times asked, = 1 if asked once and no concurrent ask, total writes <= replies, only eligible role-holding backends); race detector on; non-trivial = >=2 goroutines reply concurrently to an id pending on a role-holding backend, or same id pending on both backends",
		c18GenRace, c18RunRace)
}
