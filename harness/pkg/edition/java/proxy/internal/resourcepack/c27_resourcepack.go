//go:build verif

package resourcepack

// C27: resource-pack prompts never block and follow the client-version rules.
//
// A case is a history of queue / response / remove / clear operations run
// against the real handler chosen by NewHandler for a generated protocol, with a
// recording Player fake. Every call is executed under the deadlock sensor
// (verifkit.Watch). The oracle is a reference model written from Velocity's
// LegacyResourcePackHandler / Legacy117ResourcePackHandler /
// ModernResourcePackHandler and the property statement; it never calls the code
// under test. Where Velocity's behaviour is not known with certainty the model
// carries an explicit "unknown" state and nothing is asserted.

import (
	"encoding/hex"
	"encoding/json"
	"fmt"
	"os"
	"sort"
	"strings"
	"sync"
	"testing"
	"time"

	"github.com/robinbraemer/event"
	"go.minekube.com/common/minecraft/component"
	"pgregory.net/rapid"

	"go.minekube.com/gate/pkg/edition/java/proto/packet"
	"go.minekube.com/gate/pkg/edition/java/proto/state"
	"go.minekube.com/gate/pkg/gate/proto"
	"go.minekube.com/gate/pkg/internal/verifkit"
	"go.minekube.com/gate/pkg/util/uuid"
)

// ---------------------------------------------------------------- case

// Response status numbers as defined by the vanilla protocol (wire values).
const (
	c27Successful     = 0
	c27Declined       = 1
	c27FailedDownload = 2
	c27Accepted       = 3
	c27Downloaded     = 4
	c27InvalidURL     = 5
	c27FailedReload   = 6
	c27Discarded      = 7
)

var c27StatusNames = []string{"successful", "declined", "failed-download", "accepted", "downloaded", "invalid-url", "failed-reload", "discarded"}

type c27Pack struct {
	N       int  `json:"n"`    // unique number of the pack inside the case; URL is derived from it
	ID      int  `json:"id"`   // index into the id pool (1..4)
	Hash    int  `json:"hash"` // 0 = no hash, k>0 = k-th pool hash
	Forced  bool `json:"forced"`
	Backend bool `json:"backend"` // true: origin downstream server; false: plugin on proxy
}

type c27Op struct {
	Op       string   `json:"op"` // queue | resp | remove | clear | backend
	Pack     *c27Pack `json:"pack,omitempty"`
	ID       int      `json:"id,omitempty"`     // resp/remove: id pool index (only meaningful for 1.20.3+)
	Status   int      `json:"status,omitempty"` // resp
	ViaCheck bool     `json:"via_check,omitempty"`
	On       bool     `json:"on,omitempty"` // backend: in-flight backend present afterwards
}

type c27Case struct {
	Proto   int     `json:"proto"`
	Backend bool    `json:"backend"` // in-flight backend connection present at start
	Ops     []c27Op `json:"ops"`
}

func c27UUID(idx int) uuid.UUID {
	if idx == 0 {
		return uuid.Nil
	}
	return uuid.UUID{0xC2, 0x70, 0, 0, 0, 0, 0x40, 0, 0x80, 0, 0, 0, 0, 0, 0, byte(idx)}
}

func c27Hash(k int) []byte {
	if k == 0 {
		return nil
	}
	h := make([]byte, 20)
	for i := range h {
		h[i] = byte(k*16 + i)
	}
	return h
}

func c27URL(n int) string { return fmt.Sprintf("https://packs.example/%d.zip", n) }

func c27Family(protocol int) string {
	switch {
	case protocol < 755:
		return "legacy"
	case protocol < 765:
		return "legacy117"
	default:
		return "modern"
	}
}

func c27Intermediate(status int) bool { return status == c27Accepted || status == c27Downloaded }

// ---------------------------------------------------------------- expectations

type c27Report struct {
	id        int // id pool index, -1 = do not compare
	status    int
	hashKnown bool
	hash      string
}

type c27Expect struct {
	prompts     []*c27Pack // request packets written to the player, in order
	// promptAnyOf: exactly one prompt is expected and it may be for any of these
	// packs (1.20.3+: the statement only demands tracking per id, not an order
	// among several packs queued under the same id). chosen() tells the model.
	promptAnyOf []*c27Pack
	chosen      func(*c27Pack)
	reports     []c27Report
	reportsSkip bool // reporting not asserted for this op (model does not know)
	orderedRep  bool
	disconnects int
	removeRet   int // -1 not asserted, 0 false, 1 true
	autoDecl    int
}

// ---------------------------------------------------------------- legacy model

// c27LegacyModel follows Velocity's LegacyResourcePackHandler (and its 1.17
// subclass): one FIFO queue, the head is the only prompted pack, ACCEPTED and
// DOWNLOADED peek, every other status polls the head and ticks the queue;
// previousResourceResponse is unset until the client answered, so nothing is
// auto-declined before the client declined a pack.
type c27LegacyModel struct {
	proto    int
	queue    []*c27Pack
	prev     int // -1 unset, 0 client declined last, 1 client accepted last
	pending  *c27Pack
	applied  *c27Pack
	declined bool // the client (not the proxy) has declined at least once
}

func (m *c27LegacyModel) advance(hasBackend bool, e *c27Expect) {
	for len(m.queue) > 0 {
		head := m.queue[0]
		if m.prev == 0 && !(head.Forced && m.proto >= 755) {
			// auto-decline without prompting
			m.queue = m.queue[1:]
			e.autoDecl++
			if head.Forced {
				e.disconnects++
			}
			if head.Backend && hasBackend {
				e.reports = append(e.reports, c27Report{id: head.ID, status: c27Declined})
			}
			continue
		}
		e.prompts = append(e.prompts, head)
		return
	}
}

func (m *c27LegacyModel) queueOp(p *c27Pack, hasBackend bool) c27Expect {
	e := c27Expect{removeRet: -1}
	m.queue = append(m.queue, p)
	if len(m.queue) == 1 {
		m.advance(hasBackend, &e)
	}
	return e
}

func (m *c27LegacyModel) respOp(id, status int, hash string, hasBackend bool) c27Expect {
	e := c27Expect{removeRet: -1, orderedRep: false}
	var queued *c27Pack
	if len(m.queue) > 0 {
		queued = m.queue[0]
	}
	peek := c27Intermediate(status)
	if !peek && queued != nil {
		m.queue = m.queue[1:]
	}
	if status == c27Declined && queued != nil && queued.Forced {
		e.disconnects++
	}
	switch status {
	case c27Accepted:
		m.prev = 1
		m.pending = queued
	case c27Declined:
		m.prev = 0
		m.declined = true
	case c27Successful:
		m.applied = queued
		m.pending = nil
	case c27FailedDownload:
		m.pending = nil
	case c27Discarded:
		if queued != nil && queued.ID != 0 && m.applied != nil && m.applied.ID == queued.ID {
			m.applied = nil
		}
	}
	if (queued == nil || queued.Backend) && hasBackend {
		e.reports = append(e.reports, c27Report{id: id, status: status, hashKnown: true, hash: hash})
	}
	if !peek {
		m.advance(hasBackend, &e)
	}
	return e
}

func (m *c27LegacyModel) appliedByHash(k int) (bool, bool) {
	if k == 0 {
		return false, false
	}
	return m.applied != nil && m.applied.Hash == k, true
}

// ---------------------------------------------------------------- modern model

type c27Tri struct {
	known bool
	p     *c27Pack // nil = absent
}

// c27ModernModel follows Velocity's ModernResourcePackHandler: outstanding packs
// are a list per id, only the head of each list is prompted. pending/applied are
// three-valued: statuses for which I am not certain what Velocity does to the
// maps (DECLINED, FAILED_DOWNLOAD, INVALID_URL, FAILED_RELOAD) make a present
// entry "unknown" so nothing is asserted about it until it is overwritten.
type c27ModernModel struct {
	out     map[int][]*c27Pack
	pending map[int]c27Tri
	applied map[int]c27Tri
}

func c27NewModern() *c27ModernModel {
	return &c27ModernModel{out: map[int][]*c27Pack{}, pending: map[int]c27Tri{}, applied: map[int]c27Tri{}}
}

func (m *c27ModernModel) get(mm map[int]c27Tri, id int) c27Tri {
	t, ok := mm[id]
	if !ok {
		return c27Tri{known: true}
	}
	return t
}

func (m *c27ModernModel) queueOp(p *c27Pack) c27Expect {
	e := c27Expect{removeRet: -1}
	m.out[p.ID] = append(m.out[p.ID], p)
	if len(m.out[p.ID]) == 1 {
		e.prompts = append(e.prompts, p)
	}
	return e
}

func (m *c27ModernModel) respOp(id, status int, hash string, hasBackend bool) c27Expect {
	e := c27Expect{removeRet: -1}
	var queued *c27Pack
	if l := m.out[id]; len(l) > 0 {
		queued = l[0]
	}
	peek := c27Intermediate(status)
	if !peek && queued != nil {
		m.out[id] = m.out[id][1:]
	}
	if status == c27Declined && queued != nil && queued.Forced {
		e.disconnects++
	}
	reportFor := queued
	switch status {
	case c27Accepted:
		if queued != nil {
			m.pending[id] = c27Tri{known: true, p: queued}
		}
	case c27Successful:
		if queued != nil {
			m.applied[id] = c27Tri{known: true, p: queued}
		} else {
			// a repeated SUCCESSFUL for a pack that is already applied is
			// attributed to the applied pack
			a := m.get(m.applied, id)
			if !a.known {
				e.reportsSkip = true
			} else if a.p != nil {
				reportFor = a.p
			}
		}
		m.pending[id] = c27Tri{known: true}
	case c27Discarded:
		m.pending[id] = c27Tri{known: true}
		m.applied[id] = c27Tri{known: true}
	case c27Declined, c27FailedDownload, c27InvalidURL, c27FailedReload:
		if t := m.get(m.pending, id); t.p != nil || !t.known {
			m.pending[id] = c27Tri{known: false}
		}
		if t := m.get(m.applied, id); t.p != nil || !t.known {
			m.applied[id] = c27Tri{known: false}
		}
	}
	if (reportFor == nil || reportFor.Backend) && hasBackend {
		e.reports = append(e.reports, c27Report{id: id, status: status, hashKnown: true, hash: hash})
	}
	if !peek {
		if l := m.out[id]; len(l) == 1 {
			e.prompts = append(e.prompts, l[0])
		} else if len(l) > 1 {
			e.promptAnyOf = append([]*c27Pack(nil), l...)
			e.chosen = func(p *c27Pack) {
				nl := []*c27Pack{p}
				for _, q := range m.out[id] {
					if q != p {
						nl = append(nl, q)
					}
				}
				m.out[id] = nl
			}
		}
	}
	return e
}

func (m *c27ModernModel) removeOp(id int) c27Expect {
	e := c27Expect{removeRet: -1}
	delete(m.out, id)
	a, p := m.get(m.applied, id), m.get(m.pending, id)
	switch {
	case (a.known && a.p != nil) || (p.known && p.p != nil):
		e.removeRet = 1
	case a.known && p.known:
		e.removeRet = 0
	}
	m.applied[id] = c27Tri{known: true}
	m.pending[id] = c27Tri{known: true}
	return e
}

func (m *c27ModernModel) clearOp() {
	m.out = map[int][]*c27Pack{}
	m.pending = map[int]c27Tri{}
	m.applied = map[int]c27Tri{}
}

func (m *c27ModernModel) appliedByHash(k int) (bool, bool) {
	if k == 0 {
		return false, false
	}
	unknown := false
	for _, t := range m.applied {
		if !t.known {
			unknown = true
		} else if t.p != nil && t.p.Hash == k {
			return true, true
		}
	}
	return false, !unknown
}

// ---------------------------------------------------------------- fakes

type c27Writer struct {
	mu   sync.Mutex
	pkts []proto.Packet
}

func (w *c27Writer) WritePacket(p proto.Packet) error {
	w.mu.Lock()
	w.pkts = append(w.pkts, p)
	w.mu.Unlock()
	return nil
}

func (w *c27Writer) take() []proto.Packet {
	w.mu.Lock()
	defer w.mu.Unlock()
	out := w.pkts
	w.pkts = nil
	return out
}

type c27Player struct {
	c27Writer
	protocol    proto.Protocol
	backend     *c27Writer
	hasBackend  bool
	disconnects int
}

func (p *c27Player) ID() uuid.UUID                          { return c27UUID(200) }
func (p *c27Player) BundleHandler() *BundleDelimiterHandler { return nil }
func (p *c27Player) State() *state.Registry                 { return state.Play }
func (p *c27Player) Protocol() proto.Protocol               { return p.protocol }
func (p *c27Player) BackendInFlight() proto.PacketWriter {
	p.mu.Lock()
	defer p.mu.Unlock()
	if !p.hasBackend {
		return nil
	}
	return p.backend
}
func (p *c27Player) Disconnect(component.Component) {
	p.mu.Lock()
	p.disconnects++
	p.mu.Unlock()
}
func (p *c27Player) takeDisconnects() int {
	p.mu.Lock()
	defer p.mu.Unlock()
	n := p.disconnects
	p.disconnects = 0
	return n
}

// ---------------------------------------------------------------- deadlock memo

// A self-deadlock cannot be joined, so the goroutine of that one call leaks.
// The verdict for an identical history prefix is remembered for the rest of the
// process so that shrinking and regression re-runs do not leak (and wait) again.
var (
	c27MemoMu sync.Mutex
	c27Memo   = map[string]*verifkit.Violation{}
)

func c27PrefixKey(c c27Case, upto int) string {
	cc := c
	cc.Ops = c.Ops[:upto+1]
	b, _ := json.Marshal(cc)
	return string(b)
}

const c27WatchBound = 5 * time.Second

// ---------------------------------------------------------------- run

func c27Run(c c27Case) verifkit.Result {
	fam := c27Family(c.Proto)
	marker := "resourcepack.(*legacyHandler)"
	if fam == "modern" {
		marker = "resourcepack.(*modernHandler)"
	}
	keyFam := fam
	if fam == "legacy117" {
		keyFam = "legacy" // same code: legacy117Handler delegates to legacyHandler
	}

	mgr := event.New()
	pl := &c27Player{protocol: proto.Protocol(c.Proto), backend: &c27Writer{}, hasBackend: c.Backend}
	h := NewHandler(pl, mgr)
	switch fam {
	case "legacy":
		if _, ok := h.(*legacyHandler); !ok {
			return verifkit.Fail("handler-kind:"+fam, "NewHandler(proto %d) = %T", c.Proto, h)
		}
	case "legacy117":
		if _, ok := h.(*legacy117Handler); !ok {
			return verifkit.Fail("handler-kind:"+fam, "NewHandler(proto %d) = %T", c.Proto, h)
		}
	default:
		if _, ok := h.(*modernHandler); !ok {
			return verifkit.Fail("handler-kind:"+fam, "NewHandler(proto %d) = %T", c.Proto, h)
		}
	}

	lm := &c27LegacyModel{proto: c.Proto, prev: -1}
	mm := c27NewModern()
	infos := map[int]*Info{}
	hasBackend := c.Backend

	labels := map[string]bool{fam: true}
	queuedBeforeFirstResp, sawResp, declineThenQueue, sawDecline := 0, false, false, false
	maxOutstanding := 0

	watch := func(fn func()) verifkit.WatchResult { return verifkit.Watch(c27WatchBound, marker, fn) }

	// call runs one handler call under the sensor; a non-nil result ends the case.
	call := func(i int, site string, unsolicited bool, fn func()) *verifkit.Result {
		c27MemoMu.Lock()
		var v *verifkit.Violation
		if len(c27Memo) > 0 {
			v = c27Memo[c27PrefixKey(c, i)+"|"+site]
		}
		c27MemoMu.Unlock()
		if v != nil {
			return &verifkit.Result{V: v}
		}
		wr := watch(fn)
		switch wr.Outcome {
		case verifkit.Returned:
			mgr.Wait()
			return nil
		case verifkit.Deadlocked:
			v := verifkit.Violationf("deadlock:"+keyFam+"."+site,
				"op %d (%s, proto %d): call did not return and its goroutine is parked on a lock inside the handler:\n%s", i, site, c.Proto, wr.Stack)
			c27MemoMu.Lock()
			c27Memo[c27PrefixKey(c, i)+"|"+site] = v
			c27MemoMu.Unlock()
			return &verifkit.Result{V: v}
		case verifkit.Panicked:
			mgr.Wait()
			key := "panic:" + keyFam + "." + site
			if unsolicited {
				key += ":unsolicited"
			}
			r := verifkit.Fail(key, "op %d (%s, proto %d) panicked: %v\n%s", i, site, c.Proto, wr.PanicValue, wr.PanicStack)
			return &r
		default:
			return &verifkit.Result{Inconclusive: true, Labels: []string{fam, "slow"}}
		}
	}

	for i, op := range c.Ops {
		var exp c27Expect
		exp.removeRet = -1
		switch op.Op {
		case "backend":
			hasBackend = op.On
			pl.mu.Lock()
			pl.hasBackend = op.On
			pl.mu.Unlock()
			continue

		case "queue":
			p := op.Pack
			origin := PluginOnProxyOrigin
			if p.Backend {
				origin = DownstreamServerOrigin
			}
			info := &Info{ID: c27UUID(p.ID), URL: c27URL(p.N), Hash: c27Hash(p.Hash), ShouldForce: p.Forced, Origin: origin}
			infos[p.N] = info
			if op.ViaCheck {
				var want, known bool
				if fam == "modern" {
					want, known = mm.appliedByHash(p.Hash)
				} else {
					want, known = lm.appliedByHash(p.Hash)
				}
				if known {
					var got bool
					if r := call(i, "HasPackAppliedByHash", false, func() { got = h.HasPackAppliedByHash(info.Hash) }); r != nil {
						return *r
					}
					if got != want {
						return verifkit.Fail("applied-by-hash:"+keyFam, "op %d: HasPackAppliedByHash = %v, model says %v", i, got, want)
					}
					if want {
						labels["queue-skipped-already-applied"] = true
						continue // real callers do not queue an already applied pack
					}
				}
			}
			if !sawResp {
				queuedBeforeFirstResp++
			}
			if sawDecline {
				declineThenQueue = true
			}
			if fam == "modern" {
				exp = mm.queueOp(p)
			} else {
				exp = lm.queueOp(p, hasBackend)
			}
			var err error
			if r := call(i, "QueueResourcePack", false, func() { err = h.QueueResourcePack(info) }); r != nil {
				return *r
			}
			if err != nil {
				return verifkit.Fail("error:"+keyFam+".QueueResourcePack", "op %d: unexpected error with an always-accepting writer: %v", i, err)
			}

		case "resp":
			sawResp = true
			if op.Status == c27Declined {
				sawDecline = true
			}
			id := op.ID
			if fam != "modern" {
				id = 0 // the packet has no id before 1.20.3
			}
			hash := fmt.Sprintf("h%d", i)
			unsolicited := false
			if fam == "modern" {
				unsolicited = len(mm.out[id]) == 0
				exp = mm.respOp(id, op.Status, hash, hasBackend)
			} else {
				unsolicited = len(lm.queue) == 0
				exp = lm.respOp(id, op.Status, hash, hasBackend)
			}
			if unsolicited {
				labels["resp-unsolicited"] = true
			}
			labels["resp-"+c27StatusNames[op.Status]] = true
			bundle := BundleForResponse(&packet.ResourcePackResponse{ID: c27UUID(id), Hash: hash, Status: packet.ResponseStatus(op.Status)})
			var err error
			if r := call(i, "OnResourcePackResponse", unsolicited, func() { _, err = h.OnResourcePackResponse(bundle) }); r != nil {
				return *r
			}
			if err != nil {
				return verifkit.Fail("error:"+keyFam+".OnResourcePackResponse", "op %d: unexpected error with always-accepting writers: %v", i, err)
			}

		case "remove":
			if fam != "modern" {
				continue // no remove packet exists before 1.20.3; callers guard on the version
			}
			exp = mm.removeOp(op.ID)
			var got bool
			if r := call(i, "Remove", false, func() { got = h.Remove(c27UUID(op.ID)) }); r != nil {
				return *r
			}
			if exp.removeRet >= 0 && got != (exp.removeRet == 1) {
				return verifkit.Fail("remove-result:modern", "op %d: Remove(id %d) = %v, model says %v", i, op.ID, got, exp.removeRet == 1)
			}
			labels["remove"] = true

		case "clear":
			if fam == "modern" {
				mm.clearOp()
			} else {
				lm.applied = nil
			}
			if r := call(i, "ClearAppliedResourcePacks", false, func() { h.ClearAppliedResourcePacks() }); r != nil {
				return *r
			}
			labels["clear"] = true
		default:
			panic("c27: unknown op " + op.Op)
		}

		if exp.autoDecl > 0 {
			labels["auto-decline"] = true
		}

		// ---- prompts written to the player
		gotPl := pl.take()
		if exp.promptAnyOf != nil {
			var pick *c27Pack
			if len(gotPl) == 1 {
				if req, ok := gotPl[0].(*packet.ResourcePackRequest); ok {
					for _, p := range exp.promptAnyOf {
						if req.URL == c27URL(p.N) {
							pick = p
						}
					}
				}
			}
			if pick == nil {
				return verifkit.Fail("prompt:next-of-id:"+keyFam, "op %d %s: player received %s, model expects exactly one prompt for one of the packs %s waiting under that id",
					i, c27OpString(op), c27PktString(gotPl), c27PackList(exp.promptAnyOf))
			}
			if pick != exp.promptAnyOf[0] {
				labels["modern-same-id-not-fifo"] = true
			}
			exp.chosen(pick)
			exp.prompts = []*c27Pack{pick}
		}
		if len(gotPl) != len(exp.prompts) {
			key := "prompt:count:" + keyFam
			if fam != "modern" {
				if exp.autoDecl == 0 && len(gotPl) < len(exp.prompts) && !lm.declined && lm.prev != 0 {
					key = "prompt:missing-before-any-decline:legacy"
				} else if len(gotPl) > len(exp.prompts) {
					key = "prompt:extra:legacy"
				}
			}
			return verifkit.Fail(key, "op %d %s: player received %d packet(s) %s, model expects prompts for packs %s",
				i, c27OpString(op), len(gotPl), c27PktString(gotPl), c27PackList(exp.prompts))
		}
		for j, pkt := range gotPl {
			req, ok := pkt.(*packet.ResourcePackRequest)
			if !ok {
				return verifkit.Fail("prompt:type:"+keyFam, "op %d: player received %T", i, pkt)
			}
			want := exp.prompts[j]
			wantHash := ""
			if want.Hash != 0 {
				wantHash = hex.EncodeToString(c27Hash(want.Hash))
			}
			if req.URL != c27URL(want.N) {
				return verifkit.Fail("prompt:order:"+keyFam, "op %d %s: prompted %q, model expects pack %d (%s)", i, c27OpString(op), req.URL, want.N, c27URL(want.N))
			}
			if req.ID != c27UUID(want.ID) || req.Hash != wantHash || req.Required != want.Forced || req.Prompt != nil {
				return verifkit.Fail("prompt:fields:"+keyFam, "op %d: request %+v does not match pack %+v", i, *req, *want)
			}
		}

		// ---- responses reported to the backend
		gotBe := pl.backend.take()
		if !exp.reportsSkip {
			if v := c27CompareReports(i, op, keyFam, gotBe, exp.reports); v != nil {
				return verifkit.Result{V: v}
			}
		}

		// ---- disconnects for declined forced packs
		if d := pl.takeDisconnects(); d != exp.disconnects {
			return verifkit.Fail("disconnect:"+keyFam, "op %d %s: %d disconnect(s), model expects %d", i, c27OpString(op), d, exp.disconnects)
		}

		// ---- "at most one prompt outstanding" (legacy) / per id (modern) is implied by the
		// prompt comparison; the tracked state is compared through the getters.
		if fam == "modern" {
			var app, pen []*Info
			if r := call(i, "getters", false, func() { app, pen = h.AppliedResourcePacks(), h.PendingResourcePacks() }); r != nil {
				return *r
			}
			if v := c27CompareModernSet(i, "applied", app, mm.applied); v != nil {
				return verifkit.Result{V: v}
			}
			if v := c27CompareModernSet(i, "pending", pen, mm.pending); v != nil {
				return verifkit.Result{V: v}
			}
			n := 0
			for _, l := range mm.out {
				n += len(l)
				if len(l) > 1 {
					labels["same-id-queued-twice"] = true
				}
			}
			if n > maxOutstanding {
				maxOutstanding = n
			}
		} else {
			var app, pen *Info
			if r := call(i, "getters", false, func() { app, pen = h.FirstAppliedPack(), h.FirstPendingPack() }); r != nil {
				return *r
			}
			if !c27SameInfo(app, lm.applied) {
				return verifkit.Fail("state:applied:legacy", "op %d %s: FirstAppliedPack = %s, model %s", i, c27OpString(op), c27InfoString(app), c27PackList([]*c27Pack{lm.applied}))
			}
			if !c27SameInfo(pen, lm.pending) {
				return verifkit.Fail("state:pending:legacy", "op %d %s: FirstPendingPack = %s, model %s", i, c27OpString(op), c27InfoString(pen), c27PackList([]*c27Pack{lm.pending}))
			}
			if len(lm.queue) > maxOutstanding {
				maxOutstanding = len(lm.queue)
			}
		}
	}

	nt := queuedBeforeFirstResp >= 2 || declineThenQueue
	if queuedBeforeFirstResp >= 2 {
		labels["2+queued-before-first-response"] = true
	}
	if declineThenQueue {
		labels["decline-then-queue"] = true
	}
	if maxOutstanding >= 2 {
		labels["2+outstanding"] = true
	}
	out := make([]string, 0, len(labels))
	for l := range labels {
		out = append(out, l)
	}
	sort.Strings(out)
	return verifkit.Result{NonTrivial: nt, Labels: out}
}

func c27CompareReports(i int, op c27Op, keyFam string, got []proto.Packet, want []c27Report) *verifkit.Violation {
	var g, w []string
	for _, pkt := range got {
		r, ok := pkt.(*packet.ResourcePackResponse)
		if !ok {
			return verifkit.Violationf("backend-report:type:"+keyFam, "op %d: backend received %T", i, pkt)
		}
		g = append(g, fmt.Sprintf("%s/%d", r.ID, int(r.Status)))
	}
	for _, r := range want {
		w = append(w, fmt.Sprintf("%s/%d", c27UUID(r.id), r.status))
	}
	gs, ws := append([]string(nil), g...), append([]string(nil), w...)
	sort.Strings(gs)
	sort.Strings(ws)
	if strings.Join(gs, ",") != strings.Join(ws, ",") {
		key := "backend-report:"
		switch {
		case len(g) > len(w):
			key += "unexpected:"
		case len(g) < len(w):
			key += "missing:"
		default:
			key += "content:"
		}
		return verifkit.Violationf(key+keyFam, "op %d %s: backend received responses [%s] (id/status), model expects [%s]",
			i, c27OpString(op), strings.Join(g, " "), strings.Join(w, " "))
	}
	// the client's own response must be passed on with its hash unchanged
	for _, r := range want {
		if !r.hashKnown {
			continue
		}
		found := false
		for _, pkt := range got {
			if p := pkt.(*packet.ResourcePackResponse); p.Hash == r.hash && int(p.Status) == r.status {
				found = true
			}
		}
		if !found {
			return verifkit.Violationf("backend-report:hash:"+keyFam, "op %d: response hash %q not passed on to the backend", i, r.hash)
		}
	}
	return nil
}

func c27CompareModernSet(i int, what string, got []*Info, model map[int]c27Tri) *verifkit.Violation {
	byID := map[uuid.UUID]*Info{}
	for _, in := range got {
		if in == nil {
			return verifkit.Violationf("state:"+what+":modern", "op %d: nil entry in %s packs", i, what)
		}
		byID[in.ID] = in
	}
	for id := 1; id <= 4; id++ {
		t, ok := model[id]
		if !ok {
			t = c27Tri{known: true}
		}
		if !t.known {
			continue
		}
		g := byID[c27UUID(id)]
		if !c27SameInfo(g, t.p) {
			return verifkit.Violationf("state:"+what+":modern", "op %d: %s pack for id %d is %s, model %s", i, what, id, c27InfoString(g), c27PackList([]*c27Pack{t.p}))
		}
	}
	return nil
}

func c27SameInfo(in *Info, p *c27Pack) bool {
	if in == nil || p == nil {
		return in == nil && p == nil
	}
	return in.URL == c27URL(p.N)
}

func c27InfoString(in *Info) string {
	if in == nil {
		return "<none>"
	}
	return in.URL
}

func c27PackList(ps []*c27Pack) string {
	var s []string
	for _, p := range ps {
		if p == nil {
			s = append(s, "<none>")
		} else {
			s = append(s, fmt.Sprintf("#%d", p.N))
		}
	}
	return "[" + strings.Join(s, " ") + "]"
}

func c27PktString(ps []proto.Packet) string {
	var s []string
	for _, p := range ps {
		if r, ok := p.(*packet.ResourcePackRequest); ok {
			s = append(s, r.URL)
		} else {
			s = append(s, fmt.Sprintf("%T", p))
		}
	}
	return "[" + strings.Join(s, " ") + "]"
}

func c27OpString(op c27Op) string {
	switch op.Op {
	case "queue":
		return fmt.Sprintf("queue(#%d id%d forced=%v backend=%v)", op.Pack.N, op.Pack.ID, op.Pack.Forced, op.Pack.Backend)
	case "resp":
		return fmt.Sprintf("resp(id%d %s)", op.ID, c27StatusNames[op.Status])
	case "remove":
		return fmt.Sprintf("remove(id%d)", op.ID)
	}
	return op.Op
}

// ---------------------------------------------------------------- generator

// Keys of findings that are listed as known for C27: the generator steers away
// from the histories that are certain to hit them (a deadlocked call leaks its
// goroutine and costs the full watchdog bound, so it must not be hit thousands
// of times). The regression case stored with the known finding still executes
// the path once per run.
var (
	c27KnownOnce sync.Once
	c27KnownKeys map[string]bool
)

func c27Known(key string) bool {
	c27KnownOnce.Do(func() {
		c27KnownKeys = map[string]bool{}
		b, err := os.ReadFile(os.Getenv("VERIF_KNOWN"))
		if err != nil {
			return
		}
		var f struct {
			Findings []struct {
				Property string `json:"property"`
				Status   string `json:"status"`
				Key      string `json:"key"`
			} `json:"findings"`
		}
		if json.Unmarshal(b, &f) != nil {
			return
		}
		for _, e := range f.Findings {
			if e.Property == "C27" && e.Status == "known" {
				c27KnownKeys[e.Key] = true
			}
		}
	})
	return c27KnownKeys[key]
}

const (
	c27KeyQueueDeadlock    = "deadlock:legacy.QueueResourcePack"
	c27KeyRespDeadlock     = "deadlock:legacy.OnResourcePackResponse"
	c27KeyUnsolicitedPanic = "panic:legacy.OnResourcePackResponse:unsolicited"
)

var c27Statuses = []int{c27Accepted, c27Successful, c27Declined, c27Accepted, c27Successful, c27Declined,
	c27FailedDownload, c27Downloaded, c27InvalidURL, c27FailedReload, c27Discarded}

func c27Gen(legacy bool) func(*rapid.T) c27Case {
	return func(t *rapid.T) c27Case {
		var c c27Case
		if legacy {
			c.Proto = rapid.SampledFrom([]int{47, 340, 754, 755, 762, 764}).Draw(t, "proto")
		} else {
			c.Proto = rapid.SampledFrom([]int{765, 766, 769, 774}).Draw(t, "proto")
		}
		c.Backend = rapid.IntRange(0, 9).Draw(t, "backend") != 0
		n := rapid.IntRange(1, 14).Draw(t, "nops")
		// the generator tracks how many packs are outstanding so that it can aim
		// responses at tracked ids / a non-empty queue
		outstanding := map[int]int{}
		total := 0
		nextN := 1
		avoidQueue := legacy && c27Known(c27KeyQueueDeadlock)
		avoidUnsolicited := legacy && c27Known(c27KeyUnsolicitedPanic)
		avoidTerminal := legacy && c27Known(c27KeyRespDeadlock)
		for len(c.Ops) < n {
			k := rapid.IntRange(0, 99).Draw(t, "kind")
			switch {
			case k < 42:
				if avoidQueue {
					// nothing can ever be queued on this tree; fall back to a harmless op
					c.Ops = append(c.Ops, c27Op{Op: "clear"})
					continue
				}
				p := &c27Pack{N: nextN,
					ID:      rapid.IntRange(1, 3).Draw(t, "id"),
					Hash:    rapid.IntRange(0, 3).Draw(t, "hash"),
					Forced:  rapid.IntRange(0, 3).Draw(t, "forced") == 0,
					Backend: rapid.Bool().Draw(t, "origin")}
				nextN++
				c.Ops = append(c.Ops, c27Op{Op: "queue", Pack: p, ViaCheck: rapid.IntRange(0, 3).Draw(t, "viaCheck") == 0})
				key := p.ID
				if legacy {
					key = 0
				}
				outstanding[key]++
				total++
			case k < 86:
				status := rapid.SampledFrom(c27Statuses).Draw(t, "status")
				id := 0
				if !legacy {
					// prefer ids with something outstanding; sometimes an untracked id
					var tracked []int
					for i := 1; i <= 3; i++ {
						if outstanding[i] > 0 {
							tracked = append(tracked, i)
						}
					}
					if len(tracked) > 0 && rapid.IntRange(0, 5).Draw(t, "aim") != 0 {
						id = rapid.SampledFrom(tracked).Draw(t, "rid")
					} else {
						id = rapid.IntRange(1, 4).Draw(t, "rid")
					}
				}
				if legacy && outstanding[0] == 0 && avoidUnsolicited {
					c.Ops = append(c.Ops, c27Op{Op: "clear"})
					continue
				}
				if legacy && avoidTerminal && !c27Intermediate(status) && outstanding[0] > 0 {
					status = c27Accepted
				}
				c.Ops = append(c.Ops, c27Op{Op: "resp", ID: id, Status: status})
				if !c27Intermediate(status) && outstanding[id] > 0 {
					// approximation (auto-declines are not tracked here); only used for aiming
					outstanding[id]--
					total--
				}
			case k < 92 && !legacy:
				id := rapid.IntRange(1, 4).Draw(t, "mid")
				c.Ops = append(c.Ops, c27Op{Op: "remove", ID: id})
				total -= outstanding[id]
				outstanding[id] = 0
			case k < 96:
				c.Ops = append(c.Ops, c27Op{Op: "clear"})
				if !legacy {
					outstanding = map[int]int{}
					total = 0
				}
			default:
				c.Ops = append(c.Ops, c27Op{Op: "backend", On: rapid.Bool().Draw(t, "on")})
			}
		}
		return c
	}
}

func TestVerif_C27(t *testing.T) {
	verifkit.Check(t, "C27", "modern",
		"histories of 1..14 ops {queue(pack: id from a pool of 3, hash, forced, origin), response(id aimed at tracked ids or untracked, all 8 statuses), remove(id), clear, backend on/off} on the 1.20.3+ handler, every call under the deadlock sensor, compared step by step with a per-id reference model (prompts, backend reports, disconnects, applied/pending); non-trivial = >=2 packs queued before the first response or a decline followed by another queue",
		c27Gen(false), c27Run)
	verifkit.Check(t, "C27", "legacy",
		"same histories (without remove) on the <1.17 and 1.17-1.20.2 handlers against a single-slot FIFO reference model (one prompt outstanding, queue order, auto-decline only after a client decline, forced packs on 1.17+ still prompted, backend-origin reports); histories certain to hit a finding listed as known are not generated; non-trivial = >=2 packs queued before the first response or a decline followed by another queue",
		c27Gen(true), c27Run)
}
