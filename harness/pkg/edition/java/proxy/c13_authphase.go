//go:build verif

package proxy

// C13, sub-check "auth-phase": login plugin messages a plugin sends after the
// pre-login event - from a GameProfileRequestEvent subscriber - through the real
// Proxy.HandleConn. On 1.20.2+ the client can still answer them between
// LoginSuccess and LoginAcknowledged; every answer must reach the consumer
// registered for its id exactly once, unknown ids and repeated answers are
// ignored. The main C13 check drives loginInboundConn directly; this one goes
// through the session handlers that feed it (rig of C43: scripted client over
// net.Pipe, offline mode).

import (
	"bytes"
	"fmt"
	"sync"
	"testing"
	"time"

	"github.com/robinbraemer/event"
	"pgregory.net/rapid"

	"go.minekube.com/gate/pkg/edition/java/config"
	"go.minekube.com/gate/pkg/edition/java/proxy/message"
	"go.minekube.com/gate/pkg/internal/verifkit"
)

type c13aAnswer struct {
	Msg     int    `json:"msg"`     // index of the request answered; -1 = an id nobody asked for
	Success bool   `json:"success"` // false: "not understood"
	Body    []byte `json:"body"`
}

type c13aCase struct {
	Protocol int32        `json:"protocol"`
	PreLogin int          `json:"prelogin"` // messages sent by the PreLoginEvent subscriber (answered first)
	Profile  int          `json:"profile"`  // messages sent by the GameProfileRequestEvent subscriber
	Answers  []c13aAnswer `json:"answers"`  // answers sent after LoginSuccess, before LoginAcknowledged
}

type c13aConsumer struct {
	mu    *sync.Mutex
	calls *[][]byte
}

func (c c13aConsumer) OnMessageResponse(b []byte) error {
	c.mu.Lock()
	if b == nil {
		*c.calls = append(*c.calls, nil)
	} else {
		*c.calls = append(*c.calls, append([]byte{}, b...))
	}
	c.mu.Unlock()
	return nil
}

func c13aRun(c c13aCase) verifkit.Result {
	return c43Guard("c13a", func() verifkit.Result { return c13aRunInner(c) })
}

func c13aRunInner(c c13aCase) (res verifkit.Result) {
	var mu sync.Mutex
	n := c.PreLogin + c.Profile
	calls := make([][][]byte, n)
	sendErrs := []string{}
	mgr := event.New()
	chID, _ := message.ChannelIdentifierFrom("verif:c13a")
	send := func(conn Inbound, k int) {
		lpc, ok := conn.(LoginPhaseConnection)
		if !ok {
			mu.Lock()
			sendErrs = append(sendErrs, fmt.Sprintf("connection %T is no LoginPhaseConnection", conn))
			mu.Unlock()
			return
		}
		if err := lpc.SendLoginPluginMessage(chID, []byte{byte(k + 1)}, c13aConsumer{mu: &mu, calls: &calls[k]}); err != nil {
			mu.Lock()
			sendErrs = append(sendErrs, err.Error())
			mu.Unlock()
		}
	}
	event.Subscribe(mgr, 0, func(e *PreLoginEvent) {
		for k := 0; k < c.PreLogin; k++ {
			send(e.Conn(), k)
		}
	})
	event.Subscribe(mgr, 0, func(e *GameProfileRequestEvent) {
		for k := c.PreLogin; k < n; k++ {
			send(e.Conn(), k)
		}
	})
	postLogin := make(chan struct{}, 1)
	event.Subscribe(mgr, 0, func(e *PostLoginEvent) {
		select {
		case postLogin <- struct{}{}:
		default:
		}
	})

	p := c43NewProxy(mgr, nil, func(cfg *config.Config) { cfg.OnlineMode = false })
	cl := c43Dial(p)
	defer func() {
		cl.Finish()
		mgr.Wait()
		if res.V == nil {
			if pv := cl.Panic(); pv != "" {
				res = verifkit.Fail("panic:HandleConn", "panic escaped HandleConn: %s", pv)
			}
		}
	}()
	inconclusive := func(why string) verifkit.Result {
		return verifkit.Result{Inconclusive: true, Labels: []string{"inconclusive:" + why}}
	}
	if cl.Send(c43Handshake(c.Protocol, "mc.example.com", 25565, 2)) != nil ||
		cl.Send(c43LoginStart(c.Protocol, "Alice", [16]byte{1, 2, 3})) != nil {
		return inconclusive("write")
	}
	// ids of the requests, in the order the proxy wrote them
	ids := make([]int32, 0, n)
	parse := func(f []byte) (int32, bool) {
		if len(f) > 1 && f[0] == 0x04 {
			if id, e := verifkit.NewRefReader(f[1:]).VarInt(); e == nil {
				return id, true
			}
		}
		return 0, false
	}
	reply := func(id int32, ok bool, body []byte) error {
		pl := append(verifkit.RefVarInt(0x02), verifkit.RefVarInt(id)...)
		if ok {
			pl = append(append(pl, 1), body...)
		} else {
			pl = append(pl, 0)
		}
		return cl.Send(verifkit.RefFrame(pl, -1, 0))
	}
	want := make([][][]byte, n) // expected consumer calls per request
	// pre-login requests: the login is held until they are answered
	frames, eof := cl.AwaitPlainFrames(c.PreLogin)
	if c.PreLogin > 0 {
		if len(frames) < c.PreLogin {
			return verifkit.Fail("auth-phase:prelogin-requests-missing", "PreLogin subscriber sent %d login plugin messages, client received %d frames (eof %v, send errors %v)", c.PreLogin, len(frames), eof, sendErrs)
		}
		for k := 0; k < c.PreLogin; k++ {
			id, ok := parse(frames[k])
			if !ok {
				return verifkit.Fail("auth-phase:unexpected-frame", "expected login plugin request #%d, got %x", k, frames[k])
			}
			ids = append(ids, id)
			body := []byte{0xa0, byte(k)}
			if reply(id, true, body) != nil {
				return inconclusive("write")
			}
			want[k] = append(want[k], body)
		}
	}
	// now the profile-request messages and LoginSuccess (id 0x02) follow
	total := c.PreLogin + c.Profile + 1
	frames, eof = cl.AwaitPlainFrames(total)
	if len(frames) < total {
		return verifkit.Fail("auth-phase:login-success-missing", "after the pre-login answers the client received %d of %d expected frames (eof %v, send errors %v)", len(frames), total, eof, sendErrs)
	}
	for k := c.PreLogin; k < n; k++ {
		id, ok := parse(frames[k])
		if !ok {
			return verifkit.Fail("auth-phase:unexpected-frame", "expected login plugin request #%d before LoginSuccess, got %x", k, frames[k])
		}
		ids = append(ids, id)
	}
	if f := frames[total-1]; len(f) == 0 || f[0] != 0x02 {
		return verifkit.Fail("auth-phase:unexpected-frame", "expected LoginSuccess, got %x", f)
	}
	answered := map[int]bool{}
	for _, a := range c.Answers {
		switch {
		case a.Msg < 0 || n == 0:
			if reply(int32(1000+len(ids)), a.Success, a.Body) != nil {
				return inconclusive("write")
			}
			res.Labels = append(res.Labels, "answer-to-unknown-id")
		default:
			k := a.Msg % n
			if reply(ids[k], a.Success, a.Body) != nil {
				return inconclusive("write")
			}
			if k < c.PreLogin || answered[k] {
				res.Labels = append(res.Labels, "repeated-answer")
				continue // already answered: ignored
			}
			answered[k] = true
			if a.Success {
				want[k] = append(want[k], append([]byte{}, a.Body...))
			} else {
				want[k] = append(want[k], nil)
			}
		}
	}
	// LoginAcknowledged: the read loop handles it after every answer above
	if cl.Send(verifkit.RefFrame(verifkit.RefVarInt(0x03), -1, 0)) != nil {
		return inconclusive("write")
	}
	select {
	case <-postLogin:
	case <-time.After(20 * time.Second):
		return inconclusive("no-post-login")
	}
	mu.Lock()
	defer mu.Unlock()
	for k := 0; k < n; k++ {
		got := calls[k]
		okk := len(got) == len(want[k])
		for i := 0; okk && i < len(got); i++ {
			okk = bytes.Equal(got[i], want[k][i]) && (got[i] == nil) == (want[k][i] == nil)
		}
		if !okk {
			phase := "PreLoginEvent"
			if k >= c.PreLogin {
				phase = "GameProfileRequestEvent"
			}
			return verifkit.Fail("auth-phase:consumer-calls", "request #%d (id %d, sent from %s): consumer was called with %x, the client's answers for that id were %x (protocol %d)", k, ids[k], phase, got, want[k], c.Protocol)
		}
	}
	res.NonTrivial = len(answered) > 0
	res.Labels = append(res.Labels, fmt.Sprintf("profile-phase-requests:%d", c.Profile))
	return res
}

func c13aGen(t *rapid.T) c13aCase {
	c := c13aCase{
		Protocol: rapid.SampledFrom([]int32{764, 765, 766, 767, 769, 772, 774, 776}).Draw(t, "protocol"),
		PreLogin: rapid.IntRange(0, 2).Draw(t, "prelogin"),
		Profile:  rapid.IntRange(0, 3).Draw(t, "profile"),
	}
	n := rapid.IntRange(0, 5).Draw(t, "answers")
	for i := 0; i < n; i++ {
		c.Answers = append(c.Answers, c13aAnswer{
			Msg:     rapid.IntRange(-1, 4).Draw(t, "msg"),
			Success: rapid.IntRange(0, 3).Draw(t, "success") != 0,
			Body:    rapid.SliceOfN(rapid.Byte(), 0, 6).Draw(t, "body"),
		})
	}
	return c
}

func TestVerif_C13Auth(t *testing.T) {
	verifkit.Check(t, "C13", "auth-phase",
		"offline-mode logins of 1.20.2+ clients through the real Proxy.HandleConn: 0-2 login plugin messages sent by a PreLoginEvent subscriber (answered at once) and 0-3 sent by a GameProfileRequestEvent subscriber (they reach the client before LoginSuccess), then 0-5 client answers between LoginSuccess and LoginAcknowledged {to one of the requests, repeated, to an id nobody asked for; understood with a body / not understood}; oracle after PostLoginEvent: every consumer was called exactly with the first answer to its id (nil for 'not understood'), never for another id or twice; non-trivial = at least one answer to an auth-phase request",
		c13aGen, c13aRun)
}
