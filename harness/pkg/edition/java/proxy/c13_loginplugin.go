//go:build verif

package proxy

import (
	"bytes"
	"context"
	"errors"
	"fmt"
	"net"
	"sort"
	"sync"
	"testing"
	"time"

	"github.com/go-logr/logr"
	"github.com/robinbraemer/event"
	"go.minekube.com/gate/pkg/edition/java/config"
	"go.minekube.com/gate/pkg/edition/java/netmc"
	"go.minekube.com/gate/pkg/edition/java/proto/packet"
	"go.minekube.com/gate/pkg/edition/java/proto/state"
	"go.minekube.com/gate/pkg/edition/java/proto/version"
	"go.minekube.com/gate/pkg/edition/java/proxy/message"
	"go.minekube.com/gate/pkg/edition/java/proxy/phase"
	"go.minekube.com/gate/pkg/gate/proto"
	"go.minekube.com/gate/pkg/internal/verifkit"
	"pgregory.net/rapid"
)

// C13: login plugin messages are answered exactly once by the matching consumer;
// the login-completion step runs exactly once; relayed Forge login messages are
// answered to the backend exactly once with the client's reply.
//
// Real code driven:
//   - initialLoginSessionHandler.HandlePacket(ServerLogin) with a real
//     event.Manager: the PreLogin subscriber obtains the LoginPhaseConnection
//     exactly like a plugin (e.Conn().(LoginPhaseConnection)) and sends messages;
//     handleServerLogin then calls loginInboundConn.loginEventFired with the
//     real completion callback, whose observable effect is that an
//     *authSessionHandler is installed on the connection (SetActiveSessionHandler);
//   - client responses go through the connection's active session handler
//     (initial login handler before completion, auth handler afterwards);
//   - relay traffic goes through backendLoginSessionHandler.handleLoginPluginMessage
//     with player.forgeLoginRelay set up as completeLoginProtocolPhaseAndInitialize does.
//
// Oracle: a small executable model (set of outstanding messages, fired flag,
// completion count) written from the property text. Message ids are learned
// from the packets the "client" receives, never from the implementation state.

// ---------------------------------------------------------------- recording conn

type c13Conn struct {
	mu       sync.Mutex
	ctx      context.Context
	cancel   context.CancelFunc
	st       *state.Registry
	packets  []proto.Packet
	handler  netmc.SessionHandler
	installs []netmc.SessionHandler // every SetActiveSessionHandler call
	typ      phase.ConnectionType
	notify   chan struct{}
	wr       c13Writer
}

func c13NewConn() *c13Conn {
	ctx, cancel := context.WithCancel(context.Background())
	return &c13Conn{ctx: ctx, cancel: cancel, st: state.Login, notify: make(chan struct{}, 1)}
}

func (c *c13Conn) Context() context.Context { return c.ctx }
func (c *c13Conn) Close() error             { c.cancel(); return nil }
func (c *c13Conn) State() *state.Registry   { return c.st }
func (c *c13Conn) Protocol() proto.Protocol { return version.Minecraft_1_20.Protocol }
func (c *c13Conn) RemoteAddr() net.Addr     { return &net.TCPAddr{IP: net.IPv4(127, 0, 0, 1), Port: 1} }
func (c *c13Conn) LocalAddr() net.Addr      { return &net.TCPAddr{IP: net.IPv4(127, 0, 0, 1), Port: 2} }
func (c *c13Conn) Type() phase.ConnectionType {
	if c.typ != nil {
		return c.typ
	}
	return phase.Vanilla
}
func (c *c13Conn) SetType(t phase.ConnectionType) { c.typ = t }
func (c *c13Conn) ActiveSessionHandler() netmc.SessionHandler {
	c.mu.Lock()
	defer c.mu.Unlock()
	return c.handler
}

// SetActiveSessionHandler records the installation but does NOT call
// Activated(): the auth handler's activation (GameProfileRequest, player
// construction, registration) is outside this property; installing it is the
// observable "login-completion step".
func (c *c13Conn) SetActiveSessionHandler(_ *state.Registry, h netmc.SessionHandler) {
	c.mu.Lock()
	c.handler = h
	c.installs = append(c.installs, h)
	c.mu.Unlock()
}
func (c *c13Conn) SwitchSessionHandler(*state.Registry) bool               { return true }
func (c *c13Conn) AddSessionHandler(*state.Registry, netmc.SessionHandler) {}
func (c *c13Conn) SetAutoReading(bool)                                     {}
func (c *c13Conn) SetOutboundState(*state.Registry)                        {}
func (c *c13Conn) SetProtocol(proto.Protocol)                              {}
func (c *c13Conn) SetState(*state.Registry)                                {}
func (c *c13Conn) SetCompressionThreshold(int) error                       { return nil }
func (c *c13Conn) EnableEncryption([]byte) error                           { return nil }
func (c *c13Conn) WritePacket(p proto.Packet) error {
	c.mu.Lock()
	c.packets = append(c.packets, p)
	c.mu.Unlock()
	select {
	case c.notify <- struct{}{}:
	default:
	}
	return nil
}
func (c *c13Conn) BufferPacket(p proto.Packet) error { return c.WritePacket(p) }
func (c *c13Conn) Write([]byte) error                { return nil }
func (c *c13Conn) BufferPayload([]byte) error        { return nil }
func (c *c13Conn) Flush() error                      { return nil }
func (c *c13Conn) Reader() netmc.Reader              { return nil }
func (c *c13Conn) Writer() netmc.Writer              { return &c.wr }
func (c *c13Conn) EnablePlayPacketQueue()            {}

func (c *c13Conn) snapshot() ([]proto.Packet, int) {
	c.mu.Lock()
	defer c.mu.Unlock()
	return append([]proto.Packet(nil), c.packets...), len(c.installs)
}

var _ netmc.MinecraftConn = (*c13Conn)(nil)

type c13Writer struct{}

func (*c13Writer) WritePacket(proto.Packet) (int, error) { return 0, nil }
func (*c13Writer) Write([]byte) (int, error)             { return 0, nil }
func (*c13Writer) Flush() error                          { return nil }
func (*c13Writer) SetProtocol(proto.Protocol)            {}
func (*c13Writer) SetState(*state.Registry)              {}
func (*c13Writer) SetCompressionThreshold(int) error     { return nil }
func (*c13Writer) EnableEncryption([]byte) error         { return nil }
func (*c13Writer) Direction() proto.Direction            { return proto.ClientBound }

type c13Cfg struct{ cfg *config.Config }

func (c *c13Cfg) config() *config.Config { return c.cfg }

// ---------------------------------------------------------------- case

type c13Send struct {
	Chan  string    `json:"chan"`
	Data  []byte    `json:"data"`
	Err   bool      `json:"err,omitempty"`   // the consumer returns an error
	Chain []c13Send `json:"chain,omitempty"` // messages the consumer sends when it is answered
	tag   int
}

// Op kinds:
//
//	resp        client response; Kind out (Pick-th outstanding message), answered (Pick-th already answered id), never (id Off never issued)
//	send        a handler goroutine sends another message now (after the pre-login event)
//	badsend     a send the API must reject (Bad = nilid | empty | nilconsumer)
//	relaystart  the auth handler starts the Forge relay (clears the completion callback) — only after completion
//	relay       the backend sends fml:loginwrapper message BID with Data
//	cleanup     the connection is torn down (loginInboundConn.cleanup)
type c13Op struct {
	K       string   `json:"k"`
	Kind    string   `json:"kind,omitempty"`
	Pick    int      `json:"pick,omitempty"`
	Off     int      `json:"off,omitempty"`
	Success bool     `json:"success,omitempty"`
	Data    []byte   `json:"data,omitempty"`
	Send    *c13Send `json:"send,omitempty"`
	Bad     string   `json:"bad,omitempty"`
	BID     int      `json:"bid,omitempty"`
}

type c13Case struct {
	Pre []c13Send `json:"pre"` // sent by the PreLogin event handler
	Ops []c13Op   `json:"ops"`
}

// ---------------------------------------------------------------- harness

type c13Invocation struct {
	tag  int
	data []byte
	nilD bool
}

type c13Consumer struct {
	h    *c13Harness
	spec *c13Send
}

func (c *c13Consumer) OnMessageResponse(b []byte) error {
	h := c.h
	h.mu.Lock()
	h.invocations = append(h.invocations, c13Invocation{tag: c.spec.tag, data: append([]byte(nil), b...), nilD: b == nil})
	h.mu.Unlock()
	for i := range c.spec.Chain {
		h.realSend(&c.spec.Chain[i])
	}
	if c.spec.Err {
		return errors.New("c13 consumer error")
	}
	return nil
}

type c13Harness struct {
	mu          sync.Mutex
	client      *c13Conn
	backend     *c13Conn
	inbound     *loginInboundConn
	lpc         LoginPhaseConnection
	mgr         event.Manager
	deps        *sessionHandlerDeps
	preLogins   int
	invocations []c13Invocation
	sendErrs    []string
	backendH    *backendLoginSessionHandler
	player      *connectedPlayer

	seenClient  int
	seenInstall int
	seenBackend int
	seenInv     int
}

func c13NewHarness() *c13Harness {
	h := &c13Harness{client: c13NewConn(), backend: c13NewConn(), mgr: event.New()}
	h.deps = &sessionHandlerDeps{eventMgr: h.mgr, configProvider: &c13Cfg{cfg: &config.Config{OnlineMode: false}}}
	inb := newInitialInbound(h.client, &net.TCPAddr{IP: net.IPv4(127, 0, 0, 1), Port: 25565}, packet.LoginHandshakeIntent)
	h.inbound = newLoginInboundConn(inb)
	h.client.handler = newInitialLoginSessionHandler(h.client, h.inbound, h.deps)
	return h
}

func (h *c13Harness) realSend(s *c13Send) {
	id, err := message.ChannelIdentifierFrom(s.Chan)
	if err != nil {
		panic("c13: generator produced an invalid channel: " + err.Error())
	}
	if err := h.lpc.SendLoginPluginMessage(id, s.Data, &c13Consumer{h: h, spec: s}); err != nil {
		h.mu.Lock()
		h.sendErrs = append(h.sendErrs, err.Error())
		h.mu.Unlock()
	}
}

// respond delivers a client LoginPluginResponse, decoded from wire bytes the
// way the read loop would, to the connection's active session handler.
func (h *c13Harness) respond(id int, success bool, data []byte) {
	wire := append(verifkit.RefVarInt(int32(id)), verifkit.RefBool(success)...)
	if success {
		wire = append(wire, data...)
	}
	p := &packet.LoginPluginResponse{}
	pc := &proto.PacketContext{Direction: proto.ServerBound, Protocol: h.client.Protocol(), Packet: p, Payload: wire}
	if err := p.Decode(pc, bytes.NewReader(wire)); err != nil {
		panic("c13: cannot decode generated response: " + err.Error())
	}
	h.client.ActiveSessionHandler().HandlePacket(pc)
}

func (h *c13Harness) startRelay() {
	// what authSessionHandler.completeLoginProtocolPhaseAndInitialize does for Modern Forge < 1.20.2
	h.player = &connectedPlayer{MinecraftConn: h.client, log: logr.Discard()}
	relay := newModernForgeLoginRelay(h.inbound, h.player, &packet.ServerLoginSuccess{Username: "Player_1"})
	h.player.mu.Lock()
	h.player.forgeLoginRelay = relay
	h.player.mu.Unlock()
	h.inbound.clearOnAllMessagesHandled()

	sc := &serverConnection{player: h.player, log: logr.Discard()}
	sc.mu.Lock()
	sc.connection = h.backend
	sc.mu.Unlock()
	h.backendH = &backendLoginSessionHandler{
		serverConn:         sc,
		requestCtx:         &connRequestCxt{Context: context.Background(), response: make(chan *connResponse, 1)},
		log:                logr.Discard(),
		sessionHandlerDeps: h.deps,
	}
}

func (h *c13Harness) relayMsg(bid int, data []byte) {
	h.backendH.handleLoginPluginMessage(&packet.LoginPluginMessage{ID: bid, Channel: ForgeLoginWrapperChannel, Data: data})
}

// ---------------------------------------------------------------- model

type c13MMsg struct {
	tag     int
	spec    *c13Send // nil for relay messages
	relay   bool
	bid     int
	rdata   []byte
	id      int // learned from the client-side packet
	hasID   bool
	written bool
	done    bool
}

type c13Expect struct {
	writes      []*c13MMsg
	invoked     []c13Invocation
	completions int
	backend     []packet.LoginPluginResponse
}

type c13Model struct {
	msgs        map[int]*c13MMsg
	order       []*c13MMsg // send order
	fired       bool
	cbSet       bool
	completed   int
	outstanding int
	maxOut      int
	nextTag     int
}

func (m *c13Model) add(x *c13MMsg) {
	m.msgs[x.tag] = x
	m.order = append(m.order, x)
	m.outstanding++
	if m.outstanding > m.maxOut {
		m.maxOut = m.outstanding
	}
}

func (m *c13Model) send(s *c13Send, e *c13Expect) {
	x := &c13MMsg{tag: s.tag, spec: s}
	m.add(x)
	if m.fired {
		e.writes = append(e.writes, x)
	}
}

func (m *c13Model) byID(id int) *c13MMsg {
	for _, x := range m.order {
		if x.hasID && x.id == id {
			return x
		}
	}
	return nil
}

func c13AssignTags(ss []c13Send, next *int) {
	for i := range ss {
		ss[i].tag = *next
		*next++
		c13AssignTags(ss[i].Chain, next)
	}
}

// ---------------------------------------------------------------- judging

type c13Judge struct {
	h      *c13Harness
	m      *c13Model
	labels map[string]bool
	nt     bool
}

// settle compares what the step did with what the model expects.
func (j *c13Judge) settle(step string, e *c13Expect) *verifkit.Result {
	h, m := j.h, j.m
	fail := func(key, f string, a ...any) *verifkit.Result {
		r := verifkit.Fail(key, "%s: %s", step, fmt.Sprintf(f, a...))
		return &r
	}
	pk, installs := h.client.snapshot()
	newPk := pk[h.seenClient:]
	h.seenClient = len(pk)
	// 1. messages written to the client
	var got []*packet.LoginPluginMessage
	for _, p := range newPk {
		lm, ok := p.(*packet.LoginPluginMessage)
		if !ok {
			return fail("client:unexpected-packet", "client received %T", p)
		}
		got = append(got, lm)
	}
	if len(got) != len(e.writes) {
		return fail("send:not-written-once", "client received %d login plugin messages, expected %d", len(got), len(e.writes))
	}
	for i, x := range e.writes {
		lm := got[i]
		if x.relay {
			if lm.Channel != ForgeLoginWrapperChannel || (len(x.rdata) > 0 && !bytes.Equal(lm.Data, x.rdata)) {
				return fail("relay:client-message-mismatch", "relayed message for backend id %d reached the client as channel %q data %x", x.bid, lm.Channel, lm.Data)
			}
		} else if lm.Channel != x.spec.Chan || !bytes.Equal(lm.Data, x.spec.Data) {
			return fail("send:written-out-of-order-or-altered", "message #%d: client got channel %q data %x, expected channel %q data %x", i, lm.Channel, lm.Data, x.spec.Chan, x.spec.Data)
		}
		if other := m.byID(lm.ID); other != nil {
			return fail("send:duplicate-id", "message id %d issued twice", lm.ID)
		}
		x.id, x.hasID, x.written = lm.ID, true, true
	}
	// 2. consumer invocations
	h.mu.Lock()
	inv := append([]c13Invocation(nil), h.invocations[h.seenInv:]...)
	h.seenInv = len(h.invocations)
	h.mu.Unlock()
	if len(inv) > len(e.invoked) {
		exp := map[int]bool{}
		for _, w := range e.invoked {
			exp[w.tag] = true
		}
		for _, v := range inv {
			if x := m.msgs[v.tag]; x != nil && x.done && !exp[v.tag] {
				return fail("consumer:invoked-again", "consumer of message tag %d was invoked again", v.tag)
			}
		}
		return fail("consumer:unexpected-invocation", "consumers invoked %+v, expected %+v", inv, e.invoked)
	}
	if len(inv) < len(e.invoked) {
		return fail("consumer:not-invoked", "consumer of tag %d was not invoked for its response", e.invoked[0].tag)
	}
	for i, w := range e.invoked {
		g := inv[i]
		if g.tag != w.tag {
			return fail("consumer:wrong-consumer", "response for tag %d was delivered to consumer %d", w.tag, g.tag)
		}
		if g.nilD != w.nilD {
			return fail("consumer:nil-iff-failure", "tag %d: consumer got nil=%v, response success=%v", w.tag, g.nilD, !w.nilD)
		}
		if !bytes.Equal(g.data, w.data) {
			return fail("consumer:wrong-data", "tag %d: consumer got %x, response carried %x", w.tag, g.data, w.data)
		}
	}
	// 3. backend relay answers
	bp, _ := h.backend.snapshot()
	newB := bp[h.seenBackend:]
	h.seenBackend = len(bp)
	if len(newB) != len(e.backend) {
		if len(newB) > len(e.backend) {
			return fail("relay:unexpected-backend-answer", "backend received %d packets, expected %d", len(newB), len(e.backend))
		}
		return fail("relay:backend-not-answered", "backend received %d packets, expected %d", len(newB), len(e.backend))
	}
	for i, w := range e.backend {
		g, ok := newB[i].(*packet.LoginPluginResponse)
		if !ok {
			return fail("relay:unexpected-backend-answer", "backend received %T", newB[i])
		}
		if g.ID != w.ID {
			return fail("relay:wrong-backend-id", "backend answer carries id %d, the backend message id is %d", g.ID, w.ID)
		}
		if g.Success != w.Success || !bytes.Equal(g.Data, w.Data) {
			return fail("relay:wrong-reply", "backend id %d answered success=%v data=%x, client replied success=%v data=%x", w.ID, g.Success, g.Data, w.Success, w.Data)
		}
	}
	// 4. completion
	delta := installs - h.seenInstall
	h.seenInstall = installs
	if delta != e.completions {
		switch {
		case delta > e.completions && m.completed-e.completions >= 1:
			return fail("completion:rerun-after-late-send", "login completion ran again (%d extra) although it had already run; a message sent after completion was answered", delta-e.completions)
		case delta > e.completions && !m.fired:
			return fail("completion:before-prelogin", "login completion ran before the pre-login event finished")
		case delta > e.completions:
			return fail("completion:early-or-extra", "login completion ran %d time(s) in this step, expected %d (outstanding=%d)", delta, e.completions, m.outstanding)
		default:
			return fail("completion:missing", "login completion did not run although nothing is outstanding (ran %d, expected %d)", delta, e.completions)
		}
	}
	return nil
}

func (j *c13Judge) label(l string) { j.labels[l] = true }

func (j *c13Judge) result() verifkit.Result {
	var ls []string
	for l := range j.labels {
		ls = append(ls, l)
	}
	sort.Strings(ls)
	return verifkit.Result{NonTrivial: j.nt, Labels: ls}
}

func c13ValidChan(s string) bool {
	_, err := message.ChannelIdentifierFrom(s)
	return err == nil
}

func c13ValidSends(ss []c13Send, depth int) bool {
	for i := range ss {
		if !c13ValidChan(ss[i].Chan) || len(ss[i].Data) == 0 || depth > 4 {
			return false
		}
		if !c13ValidSends(ss[i].Chain, depth+1) {
			return false
		}
	}
	return true
}

// c13Fire runs the real ServerLogin handling with a PreLogin subscriber that
// sends pre and judges the step.
func (j *c13Judge) fire(pre []c13Send) *verifkit.Result {
	h, m := j.h, j.m
	event.Subscribe(h.mgr, 0, func(e *PreLoginEvent) {
		h.preLogins++
		lpc, ok := e.Conn().(LoginPhaseConnection)
		if !ok {
			panic("c13: PreLoginEvent.Conn() is not a LoginPhaseConnection")
		}
		h.lpc = lpc
		for i := range pre {
			h.realSend(&pre[i])
		}
	})
	login := &packet.ServerLogin{Username: "Player_1"}
	h.client.ActiveSessionHandler().HandlePacket(&proto.PacketContext{
		Direction: proto.ServerBound, Protocol: h.client.Protocol(), Packet: login, Payload: []byte{0}})
	if h.preLogins != 1 {
		r := verifkit.Fail("harness:prelogin-not-fired", "PreLogin event fired %d times", h.preLogins)
		return &r
	}
	e := &c13Expect{}
	for i := range pre {
		m.send(&pre[i], e) // not fired yet: queued
	}
	m.fired, m.cbSet = true, true
	for _, x := range m.order {
		e.writes = append(e.writes, x) // flushed in send order when the event has fired
	}
	if m.outstanding == 0 {
		e.completions = 1
		m.completed = 1
	}
	return j.settle("pre-login event + loginEventFired", e)
}

// respondTo models and executes one client response.
func (j *c13Judge) respondTo(step string, id int, success bool, data []byte) *verifkit.Result {
	h, m := j.h, j.m
	e := &c13Expect{}
	x := m.byID(id)
	if x != nil && !x.done {
		// outstanding message answered
		for _, o := range m.order {
			if o == x {
				break
			}
			if !o.done && o.written {
				j.label("out-of-order")
				if m.maxOut >= 2 {
					j.nt = true
				}
				break
			}
		}
		x.done = true
		m.outstanding--
		iv := c13Invocation{tag: x.tag, nilD: !success}
		if success {
			iv.data = append([]byte{}, data...)
		}
		if !x.relay { // relayed messages are consumed by the real forgeRelayConsumer, observed at the backend
			e.invoked = append(e.invoked, iv)
		}
		if x.relay {
			resp := packet.LoginPluginResponse{ID: x.bid, Success: success}
			if success {
				resp.Data = data
			}
			e.backend = append(e.backend, resp)
		} else {
			for i := range x.spec.Chain {
				m.send(&x.spec.Chain[i], e)
				j.label("chain")
			}
		}
		if m.outstanding == 0 && m.cbSet && m.completed == 0 {
			// the completion step runs exactly once: now, and never again
			e.completions = 1
			m.completed = 1
		}
	}
	h.respond(id, success, data)
	return j.settle(step, e)
}

func c13Run(c c13Case) verifkit.Result {
	if !c13ValidSends(c.Pre, 0) {
		return verifkit.Result{Labels: []string{"invalid-case"}}
	}
	next := 0
	c13AssignTags(c.Pre, &next)
	for i := range c.Ops {
		if c.Ops[i].Send != nil {
			one := []c13Send{*c.Ops[i].Send}
			if !c13ValidSends(one, 0) {
				return verifkit.Result{Labels: []string{"invalid-case"}}
			}
			c13AssignTags(one, &next)
			c.Ops[i].Send = &one[0]
		}
	}
	h := c13NewHarness()
	m := &c13Model{msgs: map[int]*c13MMsg{}, nextTag: next}
	j := &c13Judge{h: h, m: m, labels: map[string]bool{}}

	if r := j.fire(c.Pre); r != nil {
		return *r
	}
	if len(c.Pre) == 0 {
		j.label("no-pre-messages")
	}
	cleaned, relayOn := false, false
	usedBID := map[int]bool{}
	for i, op := range c.Ops {
		step := fmt.Sprintf("op %d %s", i, op.K)
		switch op.K {
		case "resp":
			var outs, dones []*c13MMsg
			for _, x := range m.order {
				if x.written && !x.done {
					outs = append(outs, x)
				} else if x.written && x.done {
					dones = append(dones, x)
				}
			}
			id := 0
			kind := op.Kind
			switch {
			case kind == "out" && len(outs) > 0 && !cleaned:
				id = outs[c13Mod(op.Pick, len(outs))].id
				if !op.Success {
					j.label("failure-response")
				} else if len(op.Data) == 0 {
					j.label("empty-success")
				}
			case kind == "answered" && len(dones) > 0:
				id = dones[c13Mod(op.Pick, len(dones))].id
				j.label("duplicate-response")
			case cleaned && len(outs) > 0:
				id = outs[c13Mod(op.Pick, len(outs))].id
				j.label("response-after-cleanup")
			default:
				// an id never issued so far
				id = op.Off
				for m.byID(id) != nil {
					id += 1000
				}
				j.label("unknown-id")
			}
			if cleaned {
				// after cleanup nothing is outstanding any more
				e := &c13Expect{}
				h.respond(id, op.Success, op.Data)
				if r := j.settle(step, e); r != nil {
					return *r
				}
				continue
			}
			if r := j.respondTo(fmt.Sprintf("%s id=%d success=%v", step, id, op.Success), id, op.Success, op.Data); r != nil {
				return *r
			}
		case "send":
			if op.Send == nil || cleaned {
				continue
			}
			e := &c13Expect{}
			if m.completed >= 1 && m.cbSet {
				j.label("send-after-completion")
			} else if m.cbSet {
				j.label("send-between-event-and-completion")
			}
			m.send(op.Send, e)
			h.realSend(op.Send)
			if r := j.settle(step, e); r != nil {
				return *r
			}
		case "badsend":
			if cleaned {
				continue
			}
			before := len(h.sendErrs)
			var err error
			id, _ := message.ChannelIdentifierFrom("verif:bad")
			switch op.Bad {
			case "nilid":
				err = h.lpc.SendLoginPluginMessage(nil, []byte{1}, &c13Consumer{h: h, spec: &c13Send{tag: -1}})
			case "empty":
				err = h.lpc.SendLoginPluginMessage(id, nil, &c13Consumer{h: h, spec: &c13Send{tag: -1}})
			default:
				err = h.lpc.SendLoginPluginMessage(id, []byte{1}, nil)
			}
			_ = before
			if err == nil {
				return verifkit.Fail("send:invalid-accepted", "%s: invalid send (%s) was accepted", step, op.Bad)
			}
			j.label("rejected-send")
			if r := j.settle(step, &c13Expect{}); r != nil {
				return *r
			}
		case "relaystart":
			if relayOn || cleaned || m.completed < 1 {
				continue
			}
			h.startRelay()
			relayOn = true
			m.cbSet = false
			j.label("relay")
			if r := j.settle(step, &c13Expect{}); r != nil {
				return *r
			}
		case "relay":
			if !relayOn || cleaned || usedBID[op.BID] {
				continue
			}
			usedBID[op.BID] = true
			x := &c13MMsg{tag: m.nextTag, relay: true, bid: op.BID, rdata: op.Data}
			m.nextTag++
			m.add(x)
			e := &c13Expect{writes: []*c13MMsg{x}}
			h.relayMsg(op.BID, op.Data)
			if r := j.settle(step, e); r != nil {
				return *r
			}
		case "cleanup":
			if cleaned {
				continue
			}
			h.inbound.cleanup()
			cleaned = true
			m.cbSet = false
			j.label("cleanup")
			if r := j.settle(step, &c13Expect{}); r != nil {
				return *r
			}
		}
	}
	if len(h.sendErrs) > 0 {
		return verifkit.Fail("send:valid-rejected", "valid sends were rejected: %v", h.sendErrs)
	}
	if m.maxOut >= 2 {
		j.label("two-or-more-outstanding")
	}
	if m.completed >= 1 {
		j.label("completed")
	}
	return j.result()
}

func c13Mod(a, n int) int {
	a %= n
	if a < 0 {
		a += n
	}
	return a
}

// ---------------------------------------------------------------- generators

var c13Chans = []string{"verif:a", "verif:b", "fml:loginwrapper", "velocity:player_info", "verif:long_channel_name"}

func c13GenSend(t *rapid.T, depth int) c13Send {
	s := c13Send{
		Chan: rapid.SampledFrom(c13Chans).Draw(t, "chan"),
		Data: rapid.SliceOfN(rapid.Byte(), 1, 6).Draw(t, "data"),
		Err:  rapid.IntRange(0, 7).Draw(t, "err") == 0,
	}
	if depth < 2 {
		n := rapid.SampledFrom([]int{0, 0, 0, 1, 1, 2}).Draw(t, "nchain")
		for i := 0; i < n; i++ {
			s.Chain = append(s.Chain, c13GenSend(t, depth+1))
		}
	}
	return s
}

func c13GenResp(t *rapid.T) c13Op {
	op := c13Op{K: "resp", Pick: rapid.IntRange(0, 7).Draw(t, "pick"),
		Kind:    rapid.SampledFrom([]string{"out", "out", "out", "out", "out", "out", "answered", "never"}).Draw(t, "kind"),
		Off:     rapid.SampledFrom([]int{0, -1, 1, 2, 3, 5, 9, 1 << 20}).Draw(t, "off"),
		Success: rapid.IntRange(0, 3).Draw(t, "success") > 0,
	}
	if rapid.IntRange(0, 3).Draw(t, "hasData") > 0 {
		op.Data = rapid.SliceOfN(rapid.Byte(), 1, 6).Draw(t, "rdata")
	}
	return op
}

func c13Gen(t *rapid.T) c13Case {
	var c c13Case
	npre := rapid.SampledFrom([]int{0, 1, 2, 2, 3, 3, 4}).Draw(t, "npre")
	for i := 0; i < npre; i++ {
		c.Pre = append(c.Pre, c13GenSend(t, 0))
	}
	// Cases with late sends reach the domain of hypothesis 8 (completion re-runs);
	// keep them a minority so the rest of the space is explored past it.
	late := rapid.IntRange(0, 4).Draw(t, "lateSends") == 0
	relay := rapid.IntRange(0, 2).Draw(t, "relay") == 0
	bids := rapid.Permutation([]int{0, 1, 2, 3, 4, 5, 6, 7}).Draw(t, "bids")
	nops := rapid.IntRange(0, 16).Draw(t, "nops")
	relayStarted := false
	if relay {
		// reach completion first (the relay only starts after it): answer outstanding messages
		for i, n := 0, rapid.IntRange(len(c.Pre), 3*len(c.Pre)+2).Draw(t, "prefixResponses"); i < n; i++ {
			op := c13GenResp(t)
			op.Kind = "out"
			c.Ops = append(c.Ops, op)
		}
	}
	for i := 0; i < nops; i++ {
		k := rapid.IntRange(0, 19).Draw(t, "kind")
		switch {
		case k == 0:
			c.Ops = append(c.Ops, c13Op{K: "badsend", Bad: rapid.SampledFrom([]string{"nilid", "empty", "nilconsumer"}).Draw(t, "bad")})
		case k == 1 && i > nops-3:
			c.Ops = append(c.Ops, c13Op{K: "cleanup"})
		case k <= 3 && late:
			s := c13GenSend(t, 1)
			c.Ops = append(c.Ops, c13Op{K: "send", Send: &s})
		case k <= 5 && relay && !relayStarted:
			c.Ops = append(c.Ops, c13Op{K: "relaystart"})
			relayStarted = true
		case k <= 9 && relay && relayStarted && len(bids) > 0:
			op := c13Op{K: "relay", BID: bids[0]}
			bids = bids[1:]
			if rapid.IntRange(0, 4).Draw(t, "emptyRelayData") > 0 {
				op.Data = rapid.SliceOfN(rapid.Byte(), 1, 6).Draw(t, "bdata")
			}
			c.Ops = append(c.Ops, op)
		default:
			c.Ops = append(c.Ops, c13GenResp(t))
		}
	}
	return c
}

// ---------------------------------------------------------------- concurrent variant

// c13RaceCase: after the pre-login step, Senders goroutines (plugin handler
// goroutines, or the backend read loop relaying Forge messages when Relay is
// set) send concurrently with ONE client read-loop goroutine that answers every
// message the client has received (a real connection has exactly one read loop).
type c13RaceCase struct {
	Pre     []c13Send   `json:"pre"`
	Relay   bool        `json:"relay"`   // answer Pre first, start the relay, then backend + plugins race with the client
	Senders [][]c13Send `json:"senders"` // per goroutine; in relay mode sender 0 is the backend (Data may be empty there)
	Lifo    bool        `json:"lifo"`    // the client answers the newest received message first
	FailMod int         `json:"failMod"` // every FailMod-th answer is a failure (0 = never)
}

func c13RunRace(c c13RaceCase) verifkit.Result {
	if !c13ValidSends(c.Pre, 0) {
		return verifkit.Result{Labels: []string{"invalid-case"}}
	}
	next := 0
	c13AssignTags(c.Pre, &next)
	for i := range c.Senders {
		for k := range c.Senders[i] {
			if c.Relay && i == 0 {
				c.Senders[i][k].Chain = nil
				c.Senders[i][k].tag = -100 - k
				continue
			}
			if !c13ValidSends(c.Senders[i][k:k+1], 0) {
				return verifkit.Result{Labels: []string{"invalid-case"}}
			}
		}
		if !(c.Relay && i == 0) {
			c13AssignTags(c.Senders[i], &next)
		}
	}
	h := c13NewHarness()
	m := &c13Model{msgs: map[int]*c13MMsg{}, nextTag: next}
	j := &c13Judge{h: h, m: m, labels: map[string]bool{}}
	if r := j.fire(c.Pre); r != nil {
		return *r
	}
	if c.Relay {
		// sequential prefix: answer everything outstanding (chains included), then start the relay
		for guard := 0; guard < 200; guard++ {
			var out *c13MMsg
			for _, x := range m.order {
				if x.written && !x.done {
					out = x
					break
				}
			}
			if out == nil {
				break
			}
			if r := j.respondTo("prefix response", out.id, true, []byte{byte(guard)}); r != nil {
				return *r
			}
		}
		if m.completed != 1 {
			return verifkit.Fail("completion:missing", "completion count %d after answering every pre-login message", m.completed)
		}
		h.startRelay()
		j.label("relay")
	} else {
		j.label("async-plugin-sends")
	}
	pk0, installs0 := h.client.snapshot()
	base := len(pk0)
	h.mu.Lock()
	inv0 := len(h.invocations)
	h.mu.Unlock()
	b0, _ := h.backend.snapshot()

	// ---- concurrent phase
	type answer struct {
		id      int
		success bool
		data    []byte
	}
	var answers []answer // written by the reader goroutine only
	sendersDone := make(chan struct{})
	start := make(chan struct{})
	var wg sync.WaitGroup
	wr := verifkit.Watch(10*time.Second, "proxy.", func() {
		for i := range c.Senders {
			i := i
			wg.Add(1)
			go func() {
				defer wg.Done()
				<-start
				for k := range c.Senders[i] {
					if c.Relay && i == 0 {
						h.relayMsg(k, c.Senders[i][k].Data) // backend message ids 0,1,2,... overlap the client-side ids
					} else {
						h.realSend(&c.Senders[i][k])
					}
				}
			}()
		}
		readerDone := make(chan struct{})
		go func() {
			defer close(readerDone)
			<-start
			answered := map[int]bool{}
			n := 0
			for {
				pk, _ := h.client.snapshot()
				var avail []int
				for _, p := range pk[base:] {
					if lm, ok := p.(*packet.LoginPluginMessage); ok && !answered[lm.ID] {
						avail = append(avail, lm.ID)
					}
				}
				if !c.Relay {
					// messages of the sequential phase that are still outstanding
					for _, x := range m.order {
						if x.written && !x.done && !answered[x.id] {
							avail = append(avail, x.id)
						}
					}
				}
				if len(avail) > 0 {
					id := avail[0]
					if c.Lifo {
						id = avail[len(avail)-1]
					}
					answered[id] = true
					n++
					a := answer{id: id, success: !(c.FailMod > 0 && n%c.FailMod == 0), data: []byte{byte(n), byte(id)}}
					if n%5 == 0 {
						a.data = nil
					}
					answers = append(answers, a)
					h.respond(a.id, a.success, a.data)
					continue
				}
				select {
				case <-h.client.notify:
				case <-sendersDone:
					// senders finished: drain once more, then stop when nothing is left
					pk, _ := h.client.snapshot()
					more := false
					for _, p := range pk[base:] {
						if lm, ok := p.(*packet.LoginPluginMessage); ok && !answered[lm.ID] {
							more = true
						}
					}
					if !more {
						return
					}
				}
			}
		}()
		close(start)
		wg.Wait()
		close(sendersDone)
		<-readerDone
	})
	switch wr.Outcome {
	case verifkit.Deadlocked:
		return verifkit.Fail("deadlock:login-plugin", "concurrent send/response blocked:\n%s", wr.Stack)
	case verifkit.Slow:
		return verifkit.Result{Inconclusive: true, Labels: []string{"slow"}}
	case verifkit.Panicked:
		return verifkit.Fail("panic:login-plugin", "%v\n%s", wr.PanicValue, wr.PanicStack)
	}

	// ---- judge the whole concurrent phase (valid for every interleaving)
	if len(h.sendErrs) > 0 {
		return verifkit.Fail("send:valid-rejected", "valid sends were rejected: %v", h.sendErrs)
	}
	pk, installs := h.client.snapshot()
	type cmsg struct {
		ch   string
		data []byte
	}
	byID := map[int]cmsg{}
	for _, x := range m.order {
		if x.written && !x.done {
			byID[x.id] = cmsg{x.spec.Chan, x.spec.Data}
		}
	}
	for _, p := range pk[base:] {
		lm, ok := p.(*packet.LoginPluginMessage)
		if !ok {
			return verifkit.Fail("client:unexpected-packet", "client received %T", p)
		}
		if _, dup := byID[lm.ID]; dup || m.byID(lm.ID) != nil {
			return verifkit.Fail("send:duplicate-id", "message id %d issued twice", lm.ID)
		}
		byID[lm.ID] = cmsg{lm.Channel, lm.Data}
	}
	// every send of the concurrent phase must have reached the client exactly once
	type sk struct {
		ch   string
		data string
	}
	wantSends := map[sk]int{}
	total := 0
	var walk func(ss []c13Send)
	walk = func(ss []c13Send) {
		for i := range ss {
			wantSends[sk{ss[i].Chan, string(ss[i].Data)}]++
			total++
			walk(ss[i].Chain)
		}
	}
	nRelay := 0
	for i := range c.Senders {
		if c.Relay && i == 0 {
			nRelay = len(c.Senders[i])
			continue
		}
		walk(c.Senders[i])
	}
	if !c.Relay {
		// chains of still-outstanding pre messages are sent during the concurrent phase
		for _, x := range m.order {
			if x.written && !x.done {
				walk(x.spec.Chain)
			}
		}
	}
	gotSends := map[sk]int{}
	gotRelay := 0
	for _, p := range pk[base:] {
		lm := p.(*packet.LoginPluginMessage)
		if c.Relay && lm.Channel == ForgeLoginWrapperChannel { // only the backend uses this channel (see generator)
			gotRelay++
			continue
		}
		gotSends[sk{lm.Channel, string(lm.Data)}]++
	}
	for k, n := range wantSends {
		if gotSends[k] != n {
			return verifkit.Fail("send:not-written-once", "message channel %q data %x sent %d time(s) but written %d time(s) to the client", k.ch, k.data, n, gotSends[k])
		}
	}
	for k, n := range gotSends {
		if wantSends[k] != n {
			return verifkit.Fail("send:not-written-once", "client received channel %q data %x %d time(s), sent %d time(s)", k.ch, k.data, n, wantSends[k])
		}
	}
	if gotRelay != nRelay {
		return verifkit.Fail("relay:client-message-mismatch", "backend relayed %d messages, client received %d", nRelay, gotRelay)
	}
	// consumers: exactly one invocation per answered plugin message, with the data of the answer to its id
	ansByID := map[int]answer{}
	for _, a := range answers {
		ansByID[a.id] = a
	}
	h.mu.Lock()
	inv := append([]c13Invocation(nil), h.invocations[inv0:]...)
	h.mu.Unlock()
	specOf := map[int]*c13Send{}
	var idx func(ss []c13Send)
	idx = func(ss []c13Send) {
		for i := range ss {
			specOf[ss[i].tag] = &ss[i]
			idx(ss[i].Chain)
		}
	}
	idx(c.Pre)
	for i := range c.Senders {
		if !(c.Relay && i == 0) {
			idx(c.Senders[i])
		}
	}
	seenTag := map[int]bool{}
	usedAnswer := map[int]bool{}
	for _, v := range inv {
		if seenTag[v.tag] {
			return verifkit.Fail("consumer:invoked-again", "consumer of message tag %d was invoked twice", v.tag)
		}
		seenTag[v.tag] = true
		sp := specOf[v.tag]
		if sp == nil {
			return verifkit.Fail("consumer:unexpected-invocation", "unknown consumer tag %d invoked", v.tag)
		}
		// find an unused answer whose id carries this consumer's message and whose data matches
		found := false
		for _, a := range answers {
			if usedAnswer[a.id] {
				continue
			}
			cm := byID[a.id]
			if cm.ch != sp.Chan || !bytes.Equal(cm.data, sp.Data) {
				continue
			}
			wantNil := !a.success
			var wantData []byte
			if a.success {
				wantData = append([]byte{}, a.data...)
			}
			if v.nilD == wantNil && bytes.Equal(v.data, wantData) {
				usedAnswer[a.id] = true
				found = true
				break
			}
		}
		if !found {
			return verifkit.Fail("consumer:wrong-data", "consumer tag %d (channel %q data %x) was invoked with nil=%v data=%x, which is not the client's answer to its message id", v.tag, sp.Chan, sp.Data, v.nilD, v.data)
		}
	}
	if len(inv) != total+func() int {
		n := 0
		if !c.Relay {
			for _, x := range m.order {
				if x.written && !x.done {
					n++
				}
			}
		}
		return n
	}() {
		return verifkit.Fail("consumer:not-invoked", "%d consumers invoked in the concurrent phase, %d plugin messages were answered", len(inv), total)
	}
	// relay answers: exactly one per backend id, carrying the client's reply for the client id that carried it
	bp, _ := h.backend.snapshot()
	newB := bp[len(b0):]
	if len(newB) != nRelay {
		return verifkit.Fail("relay:backend-not-answered", "backend sent %d messages and received %d answers", nRelay, len(newB))
	}
	seenB := map[int]bool{}
	// judge answers to backend messages with a distinguishing payload first
	sort.SliceStable(newB, func(a, b int) bool {
		ga, oka := newB[a].(*packet.LoginPluginResponse)
		gb, okb := newB[b].(*packet.LoginPluginResponse)
		if !oka || !okb || ga.ID < 0 || ga.ID >= nRelay || gb.ID < 0 || gb.ID >= nRelay {
			return false
		}
		return len(c.Senders[0][ga.ID].Data) > 0 && len(c.Senders[0][gb.ID].Data) == 0
	})
	for _, p := range newB {
		g, ok := p.(*packet.LoginPluginResponse)
		if !ok {
			return verifkit.Fail("relay:unexpected-backend-answer", "backend received %T", p)
		}
		if g.ID < 0 || g.ID >= nRelay {
			return verifkit.Fail("relay:wrong-backend-id", "backend answer carries id %d, backend ids are 0..%d", g.ID, nRelay-1)
		}
		if seenB[g.ID] {
			return verifkit.Fail("relay:unexpected-backend-answer", "backend id %d answered twice", g.ID)
		}
		seenB[g.ID] = true
		// which client id carried backend message g.ID? the k-th relayed message has data Senders[0][k].Data
		want := c.Senders[0][g.ID].Data
		ok = false
		for _, a := range answers {
			cm := byID[a.id]
			if cm.ch != ForgeLoginWrapperChannel || usedAnswer[a.id] {
				continue
			}
			if len(want) > 0 && !bytes.Equal(cm.data, want) {
				continue
			}
			var wd []byte
			if a.success {
				wd = append([]byte{}, a.data...)
			}
			if g.Success == a.success && bytes.Equal(g.Data, wd) {
				usedAnswer[a.id] = true
				ok = true
				break
			}
		}
		if !ok {
			return verifkit.Fail("relay:wrong-reply", "backend id %d answered success=%v data=%x, which is not the client's reply to the message that carried it", g.ID, g.Success, g.Data)
		}
	}
	// completion
	delta := installs - installs0
	switch {
	case c.Relay && delta != 0:
		return verifkit.Fail("completion:rerun-during-relay", "login completion ran %d more time(s) during the relay", delta)
	case !c.Relay && m.completed == 0 && delta == 0:
		return verifkit.Fail("completion:missing", "everything was answered but login completion never ran")
	case !c.Relay && m.completed+delta > 1:
		// same root cause as the sequential late-send history: a send after completion re-arms it
		return verifkit.Fail("completion:rerun-after-late-send", "login completion ran %d time(s) in total", m.completed+delta)
	}
	if len(answers) >= 2 {
		j.nt = true
	}
	if c.Lifo {
		j.label("client-answers-newest-first")
	}
	if total+nRelay >= 4 {
		j.label("4+-concurrent-messages")
	}
	return j.result()
}

// c13Uniq prefixes every payload in the send tree with a unique counter and keeps
// plugin sends off the Forge channel, so a client-side packet identifies its send.
func c13Uniq(s *c13Send, n *int) {
	*n++
	s.Data = append([]byte{byte(*n >> 8), byte(*n)}, s.Data...)
	if s.Chan == ForgeLoginWrapperChannel {
		s.Chan = "verif:c"
	}
	for i := range s.Chain {
		c13Uniq(&s.Chain[i], n)
	}
}

func c13GenRace(t *rapid.T) c13RaceCase {
	var c c13RaceCase
	c.Relay = rapid.IntRange(0, 2).Draw(t, "relay") > 0
	npre := rapid.IntRange(0, 3).Draw(t, "npre")
	if !c.Relay {
		npre = rapid.IntRange(1, 3).Draw(t, "npre1")
	}
	for i := 0; i < npre; i++ {
		c.Pre = append(c.Pre, c13GenSend(t, 1))
	}
	ns := rapid.IntRange(1, 3).Draw(t, "nsenders")
	uniq := 0
	emptyUsed := false
	for i := 0; i < ns; i++ {
		var ss []c13Send
		for k, n := 0, rapid.IntRange(1, 5).Draw(t, "nmsgs"); k < n; k++ {
			s := c13GenSend(t, 1)
			// make payloads distinguishable so the client-side packet identifies the send
			c13Uniq(&s, &uniq)
			if c.Relay && i == 0 {
				s.Chan, s.Chain = ForgeLoginWrapperChannel, nil
				if !emptyUsed && rapid.IntRange(0, 5).Draw(t, "emptyRelay") == 0 {
					s.Data, emptyUsed = nil, true // at most one backend message without payload
				}
			}
			ss = append(ss, s)
		}
		c.Senders = append(c.Senders, ss)
	}
	for i := range c.Pre {
		c13Uniq(&c.Pre[i], &uniq)
	}
	c.Lifo = rapid.Bool().Draw(t, "lifo")
	c.FailMod = rapid.SampledFrom([]int{0, 2, 3}).Draw(t, "failMod")
	return c
}

func TestVerif_C13(t *testing.T) {
	verifkit.Check(t, "C13", "history",
		"real ServerLogin handling with a PreLogin subscriber sending 0..4 messages (consumers may chain further sends, depth<=2, or return errors), then <=16 ops over {client response to the k-th outstanding / an already answered / a never issued id, success or failure, empty or non-empty data; further sends after the event (20% of cases: reaches sends after completion); API-rejected sends; Forge relay start and backend fml:loginwrapper messages with backend ids overlapping client ids; cleanup}; every step compared with a model (outstanding set, completion count, expected client/backend packets and consumer invocations); non-trivial = >=2 messages outstanding and a response overtakes an older outstanding message",
		c13Gen, c13Run)
}

func TestVerif_C13Race(t *testing.T) {
	verifkit.Check(t, "C13", "concurrent",
		"after the real pre-login step, 1..3 sender goroutines (plugin goroutines; in relay mode sender 0 is the backend relaying fml:loginwrapper messages after the completion callback was cleared) each send 1..5 messages while one client read-loop goroutine answers every received message (oldest or newest first, some failures, some empty); judged by interleaving-independent facts: each send written once, each consumer invoked exactly once with the client's answer to its id, one backend answer per backend id with that reply, completion never during relay; race detector on; non-trivial = >=2 answers during the concurrent phase",
		c13GenRace, c13RunRace)
}
