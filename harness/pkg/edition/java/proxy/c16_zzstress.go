//go:build verif

package proxy

import (
	"encoding/json"
	"os"
	"testing"
)

func TestVerif_C16Stress(t *testing.T) {
	b, err := os.ReadFile(os.Getenv("C16_STRESS_CASE"))
	if err != nil {
		t.Skip()
	}
	var f struct{ Case c16Case `json:"case"` }
	if err := json.Unmarshal(b, &f); err != nil {
		t.Fatal(err)
	}
	for i := 0; i < 1500; i++ {
		r := c16Run(f.Case)
		if r.V != nil || r.Inconclusive {
			t.Fatalf("iteration %d: %+v", i, r)
		}
	}
}
