//go:build verif

package proxy

import (
	"context"
	"errors"
	"fmt"
	"net"
	"strings"
	"sync"
	"testing"
	"unicode"

	"github.com/go-logr/logr"
	"github.com/robinbraemer/event"
	"go.minekube.com/common/minecraft/component"
	"pgregory.net/rapid"

	"go.minekube.com/gate/pkg/edition/java/auth"
	"go.minekube.com/gate/pkg/edition/java/config"
	"go.minekube.com/gate/pkg/edition/java/netmc"
	"go.minekube.com/gate/pkg/edition/java/profile"
	"go.minekube.com/gate/pkg/edition/java/proto/packet"
	"go.minekube.com/gate/pkg/edition/java/proto/state"
	"go.minekube.com/gate/pkg/edition/java/proxy/phase"
	"go.minekube.com/gate/pkg/gate/proto"
	"go.minekube.com/gate/pkg/internal/verifkit"
	"go.minekube.com/gate/pkg/util/netutil"
	"go.minekube.com/gate/pkg/util/uuid"
)

// C17: initial / fallback server choice.
//
// Sub-check "choice": generated histories (login, connected, kick, unregister,
// register) applied to a struct-literal connectedPlayer on a Proxy whose servers
// are registered through the real Register/Unregister; every nextServerToTry
// call is compared with a reference model written here.
//
// Sub-check "kick-flow": the real handleDisconnectWithReason / handleConnectionErr
// -> handleConnectionErr2 -> handleKickEvent -> connectionRequest.connect chain
// with ServerDialer backends that all refuse; the order of dial attempts and the
// final Disconnect packet are compared with the same model.
//
// Reference model. The candidate list is forcedHosts[clean(vhost)] if non-empty
// else try. "Next listed server" is read in the two ways the sentence allows and
// an exact answer is only demanded where both agree:
//   M1 (monotone cursor): first index >= cursor whose server is registered and not
//      failed / current / in flight; cursor follows the scan, reset by a successful connect;
//   M2 (failed set): first listed server that is registered, not failed / current /
//      in flight and has not failed since the last successful connect.
// Where they differ (a server skipped earlier became eligible again, duplicates in
// the list) either answer is accepted and the rest of that recovery chain is only
// held to the validity predicate (listed, registered, not excluded).

// ---------------------------------------------------------------- case types

type c17Server struct {
	Name string `json:"name"`
	Addr string `json:"addr"`
}

type c17Config struct {
	Servers      []c17Server         `json:"servers"`
	ForcedHosts  map[string][]string `json:"forced_hosts"` // keys lower-cased as the loader does
	Try          []string            `json:"try"`
	Unregistered []string            `json:"unregistered"`   // config servers unregistered through the API before the history
	ServerAddr   string              `json:"server_address"` // what the client put into its handshake
	Port         int                 `json:"port"`
}

type c17Step struct {
	Op       string `json:"op"`        // login | connected | kick | unregister | register
	Server   string `json:"server"`    // connected/unregister/register: which; kick with no current server: the server that failed
	InFlight string `json:"in_flight"` // kick: server of the connection in flight ("" none)
}

type c17Case struct {
	Cfg   c17Config `json:"cfg"`
	Steps []c17Step `json:"steps"`
}

type c17FlowCase struct {
	Cfg      c17Config `json:"cfg"`
	Login    bool      `json:"login"`     // nextServerToTry(nil) was called at login
	Current  string    `json:"current"`   // connected server ("" none)
	InFlight string    `json:"in_flight"` // connection in flight ("" none)
	Failed   string    `json:"failed"`    // used when Current == "": the server whose connection attempt failed
	ByError  bool      `json:"by_error"`  // failure is a connection error instead of a Disconnect packet
}

// ---------------------------------------------------------------- fixture

type c17Conn struct {
	ctx     context.Context
	cancel  context.CancelFunc
	written []proto.Packet
	closed  int
}

func (c *c17Conn) Context() context.Context { return c.ctx }
func (c *c17Conn) Close() error             { c.closed++; c.cancel(); return nil }
func (c *c17Conn) State() *state.Registry   { return state.Play }
func (c *c17Conn) Protocol() proto.Protocol { return 767 }
func (c *c17Conn) RemoteAddr() net.Addr {
	return &net.TCPAddr{IP: net.IPv4(203, 0, 113, 7), Port: 40000}
}
func (c *c17Conn) LocalAddr() net.Addr                                           { return &net.TCPAddr{} }
func (c *c17Conn) Type() phase.ConnectionType                                    { return phase.Vanilla }
func (c *c17Conn) SetType(phase.ConnectionType)                                  {}
func (c *c17Conn) ActiveSessionHandler() netmc.SessionHandler                    { return nil }
func (c *c17Conn) SetActiveSessionHandler(*state.Registry, netmc.SessionHandler) {}
func (c *c17Conn) SwitchSessionHandler(*state.Registry) bool                     { return true }
func (c *c17Conn) AddSessionHandler(*state.Registry, netmc.SessionHandler)       {}
func (c *c17Conn) SetAutoReading(bool)                                           {}
func (c *c17Conn) SetOutboundState(*state.Registry)                              {}
func (c *c17Conn) SetProtocol(proto.Protocol)                                    {}
func (c *c17Conn) SetState(*state.Registry)                                      {}
func (c *c17Conn) SetCompressionThreshold(int) error                             { return nil }
func (c *c17Conn) EnableEncryption([]byte) error                                 { return nil }
func (c *c17Conn) WritePacket(p proto.Packet) error {
	if c.ctx.Err() != nil {
		return netmc.ErrClosedConn
	}
	c.written = append(c.written, p)
	return nil
}
func (c *c17Conn) Write([]byte) error                { return nil }
func (c *c17Conn) BufferPacket(p proto.Packet) error { return c.WritePacket(p) }
func (c *c17Conn) BufferPayload([]byte) error        { return nil }
func (c *c17Conn) Flush() error                      { return nil }
func (c *c17Conn) Reader() netmc.Reader              { return nil }
func (c *c17Conn) Writer() netmc.Writer              { return nil }
func (c *c17Conn) EnablePlayPacketQueue()            {}

var _ netmc.MinecraftConn = (*c17Conn)(nil)

// c17Info is a ServerInfo whose Dial records the attempt and refuses.
type c17Info struct {
	name  string
	addr  net.Addr
	dials *[]string
}

func (i *c17Info) Name() string   { return i.name }
func (i *c17Info) Addr() net.Addr { return i.addr }

// c17EndlessDials stops a recovery chain that does not terminate (every dial is
// refused, so a correct chain ends after at most one attempt per listed server).
type c17EndlessDials struct{}

func (i *c17Info) Dial(context.Context, Player) (net.Conn, error) {
	*i.dials = append(*i.dials, i.name)
	if len(*i.dials) > 64 {
		panic(c17EndlessDials{})
	}
	return nil, errors.New("c17: backend refuses connections")
}

type c17Fixture struct {
	proxy  *Proxy
	player *connectedPlayer
	conn   *c17Conn
	infos  map[string]*c17Info
	dials  []string
}

func c17Build(c c17Config) (*c17Fixture, error) {
	f := &c17Fixture{infos: map[string]*c17Info{}}
	servers := map[string]string{}
	for _, s := range c.Servers {
		servers[s.Name] = s.Addr
	}
	cfg := &config.Config{Servers: servers, ForcedHosts: c.ForcedHosts, Try: c.Try, ConnectionTimeout: 5000, ReadTimeout: 5000}
	f.proxy = &Proxy{log: logr.Discard(), cfg: cfg, event: event.Nop,
		servers: map[string]*registeredServer{}, configServers: map[string]bool{}}
	for _, s := range c.Servers {
		info := &c17Info{name: s.Name, addr: netutil.NewAddr(s.Addr, "tcp"), dials: &f.dials}
		f.infos[s.Name] = info
		if _, err := f.proxy.Register(info); err != nil {
			return nil, fmt.Errorf("register %q: %w", s.Name, err)
		}
	}
	for _, n := range c.Unregistered {
		if !f.proxy.Unregister(f.infos[n]) {
			return nil, fmt.Errorf("unregister %q failed", n)
		}
	}
	ctx, cancel := context.WithCancel(context.Background())
	f.conn = &c17Conn{ctx: ctx, cancel: cancel}
	f.player = &connectedPlayer{
		MinecraftConn:      f.conn,
		sessionHandlerDeps: &sessionHandlerDeps{proxy: f.proxy, configProvider: f.proxy, eventMgr: event.Nop},
		log:                logr.Discard(),
		profile:            &profile.GameProfile{ID: uuid.UUID{1, 2, 3}, Name: "Player"},
		// exactly as handshakeSessionHandler.handleHandshake builds it
		virtualHost: virtualHostAddr(c.ServerAddr, int(c.Port), "tcp"), // the real construction used by handleHandshake
	}
	return f, nil
}

// c17RS returns a RegisteredServer value for a configured server name, whether
// or not it is currently registered (a player can still be connected to a
// server that was unregistered meanwhile).
func (f *c17Fixture) rs(name string) *registeredServer {
	if s := f.proxy.server(name); s != nil && s.ServerInfo().Name() == name {
		return s
	}
	return newRegisteredServer(f.infos[name])
}

func (f *c17Fixture) serverConn(name string) *serverConnection {
	if name == "" {
		return nil
	}
	return &serverConnection{server: f.rs(name), player: f.player, log: logr.Discard()}
}

// ---------------------------------------------------------------- reference model

// c17HostKeys returns the forced-host lookup keys the statement allows for a
// client ServerAddress: Forge NUL parts, TCPShield "///" suffix and (for hosts
// without one of these) a ":port" removed, lower-cased. Surrounding dots are not
// mentioned by the statement, so both the trimmed and the untrimmed spelling are
// returned when they differ.
func c17HostKeys(serverAddr string) []string {
	h := serverAddr
	if i := strings.IndexByte(h, 0); i >= 0 {
		h = h[:i]
	}
	if i := strings.Index(h, "///"); i >= 0 {
		h = h[:i]
	}
	lower := strings.ToLower(h)
	trimmed := strings.Trim(lower, ".")
	if trimmed != lower {
		return []string{trimmed, lower}
	}
	return []string{lower}
}

type c17Model struct {
	cfg        c17Config
	registered map[string]bool
	lists      [][]string // acceptable candidate lists (1, or 2 for dotted hosts)
	cursor     []int      // M1 cursor per list
	failedSet  map[string]bool
	ambiguous  bool // this recovery chain already had an ambiguous step
}

func c17NewModel(c c17Config) *c17Model {
	m := &c17Model{cfg: c, registered: map[string]bool{}, failedSet: map[string]bool{}}
	for _, s := range c.Servers {
		m.registered[s.Name] = true
	}
	for _, n := range c.Unregistered {
		m.registered[n] = false
	}
	seen := map[string]bool{}
	for _, k := range c17HostKeys(c.ServerAddr) {
		l := c.ForcedHosts[k]
		if len(l) == 0 {
			l = c.Try
		}
		sig := strings.Join(l, "\x00")
		if !seen[sig] {
			seen[sig] = true
			m.lists = append(m.lists, l)
			m.cursor = append(m.cursor, 0)
		}
	}
	return m
}

func (m *c17Model) connected() {
	for i := range m.cursor {
		m.cursor[i] = 0
	}
	m.failedSet = map[string]bool{}
	m.ambiguous = false
}

type c17Expect struct {
	exact   bool            // got must be one of answers
	answers map[string]bool // "" = none
	valid   map[string]bool // validity predicate: listed (in any acceptable list), registered, not excluded; "" always valid
}

func (m *c17Model) next(failed, current, inFlight string) c17Expect {
	excl := map[string]bool{}
	for _, n := range []string{failed, current, inFlight} {
		if n != "" {
			excl[n] = true
		}
	}
	if failed != "" {
		m.failedSet[failed] = true
	}
	e := c17Expect{answers: map[string]bool{}, valid: map[string]bool{"": true}}
	agree := true
	for li, list := range m.lists {
		// M1
		m1 := ""
		for i := m.cursor[li]; i < len(list); i++ {
			if excl[list[i]] {
				continue
			}
			m.cursor[li] = i
			if m.registered[list[i]] {
				m1 = list[i]
				break
			}
		}
		// M2
		m2 := ""
		for _, n := range list {
			if !excl[n] && !m.failedSet[n] && m.registered[n] {
				m2 = n
				break
			}
		}
		e.answers[m1] = true
		e.answers[m2] = true
		if m1 != m2 {
			agree = false
		}
		for _, n := range list {
			if !excl[n] && m.registered[n] {
				e.valid[n] = true
			}
		}
	}
	_ = agree
	if len(e.answers) > 1 {
		// the two readings (or the two acceptable host spellings) disagree: from here to the
		// next successful connect only the validity predicate is enforced
		m.ambiguous = true
	}
	e.exact = !m.ambiguous
	return e
}

func c17Name(rs RegisteredServer) string {
	if rs == nil {
		return ""
	}
	return rs.ServerInfo().Name()
}

func c17Judge(e c17Expect, got string, where string) *verifkit.Violation {
	if !e.valid[got] {
		return verifkit.Violationf("choice:invalid-server", "%s: chose %q which is not a listed, registered, non-excluded server (valid: %v)", where, got, c17Keys(e.valid))
	}
	if e.exact && !e.answers[got] {
		if got == "" {
			return verifkit.Violationf("choice:gave-up-early", "%s: no server chosen, the next listed eligible server is %v", where, c17Keys(e.answers))
		}
		return verifkit.Violationf("choice:wrong-server", "%s: chose %q, the next listed eligible server is %v", where, got, c17Keys(e.answers))
	}
	return nil
}

func c17Keys(m map[string]bool) []string {
	var out []string
	for _, k := range []string{""} {
		if m[k] {
			out = append(out, "<none>")
		}
	}
	var rest []string
	for k := range m {
		if k != "" {
			rest = append(rest, k)
		}
	}
	// deterministic order
	for i := 0; i < len(rest); i++ {
		for j := i + 1; j < len(rest); j++ {
			if rest[j] < rest[i] {
				rest[i], rest[j] = rest[j], rest[i]
			}
		}
	}
	return append(out, rest...)
}

func c17CfgLabels(c c17Config, m *c17Model) (labels []string, forced bool) {
	for _, k := range c17HostKeys(c.ServerAddr) {
		if len(c.ForcedHosts[k]) > 0 {
			forced = true
		}
	}
	if forced {
		labels = append(labels, "forced-host-applies")
	} else {
		labels = append(labels, "try-list")
	}
	h := c.ServerAddr
	if strings.IndexByte(h, 0) >= 0 {
		labels = append(labels, "vhost-forge-suffix")
	}
	if strings.Contains(h, "///") {
		labels = append(labels, "vhost-tcpshield")
	}
	if strings.IndexFunc(h, unicode.IsUpper) >= 0 {
		labels = append(labels, "vhost-upper-case")
	}
	if len(m.lists) > 1 {
		labels = append(labels, "vhost-dots-ambiguous")
	}
	return
}

// ---------------------------------------------------------------- run: choice

// c17InitNames: the servers of the configuration as the proxy registers them at
// start-up (Proxy.init). The try list and the forced hosts refer to servers by
// the configured spelling, and the choice of the next server compares names, so a
// server must be registered under exactly the name it is configured with.
func c17InitNames(c c17Config) *verifkit.Violation {
	servers := map[string]string{}
	for _, s := range c.Servers {
		servers[s.Name] = s.Addr
	}
	cfg := config.DefaultConfig
	cfg.Servers, cfg.Try, cfg.ForcedHosts = servers, append([]string(nil), c.Try...), map[string][]string{}
	cfg.Lite.Enabled = false
	p, err := New(Options{Config: &cfg, EventMgr: event.Nop, Authenticator: c17Auth()})
	if err != nil {
		return nil // not a configuration the proxy starts with; nothing to compare
	}
	if err := p.init(); err != nil {
		return nil
	}
	for name := range servers {
		rs := p.Server(name)
		if rs == nil {
			return verifkit.Violationf("init:server-missing", "server %q of the configuration is not registered after Proxy.init", name)
		}
		if got := rs.ServerInfo().Name(); got != name {
			return verifkit.Violationf("init:server-name-changed", "server configured as %q is registered as %q; the try list / forced hosts name it %q and the next-server choice compares names exactly", name, got, name)
		}
	}
	return nil
}

var (
	c17AuthOnce sync.Once
	c17AuthV    auth.Authenticator
)

func c17Auth() auth.Authenticator {
	c17AuthOnce.Do(func() {
		a, err := auth.New(auth.Options{})
		if err != nil {
			panic(err)
		}
		c17AuthV = a
	})
	return c17AuthV
}

func c17Run(c c17Case) verifkit.Result {
	if v := c17InitNames(c.Cfg); v != nil {
		return verifkit.Result{V: v}
	}
	f, err := c17Build(c.Cfg)
	if err != nil {
		return verifkit.Fail("harness:fixture", "%v", err)
	}
	defer f.conn.cancel()
	m := c17NewModel(c.Cfg)
	labels, forced := c17CfgLabels(c.Cfg, m)
	current := ""
	skippedEligible := false
	for i, st := range c.Steps {
		where := fmt.Sprintf("step %d (%s %s)", i, st.Op, st.Server)
		switch st.Op {
		case "login":
			got := c17Name(f.player.nextServerToTry(nil))
			e := m.next("", "", "")
			if v := c17Judge(e, got, where+" vhost "+fmt.Sprintf("%q", c.Cfg.ServerAddr)); v != nil {
				v.Key = "initial:" + strings.TrimPrefix(v.Key, "choice:")
				if c17ColonHost(c.Cfg.ServerAddr) && forced {
					v.Key = "initial:colon-host-port-glued"
				}
				return verifkit.Result{V: v}
			}
			labels = append(labels, "op-login")
		case "connected":
			f.player.setConnectedServer(f.serverConn(st.Server))
			current = st.Server
			m.connected()
			labels = append(labels, "op-connected")
		case "kick":
			failed := current
			if failed == "" {
				failed = st.Server
			}
			f.player.mu.Lock()
			f.player.connInFlight = f.serverConn(st.InFlight)
			f.player.mu.Unlock()
			got := c17Name(f.player.nextServerToTry(f.rs(failed)))
			e := m.next(failed, current, st.InFlight)
			if v := c17Judge(e, got, fmt.Sprintf("%s failed=%q current=%q in-flight=%q", where, failed, current, st.InFlight)); v != nil {
				if c17ColonHost(c.Cfg.ServerAddr) && forced {
					v.Key = "initial:colon-host-port-glued"
				}
				return verifkit.Result{V: v}
			}
			if !e.exact {
				labels = append(labels, "ambiguous-next")
			}
			for _, l := range m.lists {
				for _, n := range l {
					if n == got {
						break
					}
					if !m.registered[n] || n == failed || n == current || n == st.InFlight {
						skippedEligible = true
					}
				}
			}
			if got == "" {
				labels = append(labels, "kick-none-left")
			} else {
				labels = append(labels, "kick-redirect")
			}
			if st.InFlight != "" {
				labels = append(labels, "kick-with-in-flight")
			}
			// what handleKickEvent does before it connects to the chosen server
			f.player.mu.Lock()
			f.player.connInFlight = nil
			f.player.connectedServer_ = nil
			f.player.mu.Unlock()
			current = ""
		case "unregister":
			if m.registered[st.Server] {
				if !f.proxy.Unregister(f.infos[st.Server]) {
					return verifkit.Fail("harness:unregister", "Unregister(%q) returned false", st.Server)
				}
				m.registered[st.Server] = false
				labels = append(labels, "op-unregister")
			}
		case "register":
			if !m.registered[st.Server] {
				if _, err := f.proxy.Register(f.infos[st.Server]); err != nil {
					return verifkit.Fail("harness:register", "Register(%q): %v", st.Server, err)
				}
				m.registered[st.Server] = true
				labels = append(labels, "op-register")
			}
		}
	}
	return verifkit.Result{NonTrivial: forced && skippedEligible, Labels: c17Dedup(labels)}
}

func c17ColonHost(serverAddr string) bool {
	h := serverAddr
	if i := strings.IndexByte(h, 0); i >= 0 {
		return false // ":port" follows the NUL parts and is cut off with them
	}
	if i := strings.Index(h, "///"); i >= 0 {
		return false
	}
	return strings.Contains(h, ":")
}

func c17Dedup(l []string) []string {
	seen := map[string]bool{}
	var out []string
	for _, s := range l {
		if !seen[s] {
			seen[s] = true
			out = append(out, s)
		}
	}
	return out
}

// ---------------------------------------------------------------- run: kick-flow

const c17Marker = "c17-kick-reason-marker"

func c17Text(c component.Component, depth int) string {
	if c == nil || depth > 8 {
		return ""
	}
	switch t := c.(type) {
	case *component.Text:
		s := t.Content
		for _, e := range t.Extra {
			s += c17Text(e, depth+1)
		}
		return s
	case *component.Translation:
		s := t.Key
		for _, e := range t.With {
			s += c17Text(e, depth+1)
		}
		return s
	}
	return ""
}

func c17RunFlow(c c17FlowCase) verifkit.Result {
	f, err := c17Build(c.Cfg)
	if err != nil {
		return verifkit.Fail("harness:fixture", "%v", err)
	}
	defer f.conn.cancel()
	m := c17NewModel(c.Cfg)
	labels, forced := c17CfgLabels(c.Cfg, m)
	if c.Login {
		_ = f.player.nextServerToTry(nil)
		m.next("", "", "")
		labels = append(labels, "after-login")
	}
	if c.Current != "" {
		sc := f.serverConn(c.Current)
		sc.completedJoin.Store(true)
		f.player.setConnectedServer(sc)
		m.connected()
		labels = append(labels, "kicked-from-current")
	} else {
		labels = append(labels, "failed-while-connecting")
	}
	if c.InFlight != "" {
		f.player.setInFlightConnection(f.serverConn(c.InFlight))
		labels = append(labels, "with-in-flight")
	}
	failed := c.Current
	if failed == "" {
		failed = c.Failed
	}

	// expected chain: every dial is refused, so each chosen server becomes the next failed one
	reason := &component.Text{Content: c17Marker}
	endless := func() (endless bool) {
		defer func() {
			if p := recover(); p != nil {
				if _, ok := p.(c17EndlessDials); !ok {
					panic(p)
				}
				endless = true
			}
		}()
		if c.ByError {
			labels = append(labels, "by-connection-error")
			f.player.handleConnectionErr(f.rs(failed), errors.New("c17: connection reset"), true)
		} else {
			labels = append(labels, "by-disconnect-packet")
			f.player.handleDisconnectWithReason(f.rs(failed), reason, true)
		}
		return false
	}()
	if endless {
		return verifkit.Fail("flow:endless", "the recovery chain does not terminate although every backend refuses the dial: %d dial attempts so far, %v ...", len(f.dials), f.dials[:min(12, len(f.dials))])
	}

	// judge the dial attempts against the model, step by step
	cur, inflight, fl := c.Current, c.InFlight, failed
	skipped := false
	for i := 0; ; i++ {
		e := m.next(fl, cur, inflight)
		got := ""
		if i < len(f.dials) {
			got = f.dials[i]
		}
		if v := c17Judge(e, got, fmt.Sprintf("redirect %d after %q failed (current=%q in-flight=%q; dial attempts %v)", i, fl, cur, inflight, f.dials)); v != nil {
			if c17ColonHost(c.Cfg.ServerAddr) && forced {
				v.Key = "initial:colon-host-port-glued"
			}
			return verifkit.Result{V: v}
		}
		if !e.exact {
			labels = append(labels, "ambiguous-next")
		}
		for _, l := range m.lists {
			for _, n := range l {
				if n == got {
					break
				}
				if !m.registered[n] || n == fl || n == cur || n == inflight {
					skipped = true
				}
			}
		}
		if got == "" {
			if len(f.dials) > i {
				return verifkit.Fail("flow:extra-dials", "dial attempts %v continue after the model ran out of servers", f.dials)
			}
			break
		}
		// handleKickEvent cleared current and in-flight before connecting to the chosen server
		cur, inflight, fl = "", "", got
		if i > len(c.Cfg.Servers)+len(c.Cfg.Try)+8 {
			return verifkit.Fail("flow:endless", "dial attempts do not terminate: %v", f.dials)
		}
	}
	labels = append(labels, fmt.Sprintf("redirects-%d", min(len(f.dials), 3)))

	// none remains => the player is disconnected
	var disc *packet.Disconnect
	for _, w := range f.conn.written {
		if d, ok := w.(*packet.Disconnect); ok {
			disc = d
		}
	}
	if disc == nil || f.conn.closed == 0 {
		return verifkit.Fail("flow:not-disconnected", "no server remained (dial attempts %v) but the player was not disconnected (disconnect packet %v, closed %d)", f.dials, disc != nil, f.conn.closed)
	}
	if len(f.dials) == 0 && !c.ByError {
		txt := c17Text(disc.Reason.AsComponentOrNil(), 0)
		if !strings.Contains(txt, c17Marker) {
			return verifkit.Fail("flow:kick-reason-lost", "no server remained; the disconnect reason %q does not carry the kick reason %q", txt, c17Marker)
		}
		labels = append(labels, "disconnect-with-kick-reason")
	}
	return verifkit.Result{NonTrivial: forced && skipped, Labels: c17Dedup(labels)}
}

// ---------------------------------------------------------------- generators

var c17NamePool = []string{"lobby", "Hub1", "survival", "Creative", "mini-games", "S6", "pvp.eu", "fallback"}
var c17HostPool = []string{"2001:db8::1", "play.example.com", "mc.example.org", "hub.example.com", "example.net", "192.0.2.10", "münchen.example.de", "a.b", "localhost"}

func c17GenConfig(t *rapid.T) c17Config {
	c := c17Config{ForcedHosts: map[string][]string{}}
	ns := rapid.IntRange(1, 6).Draw(t, "nservers")
	perm := rapid.Permutation(c17NamePool).Draw(t, "names")
	var names []string
	for i := 0; i < ns; i++ {
		names = append(names, perm[i])
		addr := fmt.Sprintf("127.0.0.1:%d", 25566+i)
		if i > 0 && rapid.IntRange(0, 5).Draw(t, "sameaddr") == 0 {
			addr = c.Servers[i-1].Addr // two names for one backend address: servers are told apart by name
		}
		c.Servers = append(c.Servers, c17Server{Name: perm[i], Addr: addr})
	}
	genList := func(label string, maxLen int) []string {
		n := rapid.IntRange(0, maxLen).Draw(t, label+"-len")
		p := rapid.Permutation(names).Draw(t, label+"-perm")
		var l []string
		for i := 0; i < n && i < len(p); i++ {
			l = append(l, p[i])
		}
		if len(l) > 0 && rapid.IntRange(0, 9).Draw(t, label+"-dup") == 0 {
			l = append(l, l[rapid.IntRange(0, len(l)-1).Draw(t, label+"-dupidx")])
		}
		return l
	}
	c.Try = genList("try", 4)
	hosts := rapid.Permutation(c17HostPool).Draw(t, "hosts")
	nh := rapid.IntRange(0, 3).Draw(t, "nforced")
	for i := 0; i < nh; i++ {
		key := hosts[i]
		if rapid.IntRange(0, 7).Draw(t, "subkey") == 0 && !strings.Contains(key, ":") {
			key = "sub." + key
		}
		c.ForcedHosts[strings.ToLower(key)] = genList("forced"+fmt.Sprint(i), 5)
	}
	// registered subset
	for _, n := range names {
		if rapid.IntRange(0, 3).Draw(t, "unreg-"+n) == 0 {
			c.Unregistered = append(c.Unregistered, n)
		}
	}
	// virtual host spelling
	var base string
	var keys []string
	for k := range c.ForcedHosts {
		keys = append(keys, k)
	}
	for i := 0; i < len(keys); i++ {
		for j := i + 1; j < len(keys); j++ {
			if keys[j] < keys[i] {
				keys[i], keys[j] = keys[j], keys[i]
			}
		}
	}
	switch k := rapid.IntRange(0, 9).Draw(t, "vhostkind"); {
	case k <= 5 && len(keys) > 0:
		base = rapid.SampledFrom(keys).Draw(t, "vhostkey")
	case k == 6 && len(keys) > 0: // near misses must not match
		key := rapid.SampledFrom(keys).Draw(t, "vhostkey")
		base = rapid.SampledFrom([]string{"x" + key, key + ".evil.org", key + "x", "sub." + key, strings.TrimSuffix(key, "m")}).Draw(t, "nearmiss")
		if strings.Contains(key, ":") {
			base = "2001:db8::2"
		}
	case k == 7:
		base = rapid.SampledFrom([]string{"2001:db8::1", "::1"}).Draw(t, "ip6")
	default:
		base = rapid.SampledFrom(c17HostPool).Draw(t, "otherhost")
	}
	// case changes
	switch rapid.IntRange(0, 3).Draw(t, "case") {
	case 0:
		base = strings.ToUpper(base)
	case 1:
		r := []rune(base)
		for i := range r {
			if rapid.Bool().Draw(t, "up") {
				r[i] = unicode.ToUpper(r[i])
			}
		}
		base = string(r)
	}
	if rapid.IntRange(0, 7).Draw(t, "dot") == 0 {
		base += "."
	}
	suffix := rapid.SampledFrom([]string{"", "", "", "\x00FML\x00", "\x00FML2\x00", "\x00FML3\x00", "\x00FORGE", "\x00FORGE2",
		"///198.51.100.7:50123///1700000000", "///198.51.100.7:50123///1700000000\x00FML\x00"}).Draw(t, "suffix")
	c.ServerAddr = base + suffix
	c.Port = rapid.OneOf(rapid.Just(25565), rapid.IntRange(1, 65535)).Draw(t, "port")
	return c
}

func c17GenServerName(t *rapid.T, c c17Config, label string, allowNone bool) string {
	var names []string
	if allowNone {
		names = append(names, "", "")
	}
	for _, s := range c.Servers {
		names = append(names, s.Name)
	}
	return rapid.SampledFrom(names).Draw(t, label)
}

func c17Gen(t *rapid.T) c17Case {
	c := c17Case{Cfg: c17GenConfig(t)}
	if rapid.IntRange(0, 9).Draw(t, "login") > 0 {
		c.Steps = append(c.Steps, c17Step{Op: "login"})
	}
	n := rapid.IntRange(0, 8).Draw(t, "nsteps")
	for i := 0; i < n; i++ {
		switch k := rapid.IntRange(0, 9).Draw(t, "op"); {
		case k <= 4:
			c.Steps = append(c.Steps, c17Step{Op: "kick", Server: c17GenServerName(t, c.Cfg, "failed", false), InFlight: c17GenServerName(t, c.Cfg, "inflight", true)})
		case k <= 6:
			c.Steps = append(c.Steps, c17Step{Op: "connected", Server: c17GenServerName(t, c.Cfg, "connected", false)})
		case k == 7:
			c.Steps = append(c.Steps, c17Step{Op: "unregister", Server: c17GenServerName(t, c.Cfg, "unregister", false)})
		default:
			c.Steps = append(c.Steps, c17Step{Op: "register", Server: c17GenServerName(t, c.Cfg, "register", false)})
		}
	}
	return c
}

func c17GenFlow(t *rapid.T) c17FlowCase {
	c := c17FlowCase{Cfg: c17GenConfig(t)}
	c.Login = rapid.IntRange(0, 3).Draw(t, "login") > 0
	if rapid.IntRange(0, 3).Draw(t, "hascurrent") > 0 {
		c.Current = c17GenServerName(t, c.Cfg, "current", false)
	} else {
		c.Failed = c17GenServerName(t, c.Cfg, "failed", false)
	}
	c.InFlight = c17GenServerName(t, c.Cfg, "inflight", true)
	if c.InFlight == c.Current {
		c.InFlight = "" // a connection to the current server is never started
	}
	c.ByError = rapid.IntRange(0, 2).Draw(t, "byerror") == 0
	return c
}

func TestVerif_C17(t *testing.T) {
	verifkit.Check(t, "C17", "choice",
		"configs as the loader produces them (1..6 servers, 0..3 lower-cased forced hosts with 0..5 listed servers, try 0..4, occasional duplicates), config servers unregistered/re-registered through the API, client ServerAddress spellings (case changes, port, trailing dot, FML/FML2/FML3/FORGE suffixes, TCPShield, near misses, IPv6 literal) x histories of login / connected / kick(failed, in-flight) / unregister / register; each nextServerToTry result compared with a reference model (exact where 'next listed' is unambiguous, validity predicate otherwise); non-trivial = a forced host applies and an earlier listed server was unregistered or excluded",
		c17Gen, c17Run)
	verifkit.Check(t, "C17", "kick-flow",
		"same configs; player connected to / connecting to a server, optional in-flight connection; kick by Disconnect packet or connection error through the real handleDisconnectWithReason / handleConnectionErr -> handleKickEvent -> connectionRequest.connect with ServerDialer backends that all refuse; dial order compared with the model chain, the player must end disconnected and, when no server remained at the kick, with a reason that carries the kick reason; non-trivial as above",
		c17GenFlow, c17RunFlow)
}
