//go:build verif

package proxy

import (
	"bytes"
	"encoding/binary"
	"errors"
	"fmt"
	"io"
	"net"
	"strconv"
	"strings"
	"testing"
	"time"

	"go.minekube.com/gate/pkg/edition/java/config"
	"go.minekube.com/gate/pkg/internal/verifkit"
	"go.minekube.com/gate/pkg/util/netutil"
	"pgregory.net/rapid"
)

// C33 (proxy part): proxyProtocol.wrapConnTimeout over a fake net.Conn with a
// generated RemoteAddr and generated first bytes.
//
// Oracle (from the property text and the wrapConn doc comment):
//   - peer in the trusted networks and a PROXY v1/v2 header with addresses  => RemoteAddr is the header's source, the payload follows intact;
//   - peer not in the trusted networks and any PROXY header                 => reading fails, RemoteAddr stays the peer's own;
//   - no header (a Minecraft handshake / legacy ping / nothing)             => RemoteAddr stays the peer's own and the bytes pass through intact, trusted or not;
//   - LOCAL / UNKNOWN headers from a trusted peer carry no address          => RemoteAddr stays the peer's own, payload intact.
//
// Membership is an independent bit-prefix computation on the structured entries
// (IPv4-mapped peers unmapped, zone ignored, families disjoint). The fake conn never
// blocks (data or EOF), so the read-header timeout never plays a role.

type c33PNet struct {
	Text string `json:"text"`
	IP   []byte `json:"ip"`
	Bits int    `json:"bits"`
}

type c33PPeer struct {
	// Kind: "tcp" (*net.TCPAddr), "str" (netutil.NewAddr), "pipe", "unix".
	Kind string `json:"kind"`
	IP   []byte `json:"ip,omitempty"`
	Zone string `json:"zone,omitempty"`
	Port int    `json:"port,omitempty"`
	Text string `json:"text,omitempty"`
}

type c33PHeader struct {
	// Kind: "none", "v1", "v2", "v1-unknown", "v2-local".
	Kind    string `json:"kind"`
	Src     []byte `json:"src,omitempty"`
	Dst     []byte `json:"dst,omitempty"`
	SrcPort int    `json:"src_port,omitempty"`
	DstPort int    `json:"dst_port,omitempty"`
}

type c33PCase struct {
	// Trusted: nil means "not configured" (the documented default set applies).
	Trusted   []c33PNet  `json:"trusted"`
	Peer      c33PPeer   `json:"peer"`
	Header    c33PHeader `json:"header"`
	Payload   []byte     `json:"payload"`
	Chunk     int        `json:"chunk"`
	AddrFirst bool       `json:"addr_first"`
}

// c33FakeConn delivers the header together with the start of the payload in the
// first read (the PROXY spec requires senders to emit the header at once), later
// reads in chunks; it never blocks.
type c33FakeConn struct {
	data   []byte
	pos    int
	first  int
	chunk  int
	remote net.Addr
	reads  int
}

func (c *c33FakeConn) Read(b []byte) (int, error) {
	if c.pos >= len(c.data) {
		return 0, io.EOF
	}
	n := c.chunk
	if c.reads == 0 && c.first > n {
		n = c.first
	}
	c.reads++
	if n > len(b) {
		n = len(b)
	}
	if n > len(c.data)-c.pos {
		n = len(c.data) - c.pos
	}
	copy(b, c.data[c.pos:c.pos+n])
	c.pos += n
	return n, nil
}
func (c *c33FakeConn) Write(b []byte) (int, error) { return len(b), nil }
func (c *c33FakeConn) Close() error                { return nil }
func (c *c33FakeConn) LocalAddr() net.Addr {
	return &net.TCPAddr{IP: net.IPv4(192, 0, 2, 1), Port: 25565}
}
func (c *c33FakeConn) RemoteAddr() net.Addr             { return c.remote }
func (c *c33FakeConn) SetDeadline(time.Time) error      { return nil }
func (c *c33FakeConn) SetReadDeadline(time.Time) error  { return nil }
func (c *c33FakeConn) SetWriteDeadline(time.Time) error { return nil }

func c33PIsMapped(ip []byte) bool {
	if len(ip) != 16 {
		return false
	}
	for i := 0; i < 10; i++ {
		if ip[i] != 0 {
			return false
		}
	}
	return ip[10] == 0xff && ip[11] == 0xff
}

func c33PMember(nets []c33PNet, ip []byte) (member, near bool) {
	for _, n := range nets {
		if len(n.IP) != len(ip) {
			continue
		}
		firstDiff := -1
		for b := 0; b < 8*len(ip); b++ {
			if (n.IP[b/8]^ip[b/8])&(0x80>>(b%8)) != 0 {
				firstDiff = b
				break
			}
		}
		if firstDiff == -1 || firstDiff >= n.Bits {
			member = true
		}
		if firstDiff == n.Bits-1 || firstDiff == n.Bits {
			near = true
		}
	}
	return
}

func c33PIPString(ip []byte) string {
	if len(ip) == 4 {
		return fmt.Sprintf("%d.%d.%d.%d", ip[0], ip[1], ip[2], ip[3])
	}
	return net.IP(ip).String()
}

func (h c33PHeader) c33Bytes() []byte {
	sig2 := []byte{0x0D, 0x0A, 0x0D, 0x0A, 0x00, 0x0D, 0x0A, 0x51, 0x55, 0x49, 0x54, 0x0A}
	switch h.Kind {
	case "v1":
		fam := "TCP4"
		if len(h.Src) == 16 {
			fam = "TCP6"
		}
		return []byte("PROXY " + fam + " " + c33PIPString(h.Src) + " " + c33PIPString(h.Dst) + " " + strconv.Itoa(h.SrcPort) + " " + strconv.Itoa(h.DstPort) + "\r\n")
	case "v1-unknown":
		return []byte("PROXY UNKNOWN\r\n")
	case "v2":
		var b bytes.Buffer
		b.Write(sig2)
		b.WriteByte(0x21) // version 2, PROXY
		if len(h.Src) == 4 {
			b.WriteByte(0x11) // TCP over IPv4
			_ = binary.Write(&b, binary.BigEndian, uint16(12))
		} else {
			b.WriteByte(0x21) // TCP over IPv6
			_ = binary.Write(&b, binary.BigEndian, uint16(36))
		}
		b.Write(h.Src)
		b.Write(h.Dst)
		_ = binary.Write(&b, binary.BigEndian, uint16(h.SrcPort))
		_ = binary.Write(&b, binary.BigEndian, uint16(h.DstPort))
		return b.Bytes()
	case "v2-local":
		return append(sig2, 0x20, 0x00, 0x00, 0x00) // version 2, LOCAL, UNSPEC, length 0
	}
	return nil
}

func (p c33PPeer) c33Addr() net.Addr {
	switch p.Kind {
	case "tcp":
		return &net.TCPAddr{IP: net.IP(p.IP), Port: p.Port, Zone: p.Zone}
	case "str":
		return netutil.NewAddr(p.Text, "tcp")
	case "unix":
		return &net.UnixAddr{Name: p.Text, Net: "unix"}
	default:
		a, b := net.Pipe()
		defer a.Close()
		defer b.Close()
		return a.RemoteAddr()
	}
}

func c33PRun(c c33PCase) verifkit.Result {
	ood := verifkit.Result{Labels: []string{"out-of-domain"}}
	// harness self-checks: structured data and texts agree (old net API), header is well-formed
	var texts []string
	nets := c.Trusted
	for _, n := range c.Trusted {
		if len(n.IP) != 4 && len(n.IP) != 16 || c33PIsMapped(n.IP) || n.Bits < 0 || n.Bits > 8*len(n.IP) {
			return ood
		}
		ip, ipn, err := net.ParseCIDR(n.Text)
		if err != nil {
			pip := net.ParseIP(n.Text)
			if pip == nil || !pip.Equal(net.IP(n.IP)) || n.Bits != 8*len(n.IP) {
				return ood
			}
		} else {
			ones, _ := ipn.Mask.Size()
			if !ip.Equal(net.IP(n.IP)) || ones != n.Bits {
				return ood
			}
		}
		texts = append(texts, n.Text)
	}
	if c.Trusted == nil {
		// documented default set (config.DefaultProxyProtocolTrustedProxies doc comment)
		nets = []c33PNet{
			{IP: []byte{127, 0, 0, 0}, Bits: 8}, {IP: net.ParseIP("::1"), Bits: 128},
			{IP: []byte{10, 0, 0, 0}, Bits: 8}, {IP: []byte{172, 16, 0, 0}, Bits: 12}, {IP: []byte{192, 168, 0, 0}, Bits: 16},
			{IP: []byte{169, 254, 0, 0}, Bits: 16}, {IP: net.ParseIP("fc00::"), Bits: 7}, {IP: net.ParseIP("fe80::"), Bits: 10},
		}
	} else if len(c.Trusted) == 0 {
		return ood // an empty configured list is indistinguishable from "not configured"
	}
	hasHeader := c.Header.Kind != "none"
	carriesAddr := c.Header.Kind == "v1" || c.Header.Kind == "v2"
	if carriesAddr {
		if len(c.Header.Src) != len(c.Header.Dst) || (len(c.Header.Src) != 4 && len(c.Header.Src) != 16) ||
			c33PIsMapped(c.Header.Src) || c33PIsMapped(c.Header.Dst) ||
			c.Header.SrcPort < 0 || c.Header.SrcPort > 65535 || c.Header.DstPort < 0 || c.Header.DstPort > 65535 {
			return ood
		}
	}
	if !hasHeader && len(c.Payload) >= 2 {
		// a stream without a header is a Minecraft stream: VarInt length then packet id 0x00, or a legacy ping 0xFE
		if !(c.Payload[1] == 0x00 || c.Payload[0] == 0xFE) {
			return ood
		}
	}
	if c.Chunk < 1 {
		return ood
	}

	pp, err := newProxyProtocol(&config.Config{ProxyProtocol: true, ProxyProtocolTrustedProxies: texts})
	if err != nil {
		return verifkit.Fail("wrap:config-rejected", "newProxyProtocol rejected valid trusted proxies %q: %v", texts, err)
	}
	own := c.Peer.c33Addr()
	hdr := c.Header.c33Bytes()
	fc := &c33FakeConn{data: append(append([]byte{}, hdr...), c.Payload...), first: len(hdr), chunk: c.Chunk, remote: own}
	if fc.first < 1 {
		fc.first = 1
	}

	// reference membership
	var pip []byte
	mapped := false
	if (c.Peer.Kind == "tcp" || c.Peer.Kind == "str") && (len(c.Peer.IP) == 4 || len(c.Peer.IP) == 16) {
		pip = c.Peer.IP
		if c33PIsMapped(pip) {
			pip, mapped = pip[12:], true
		}
	}
	member, near := false, false
	if pip != nil {
		member, near = c33PMember(nets, pip)
	}

	wrapped := pp.wrapConnTimeout(fc, proxyProtocolReadHeaderTimeout)
	var gotAddr net.Addr
	if c.AddrFirst {
		gotAddr = wrapped.RemoteAddr()
	}
	var got []byte
	var readErr error
	buf := make([]byte, 64)
	for i := 0; i < 10000; i++ {
		n, err := wrapped.Read(buf)
		got = append(got, buf[:n]...)
		if err != nil {
			readErr = err
			break
		}
	}
	if !c.AddrFirst {
		gotAddr = wrapped.RemoteAddr()
	}
	if readErr == nil {
		return verifkit.Fail("wrap:read-never-ends", "reading the wrapped connection never reached EOF or an error")
	}
	cleanEOF := errors.Is(readErr, io.EOF)

	ctx := fmt.Sprintf("trusted=%q peer=%s(%s) member=%v header=%s", texts, own.String(), c.Peer.Kind, member, c.Header.Kind)
	ownStr := own.String()
	switch {
	case hasHeader && !member:
		if cleanEOF || len(got) > 0 {
			return verifkit.Fail("wrap:untrusted-header-accepted", "%s: PROXY header from an untrusted peer did not fail the connection (read %d bytes, err=%v)", ctx, len(got), readErr)
		}
		if gotAddr == nil || gotAddr.String() != ownStr {
			return verifkit.Fail("wrap:untrusted-header-spoofs-address", "%s: RemoteAddr()=%v, want the peer's own %s", ctx, gotAddr, ownStr)
		}
	case hasHeader && member && carriesAddr:
		if !cleanEOF || !bytes.Equal(got, c.Payload) {
			return verifkit.Fail("wrap:trusted-header-breaks-stream", "%s: payload after the header not delivered intact: got %x err=%v, want %x then EOF", ctx, got, readErr, c.Payload)
		}
		host, port := netutil.HostPort(gotAddr)
		if gip := net.ParseIP(host); gip == nil || !gip.Equal(net.IP(c.Header.Src)) || int(port) != c.Header.SrcPort {
			return verifkit.Fail("wrap:trusted-header-not-honoured", "%s: RemoteAddr()=%v, want the header source %s port %d", ctx, gotAddr, c33PIPString(c.Header.Src), c.Header.SrcPort)
		}
	default: // no header, or a trusted LOCAL/UNKNOWN header (carries no address)
		if !cleanEOF || !bytes.Equal(got, c.Payload) {
			return verifkit.Fail("wrap:stream-not-intact", "%s: bytes not delivered intact: got %x err=%v, want %x then EOF", ctx, got, readErr, c.Payload)
		}
		if gotAddr == nil || gotAddr.String() != ownStr {
			return verifkit.Fail("wrap:own-address-lost", "%s: RemoteAddr()=%v, want the peer's own %s", ctx, gotAddr, ownStr)
		}
	}
	labels := []string{"peer:" + c.Peer.Kind, "hdr:" + c.Header.Kind, fmt.Sprintf("member=%v", member)}
	if c.Trusted == nil {
		labels = append(labels, "default-trusted-set")
	}
	if mapped {
		labels = append(labels, "mapped-peer")
	}
	if c.Peer.Zone != "" {
		labels = append(labels, "zoned-peer")
	}
	if near {
		labels = append(labels, "near-boundary")
	}
	if pip == nil {
		labels = append(labels, "non-ip-peer")
	}
	if hasHeader {
		labels = append(labels, fmt.Sprintf("header&member=%v", member))
	}
	return verifkit.Result{NonTrivial: hasHeader && (near || mapped || c.Peer.Zone != ""), Labels: labels}
}

func c33PGenIP(t *rapid.T, label string, fam int) []byte {
	if fam == 4 {
		return rapid.OneOf(
			rapid.SliceOfN(rapid.Byte(), 4, 4),
			rapid.SampledFrom([][]byte{{127, 0, 0, 1}, {10, 1, 2, 3}, {192, 168, 1, 10}, {172, 16, 0, 1}, {172, 32, 0, 1}, {169, 254, 1, 1}, {1, 2, 3, 4}}),
		).Draw(t, label)
	}
	ip := rapid.OneOf(
		rapid.SliceOfN(rapid.Byte(), 16, 16),
		rapid.SampledFrom([][]byte{
			net.ParseIP("::1"), net.ParseIP("fe80::1"), net.ParseIP("fdaa:0:1::3"), net.ParseIP("2001:db8::1234"), net.ParseIP("fec0::1"), net.ParseIP("fb00::1"),
		}),
	).Draw(t, label)
	ip = append([]byte{}, ip...)
	if c33PIsMapped(ip) {
		ip[0] = 0x20
	}
	return ip
}

func c33PGen(t *rapid.T) c33PCase {
	var c c33PCase
	useDefault := rapid.IntRange(0, 5).Draw(t, "useDefault") == 0
	if !useDefault {
		n := rapid.IntRange(1, 3).Draw(t, "nTrusted")
		for i := 0; i < n; i++ {
			fam := rapid.SampledFrom([]int{4, 4, 6}).Draw(t, "fam")
			ip := c33PGenIP(t, "netIP", fam)
			e := c33PNet{IP: ip, Bits: 8 * len(ip)}
			e.Text = net.IP(ip).String()
			if rapid.IntRange(0, 3).Draw(t, "cidr") != 0 {
				e.Bits = rapid.OneOf(rapid.IntRange(0, 8*len(ip)), rapid.SampledFrom([]int{0, 8, 12, 16, 24, 31, 32})).Draw(t, "bits")
				if e.Bits > 8*len(ip) {
					e.Bits = 8 * len(ip)
				}
				e.Text += "/" + strconv.Itoa(e.Bits)
			}
			c.Trusted = append(c.Trusted, e)
		}
	}
	nets := c.Trusted
	if useDefault {
		nets = []c33PNet{
			{IP: []byte{127, 0, 0, 0}, Bits: 8}, {IP: []byte{172, 16, 0, 0}, Bits: 12}, {IP: []byte{192, 168, 0, 0}, Bits: 16},
			{IP: net.ParseIP("fc00::"), Bits: 7}, {IP: net.ParseIP("fe80::"), Bits: 10}, {IP: net.ParseIP("::1"), Bits: 128},
		}
	}
	// peer
	switch rapid.SampledFrom([]int{4, 4, 4, 4, 4, 4, 4, 4, 4, 2, 3, 4, 4, 4, 4, 4, 0, 1}).Draw(t, "peerMode") {
	case 0:
		c.Peer = c33PPeer{Kind: "pipe"}
	case 1:
		c.Peer = c33PPeer{Kind: "unix", Text: rapid.SampledFrom([]string{"/run/gate.sock", "@", ""}).Draw(t, "unix")}
	case 2, 3:
		fam := rapid.SampledFrom([]int{4, 6}).Draw(t, "pfam")
		c.Peer = c33PPeer{Kind: "tcp", IP: c33PGenIP(t, "peerIP", fam)}
	default:
		n := nets[rapid.IntRange(0, len(nets)-1).Draw(t, "which")]
		ip := append([]byte{}, n.IP...)
		if rapid.Bool().Draw(t, "hostBits") {
			rnd := rapid.SliceOfN(rapid.Byte(), len(ip), len(ip)).Draw(t, "rnd")
			for b := n.Bits; b < 8*len(ip); b++ {
				m := byte(0x80 >> (b % 8))
				ip[b/8] = ip[b/8]&^m | rnd[b/8]&m
			}
		}
		b := -1
		switch rapid.SampledFrom([]string{"none", "none", "last-prefix-bit", "first-host-bit", "random-bit"}).Draw(t, "flip") {
		case "last-prefix-bit":
			b = n.Bits - 1
		case "first-host-bit":
			b = n.Bits
		case "random-bit":
			b = rapid.IntRange(0, 8*len(ip)-1).Draw(t, "bit")
		}
		if b >= 0 && b < 8*len(ip) {
			ip[b/8] ^= 0x80 >> (b % 8)
		}
		if len(ip) == 4 {
			switch rapid.IntRange(0, 3).Draw(t, "rel") {
			case 0:
				ip = append([]byte{0, 0, 0, 0, 0, 0, 0, 0, 0, 0, 0xff, 0xff}, ip...)
			case 1:
				ip = append([]byte{0, 0, 0, 0, 0, 0, 0, 0, 0, 0, 0, 0}, ip...) // IPv4-compatible: a genuine IPv6 address
			}
		}
		c.Peer = c33PPeer{Kind: "tcp", IP: ip}
	}
	if c.Peer.Kind == "tcp" {
		c.Peer.Port = rapid.IntRange(1, 65535).Draw(t, "peerPort")
		if len(c.Peer.IP) == 16 && !c33PIsMapped(c.Peer.IP) && rapid.IntRange(0, 2).Draw(t, "zoned") == 0 {
			c.Peer.Zone = rapid.SampledFrom([]string{"eth0", "2"}).Draw(t, "zone")
		}
		if rapid.IntRange(0, 3).Draw(t, "asText") == 0 {
			// the same peer as a textual net.Addr (netutil.NewAddr), mapped addresses in ::ffff: spelling
			host := net.IP(c.Peer.IP).String()
			if c33PIsMapped(c.Peer.IP) {
				host = "::ffff:" + net.IP(c.Peer.IP[12:]).String()
			}
			if c.Peer.Zone != "" {
				host += "%" + c.Peer.Zone
			}
			c.Peer.Kind = "str"
			c.Peer.Text = net.JoinHostPort(host, strconv.Itoa(c.Peer.Port))
		}
	}
	// first bytes
	c.Header.Kind = rapid.SampledFrom([]string{"none", "v1", "v2", "v1", "v2", "v1-unknown", "v2-local"}).Draw(t, "hdr")
	if c.Header.Kind == "v1" || c.Header.Kind == "v2" {
		fam := rapid.SampledFrom([]int{4, 6}).Draw(t, "hfam")
		c.Header.Src = c33PGenIP(t, "src", fam)
		c.Header.Dst = c33PGenIP(t, "dst", fam)
		c.Header.SrcPort = rapid.IntRange(0, 65535).Draw(t, "sport")
		c.Header.DstPort = rapid.IntRange(0, 65535).Draw(t, "dport")
	}
	// payload: a Minecraft stream (length VarInt, packet id 0, ...), a legacy ping, or nothing
	switch rapid.IntRange(0, 5).Draw(t, "payloadKind") {
	case 0:
		c.Payload = []byte{}
	case 1:
		c.Payload = []byte{0xFE, 0x01, 0xFA}
	default:
		first := rapid.OneOf(rapid.SampledFrom([]byte{'P', 0x0D, 0x10, 0x01, 0x7f}), rapid.Byte()).Draw(t, "len")
		rest := rapid.SliceOfN(rapid.Byte(), 0, 40).Draw(t, "rest")
		c.Payload = append([]byte{first, 0x00}, rest...)
	}
	c.Chunk = rapid.SampledFrom([]int{1, 2, 5, 12, 64, 4096}).Draw(t, "chunk")
	c.AddrFirst = rapid.Bool().Draw(t, "addrFirst")
	return c
}

func TestVerif_C33(t *testing.T) {
	verifkit.Check(t, "C33", "wrapconn",
		"fake net.Conn with generated RemoteAddr (TCPAddr / textual addr: v4, v6, IPv4-mapped, IPv4-compatible, zoned; pipe; unix) derived from a trusted entry by flipping the last prefix bit / first host bit / a random bit, 1-3 trusted IPs/CIDRs or the default set, first bytes PROXY v1 / v2 / v1 UNKNOWN / v2 LOCAL / none followed by a Minecraft-like payload in generated read chunks; header honoured <=> reference membership, header from non-member => read error and own address, no header => own address and intact bytes; non-trivial = header present and peer within one bit of a prefix boundary, mapped or zoned",
		c33PGen, c33PRun)
}

// ---------------------------------------------------------------- configured lists without a usable entry

// c33LCase: a trusted-proxies list as an operator's file may contain it - entries
// that are blank or are no IP/CIDR at all - and a peer from the documented default
// ranges that sends a PROXY v1 header.
type c33LCase struct {
	Entries []string `json:"entries"`
	Peer    []byte   `json:"peer"` // IPv4 from a default-trusted range
}

func c33LRun(c c33LCase) verifkit.Result {
	if len(c.Entries) == 0 || len(c.Peer) != 4 {
		return verifkit.Result{Inconclusive: true, Labels: []string{"invalid-case"}}
	}
	blankOnly := true
	for _, e := range c.Entries {
		if strings.TrimSpace(e) != "" {
			blankOnly = false
		}
	}
	label := "entries:not-a-network"
	if blankOnly {
		label = "entries:blank-only"
	}
	pp, err := newProxyProtocol(&config.Config{ProxyProtocol: true, ProxyProtocolTrustedProxies: c.Entries})
	if err != nil {
		// refused: nothing is trusted
		return verifkit.Result{NonTrivial: true, Labels: []string{label, "list-refused"}}
	}
	// accepted: then at least nobody the operator never named may be trusted
	hdr := c33PHeader{Kind: "v1", Src: []byte{203, 0, 113, 9}, Dst: []byte{198, 51, 100, 1}, SrcPort: 40000, DstPort: 25565}.c33Bytes()
	own := &net.TCPAddr{IP: net.IP(c.Peer), Port: 50123}
	fc := &c33FakeConn{data: append(append([]byte{}, hdr...), 0x01, 0x00), first: len(hdr), chunk: 64, remote: own}
	wrapped := pp.wrapConnTimeout(fc, proxyProtocolReadHeaderTimeout)
	buf := make([]byte, 64)
	var readErr error
	for i := 0; i < 100 && readErr == nil; i++ {
		_, readErr = wrapped.Read(buf)
	}
	if got := wrapped.RemoteAddr(); got != nil && got.String() != own.String() {
		return verifkit.Fail("wrap:unconfigured-peer-trusted",
			"proxyProtocolTrustedProxies is configured as %q - no entry is a valid IP or CIDR - yet a PROXY header from peer %s changed the client address to %s", c.Entries, own, got)
	}
	return verifkit.Result{NonTrivial: true, Labels: []string{label, "list-accepted-nobody-trusted"}}
}

func c33LGen(t *rapid.T) c33LCase {
	blank := []string{"", " ", "\t", "  ", "\n"}
	junk := []string{"", " ", "${LB_IP}", "not-an-ip", "10.0.0.0/33", "::ffff:10.0.0.1", "10.0.0.256"}
	pool := blank
	if rapid.Bool().Draw(t, "junk") {
		pool = junk
	}
	peers := [][]byte{{127, 0, 0, 1}, {10, 1, 2, 3}, {172, 16, 5, 6}, {192, 168, 1, 1}, {169, 254, 0, 7}}
	return c33LCase{
		Entries: rapid.SliceOfN(rapid.SampledFrom(pool), 1, 4).Draw(t, "entries"),
		Peer:    rapid.SampledFrom(peers).Draw(t, "peer"),
	}
}

func TestVerif_C33List(t *testing.T) {
	verifkit.Check(t, "C33", "unusable-list",
		"proxyProtocolTrustedProxies lists of 1-4 entries none of which is a valid IP or CIDR (blank / whitespace entries as left by an unexpanded template, or junk: out-of-range prefix, IPv4-mapped form, non-addresses) handed to the real newProxyProtocol, then a PROXY v1 header from a peer inside the documented default ranges (loopback, 10/8, 172.16/12, 192.168/16, link-local); oracle: the list is refused, or if it is accepted the header does not change the client address - a network the operator never named is never trusted; every case is non-trivial",
		c33LGen, c33LRun)
}
