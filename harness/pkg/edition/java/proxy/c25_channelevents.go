//go:build verif

package proxy

import (
	"bytes"
	"context"
	"errors"
	"fmt"
	"net"
	"strings"
	"sync"
	"testing"

	"github.com/robinbraemer/event"
	"go.minekube.com/gate/pkg/edition/java/config"
	"go.minekube.com/gate/pkg/edition/java/netmc"
	"go.minekube.com/gate/pkg/edition/java/profile"
	"go.minekube.com/gate/pkg/edition/java/proto/packet"
	"go.minekube.com/gate/pkg/edition/java/proto/packet/plugin"
	"go.minekube.com/gate/pkg/edition/java/proto/state"
	"go.minekube.com/gate/pkg/edition/java/proto/version"
	"go.minekube.com/gate/pkg/edition/java/proxy/message"
	"go.minekube.com/gate/pkg/edition/java/proxy/phase"
	"go.minekube.com/gate/pkg/gate/proto"
	"go.minekube.com/gate/pkg/internal/verifkit"
	"pgregory.net/rapid"
)

// C25: (a) every channel registration a client sends that the proxy forwards to
// its backend raises exactly one channel-register event; (b) every
// plugin-message event, in any connection phase and either direction, exposes
// exactly the plugin message's body (not the raw packet), so that the data a
// handler sees is the data forwarded.
//
// Real code driven: HandlePacket of clientPlaySessionHandler,
// clientConfigSessionHandler, initialConnectSessionHandler,
// backendPlaySessionHandler and backendConfigSessionHandler, with a real
// event.Manager (subscribers record what they see; FireParallel work is joined
// with Manager.Wait before judging) and the real ChannelRegistrar. The
// PacketContext carries the packet's real wire form (packet id + channel + body,
// built with the reference codec), as the read loop provides it.

// ---------------------------------------------------------------- recording conn

type c25Conn struct {
	mu         sync.Mutex
	ctx        context.Context
	cancel     context.CancelFunc
	st         *state.Registry
	protocol   proto.Protocol
	packets    []proto.Packet
	raw        [][]byte
	handler    netmc.SessionHandler
	typ        phase.ConnectionType
	failWrites bool
	wr         c25Writer
}

func c25NewConn(st *state.Registry, p proto.Protocol) *c25Conn {
	ctx, cancel := context.WithCancel(context.Background())
	return &c25Conn{ctx: ctx, cancel: cancel, st: st, protocol: p}
}

func (c *c25Conn) Context() context.Context { return c.ctx }
func (c *c25Conn) Close() error             { c.cancel(); return nil }
func (c *c25Conn) State() *state.Registry   { return c.st }
func (c *c25Conn) Protocol() proto.Protocol { return c.protocol }
func (c *c25Conn) RemoteAddr() net.Addr     { return &net.TCPAddr{IP: net.IPv4(127, 0, 0, 1), Port: 1} }
func (c *c25Conn) LocalAddr() net.Addr      { return &net.TCPAddr{IP: net.IPv4(127, 0, 0, 1), Port: 2} }
func (c *c25Conn) Type() phase.ConnectionType {
	if c.typ != nil {
		return c.typ
	}
	return phase.Vanilla
}
func (c *c25Conn) SetType(t phase.ConnectionType) { c.typ = t }
func (c *c25Conn) ActiveSessionHandler() netmc.SessionHandler {
	c.mu.Lock()
	defer c.mu.Unlock()
	return c.handler
}
func (c *c25Conn) SetActiveSessionHandler(_ *state.Registry, h netmc.SessionHandler) {
	c.mu.Lock()
	c.handler = h
	c.mu.Unlock()
}
func (c *c25Conn) SwitchSessionHandler(*state.Registry) bool               { return true }
func (c *c25Conn) AddSessionHandler(*state.Registry, netmc.SessionHandler) {}
func (c *c25Conn) SetAutoReading(bool)                                     {}
func (c *c25Conn) SetOutboundState(*state.Registry)                        {}
func (c *c25Conn) SetProtocol(proto.Protocol)                              {}
func (c *c25Conn) SetState(*state.Registry)                                {}
func (c *c25Conn) SetCompressionThreshold(int) error                       { return nil }
func (c *c25Conn) EnableEncryption([]byte) error                           { return nil }
func (c *c25Conn) WritePacket(p proto.Packet) error {
	c.mu.Lock()
	defer c.mu.Unlock()
	if c.failWrites {
		return errors.New("c25: write failed")
	}
	c.packets = append(c.packets, p)
	return nil
}
func (c *c25Conn) BufferPacket(p proto.Packet) error { return c.WritePacket(p) }
func (c *c25Conn) Write(b []byte) error {
	c.mu.Lock()
	defer c.mu.Unlock()
	if c.failWrites {
		return errors.New("c25: write failed")
	}
	c.raw = append(c.raw, append([]byte(nil), b...))
	return nil
}
func (c *c25Conn) BufferPayload(b []byte) error { return c.Write(b) }
func (c *c25Conn) Flush() error                 { return nil }
func (c *c25Conn) Reader() netmc.Reader         { return nil }
func (c *c25Conn) Writer() netmc.Writer         { return &c.wr }
func (c *c25Conn) EnablePlayPacketQueue()       {}

var _ netmc.MinecraftConn = (*c25Conn)(nil)

type c25Writer struct{}

func (*c25Writer) WritePacket(proto.Packet) (int, error) { return 0, nil }
func (*c25Writer) Write([]byte) (int, error)             { return 0, nil }
func (*c25Writer) Flush() error                          { return nil }
func (*c25Writer) SetProtocol(proto.Protocol)            {}
func (*c25Writer) SetState(*state.Registry)              {}
func (*c25Writer) SetCompressionThreshold(int) error     { return nil }
func (*c25Writer) EnableEncryption([]byte) error         { return nil }
func (*c25Writer) Direction() proto.Direction            { return proto.ServerBound }

type c25Cfg struct{ cfg *config.Config }

func (c *c25Cfg) config() *config.Config { return c.cfg }

// c25Received is one plugin message a peer received, either as a packet or as a
// raw payload (decoded with the reference codec: VarInt id, string channel, rest).
type c25Received struct {
	channel string
	data    []byte
	raw     bool
}

func (c *c25Conn) pluginMessages() (out []c25Received, other int) {
	c.mu.Lock()
	defer c.mu.Unlock()
	for _, p := range c.packets {
		if pm, ok := p.(*plugin.Message); ok {
			out = append(out, c25Received{channel: pm.Channel, data: append([]byte(nil), pm.Data...)})
		} else {
			other++
		}
	}
	for _, b := range c.raw {
		r := verifkit.NewRefReader(b)
		if _, err := r.VarInt(); err != nil {
			other++
			continue
		}
		ch, err := r.String()
		if err != nil {
			other++
			continue
		}
		out = append(out, c25Received{channel: ch, data: append([]byte(nil), r.Rest()...), raw: true})
	}
	return
}

// ---------------------------------------------------------------- fixture

type c25Fix struct {
	mgr     event.Manager
	reg     *message.ChannelRegistrar
	client  *c25Conn
	backend *c25Conn
	player  *connectedPlayer
	sc      *serverConnection
	deps    *sessionHandlerDeps

	mu        sync.Mutex
	regEvents [][]string // channel ids of every PlayerChannelRegisterEvent
	msgEvents []c25SeenEvent
	mode      string // allow | deny | inspect
}

type c25SeenEvent struct {
	id   string
	data []byte
}

const c25RegisteredChannel = "verif:registered"

func c25NewFix(clientState *state.Registry, p proto.Protocol) *c25Fix {
	f := &c25Fix{mgr: event.New(), reg: message.NewChannelRegistrar(), mode: "inspect"}
	id, err := message.ChannelIdentifierFrom(c25RegisteredChannel)
	if err != nil {
		panic(err)
	}
	f.reg.Register(id)
	f.client = c25NewConn(clientState, p)
	f.backend = c25NewConn(state.Play, p)
	f.deps = &sessionHandlerDeps{
		proxy:          &Proxy{event: f.mgr, channelRegistrar: f.reg},
		eventMgr:       f.mgr,
		configProvider: &c25Cfg{cfg: &config.Config{}},
	}
	f.player = newConnectedPlayer(f.client, profile.NewOffline("Player_1"),
		&net.TCPAddr{IP: net.IPv4(127, 0, 0, 1), Port: 25565}, packet.LoginHandshakeIntent, false, nil, f.deps)
	srv := newRegisteredServer(NewServerInfo("s0", &net.TCPAddr{IP: net.IPv4(10, 0, 0, 1), Port: 25565}))
	f.sc = newServerConnection(srv, nil, f.player)
	f.sc.mu.Lock()
	f.sc.connection = f.backend
	f.sc.connPhase = phase.VanillaBackendPhase
	f.sc.mu.Unlock()

	event.Subscribe(f.mgr, 0, func(e *PlayerChannelRegisterEvent) {
		var ids []string
		for _, c := range e.Channels() {
			ids = append(ids, c.ID())
		}
		f.mu.Lock()
		f.regEvents = append(f.regEvents, ids)
		f.mu.Unlock()
	})
	event.Subscribe(f.mgr, 0, func(e *PluginMessageEvent) {
		f.mu.Lock()
		f.msgEvents = append(f.msgEvents, c25SeenEvent{id: e.Identifier().ID(), data: append([]byte(nil), e.Data()...)})
		mode := f.mode
		f.mu.Unlock()
		switch mode {
		case "allow":
			e.SetForward(true)
		case "deny":
			e.SetForward(false)
		case "edit":
			// a handler that redacts the body in place: what it leaves in Data() is what
			// it has seen last, and that is what must be forwarded
			d := e.Data()
			for i := range d {
				d[i] ^= 0x5a
			}
			e.SetForward(true)
		}
	})
	return f
}

// c25Wire is the packet's wire form: VarInt packet id, string channel, body.
func c25Wire(id int32, channel string, body []byte) []byte {
	b := append(verifkit.RefVarInt(id), verifkit.RefString(channel)...)
	return append(b, body...)
}

// ---------------------------------------------------------------- (a) register events

type c25RegCase struct {
	Legacy    bool     `json:"legacy"`    // channel "REGISTER" instead of "minecraft:register"
	Channels  []string `json:"channels"`  // NUL-joined into the payload
	WriteFail bool     `json:"writeFail"` // the backend connection rejects the write (not forwarded)
	Repeat    int      `json:"repeat"`    // the same registration is sent 1..3 times
}

func c25RunReg(c c25RegCase) verifkit.Result {
	if c.Repeat < 1 || c.Repeat > 3 || len(c.Channels) > 1100 {
		return verifkit.Result{Labels: []string{"invalid-case"}}
	}
	f := c25NewFix(state.Play, version.Minecraft_1_20.Protocol)
	h := newClientPlaySessionHandler(f.player)
	f.client.handler = h
	f.player.setConnectedServer(f.sc)
	f.backend.failWrites = c.WriteFail

	ch := "minecraft:register"
	if c.Legacy {
		ch = "REGISTER"
	}
	body := []byte(strings.Join(c.Channels, "\x00"))
	inPayload := map[string]bool{}
	for _, s := range c.Channels {
		inPayload[s] = true
		if id, err := message.ChannelIdentifierFrom(s); err == nil {
			inPayload[id.ID()] = true
		}
	}
	for i := 0; i < c.Repeat; i++ {
		h.HandlePacket(&proto.PacketContext{Direction: proto.ServerBound, Protocol: f.client.protocol,
			Packet: &plugin.Message{Channel: ch, Data: append([]byte(nil), body...)}, Payload: c25Wire(0x0d, ch, body)})
		f.mgr.Wait()
	}
	got, _ := f.backend.pluginMessages()
	forwarded := 0
	for _, m := range got {
		if strings.EqualFold(m.channel, ch) {
			forwarded++
			if !bytes.Equal(m.data, body) {
				return verifkit.Fail("register:forwarded-altered", "register payload reached the backend as %q, client sent %q", m.data, body)
			}
		}
	}
	f.mu.Lock()
	events := f.regEvents
	f.mu.Unlock()
	labels := []string{"register"}
	if c.WriteFail {
		labels = append(labels, "backend-write-fails")
	}
	if len(c.Channels) == 0 {
		labels = append(labels, "empty-payload")
	}
	if len(c.Channels) > 1024 {
		labels = append(labels, "over-1024-channels")
	}
	for _, ev := range events {
		for _, id := range ev {
			if !inPayload[id] {
				return verifkit.Fail("register:event-channel-not-in-payload", "register event lists channel %q which the client did not send (%q)", id, c.Channels)
			}
		}
	}
	if forwarded > 0 {
		labels = append(labels, "forwarded")
		switch {
		case len(events) < forwarded:
			return verifkit.Fail("register:forwarded-without-event", "%d registration(s) were forwarded to the backend but %d PlayerChannelRegisterEvent(s) fired", forwarded, len(events))
		case len(events) > forwarded:
			return verifkit.Fail("register:more-events-than-forwards", "%d registration(s) were forwarded to the backend but %d PlayerChannelRegisterEvent(s) fired", forwarded, len(events))
		}
	}
	if !c.WriteFail && forwarded != c.Repeat {
		labels = append(labels, "not-all-forwarded") // nothing to judge for registrations the proxy did not forward
	}
	return verifkit.Result{NonTrivial: forwarded > 0, Labels: labels}
}

var c25Names = []string{"verif:a", "verif:b", "mod:main", "fabric:registry/sync", "c:version", "BungeeCord", "Legacy|Chan",
	"UPPER:case", "", "no_namespace", "a:b:c", "verif:registered", ":", "x:"}

func c25GenReg(t *rapid.T) c25RegCase {
	c := c25RegCase{
		Legacy:    rapid.IntRange(0, 3).Draw(t, "legacy") == 0,
		WriteFail: rapid.IntRange(0, 4).Draw(t, "writeFail") == 0,
		Repeat:    rapid.SampledFrom([]int{1, 1, 1, 2, 3}).Draw(t, "repeat"),
	}
	if rapid.IntRange(0, 29).Draw(t, "huge") == 0 {
		n := rapid.SampledFrom([]int{1023, 1024, 1025}).Draw(t, "n")
		for i := 0; i < n; i++ {
			c.Channels = append(c.Channels, fmt.Sprintf("v:c%d", i))
		}
		return c
	}
	n := rapid.IntRange(0, 40).Draw(t, "nch")
	for i := 0; i < n; i++ {
		if rapid.IntRange(0, 2).Draw(t, "fresh") == 0 {
			c.Channels = append(c.Channels, fmt.Sprintf("gen:%s", rapid.StringMatching(`[a-z0-9_/.-]{1,8}`).Draw(t, "name")))
		} else {
			c.Channels = append(c.Channels, rapid.SampledFrom(c25Names).Draw(t, "known"))
		}
	}
	return c
}

// ---------------------------------------------------------------- (b) plugin message events

type c25MsgCase struct {
	Phase      string `json:"phase"`      // client-play | client-config | client-initial | backend-play | backend-config
	Registered bool   `json:"registered"` // channel known to the proxy's ChannelRegistrar
	Channel    string `json:"channel"`    // used when not registered
	Body       []byte `json:"body"`
	Mode       string `json:"mode"` // subscriber: allow | deny | inspect | edit (changes Data() in place, then allows)
	PacketID   int    `json:"packetId"`
}

func c25RunMsg(c c25MsgCase) verifkit.Result {
	ch := c.Channel
	if c.Registered {
		ch = c25RegisteredChannel
	}
	if id, err := message.ChannelIdentifierFrom(ch); err != nil || id.ID() != ch || c.PacketID < 0 || c.PacketID > 127 {
		return verifkit.Result{Labels: []string{"invalid-case"}}
	}
	if !c.Registered && (ch == c25RegisteredChannel || strings.EqualFold(ch, "minecraft:register") || strings.EqualFold(ch, "minecraft:unregister") ||
		strings.EqualFold(ch, "minecraft:brand") || strings.EqualFold(ch, "bungeecord:main")) {
		return verifkit.Result{Labels: []string{"invalid-case"}}
	}
	switch c.Mode {
	case "allow", "deny", "inspect", "edit":
	default:
		return verifkit.Result{Labels: []string{"invalid-case"}}
	}
	pcOf := func(dir proto.Direction, p proto.Protocol) *proto.PacketContext {
		return &proto.PacketContext{Direction: dir, Protocol: p, PacketID: proto.PacketID(c.PacketID),
			Packet: &plugin.Message{Channel: ch, Data: append([]byte(nil), c.Body...)}, Payload: c25Wire(int32(c.PacketID), ch, c.Body)}
	}
	var f *c25Fix
	var peer *c25Conn
	switch c.Phase {
	case "client-play":
		f = c25NewFix(state.Play, version.Minecraft_1_20.Protocol)
		h := newClientPlaySessionHandler(f.player)
		f.client.handler = h
		f.player.setConnectedServer(f.sc)
		f.mode = c.Mode
		h.HandlePacket(pcOf(proto.ServerBound, f.client.protocol))
		peer = f.backend
	case "client-config":
		f = c25NewFix(state.Config, version.Minecraft_1_20_3.Protocol)
		f.backend.st = state.Config
		h := newClientConfigSessionHandler(f.player)
		f.client.handler = h
		f.player.setInFlightConnection(f.sc)
		if err := h.flushQueuedPluginMessagesTo(f.sc); err != nil { // the backend's login succeeded
			return verifkit.Fail("harness:flush", "%v", err)
		}
		f.mode = c.Mode
		h.HandlePacket(pcOf(proto.ServerBound, f.client.protocol))
		peer = f.backend
	case "client-initial":
		f = c25NewFix(state.Play, version.Minecraft_1_20.Protocol)
		h := newInitialConnectSessionHandler(f.player)
		f.client.handler = h
		f.player.setInFlightConnection(f.sc)
		f.mode = c.Mode
		h.HandlePacket(pcOf(proto.ServerBound, f.client.protocol))
		peer = f.backend
	case "backend-play":
		f = c25NewFix(state.Play, version.Minecraft_1_20.Protocol)
		f.client.handler = newClientPlaySessionHandler(f.player)
		f.player.setConnectedServer(f.sc)
		bh, err := newBackendPlaySessionHandler(f.sc)
		if err != nil {
			return verifkit.Fail("harness:backend-play", "%v", err)
		}
		f.backend.handler = bh
		f.mode = c.Mode
		bh.HandlePacket(pcOf(proto.ClientBound, f.backend.protocol))
		peer = f.client
	case "backend-config":
		f = c25NewFix(state.Config, version.Minecraft_1_20_3.Protocol)
		f.backend.st = state.Config
		f.client.handler = newClientConfigSessionHandler(f.player)
		f.player.setInFlightConnection(f.sc)
		bh, err := newBackendConfigSessionHandler(f.sc, &connRequestCxt{Context: context.Background(), response: make(chan *connResponse, 1)})
		if err != nil {
			return verifkit.Fail("harness:backend-config", "%v", err)
		}
		f.backend.handler = bh
		f.mode = c.Mode
		bh.HandlePacket(pcOf(proto.ClientBound, f.backend.protocol))
		peer = f.client
	default:
		return verifkit.Result{Labels: []string{"invalid-case"}}
	}
	f.mgr.Wait() // join FireParallel work

	f.mu.Lock()
	events := f.msgEvents
	f.mu.Unlock()
	all, _ := peer.pluginMessages()
	var fwd []c25Received
	for _, m := range all {
		if m.channel == ch {
			fwd = append(fwd, m)
		}
	}
	labels := []string{c.Phase, c.Mode}
	if c.Registered {
		labels = append(labels, "registered-channel")
	} else {
		labels = append(labels, "unregistered-channel")
	}
	if len(c.Body) == 0 {
		labels = append(labels, "empty-body")
	}
	key := func(k string) string { return k + ":" + c.Phase }

	if !c.Registered {
		// No identifier exists for this channel, so no event is expected; relaying of such
		// messages is another property's subject. Only record what happened.
		if len(events) == 0 {
			if len(fwd) == 1 && bytes.Equal(fwd[0].data, c.Body) {
				labels = append(labels, "relayed-unchanged")
			}
			return verifkit.Result{Labels: labels}
		}
	}
	if len(events) != 1 {
		return verifkit.Fail(key("event-count"), "%d PluginMessageEvents fired for one message on a registered channel", len(events))
	}
	ev := events[0]
	if ev.id != ch {
		return verifkit.Fail(key("event-identifier"), "event identifier %q, message channel %q", ev.id, ch)
	}
	if !bytes.Equal(ev.data, c.Body) {
		wire := c25Wire(int32(c.PacketID), ch, c.Body)
		if bytes.Equal(ev.data, wire) {
			return verifkit.Fail(key("event-data-is-raw-packet"), "PluginMessageEvent.Data() is the raw packet (id+channel+body, %d bytes) instead of the %d-byte message body", len(ev.data), len(c.Body))
		}
		return verifkit.Fail(key("event-data-mismatch"), "PluginMessageEvent.Data() = %x, message body = %x", ev.data, c.Body)
	}
	wantFwd := c.Body
	if c.Mode == "edit" {
		wantFwd = make([]byte, len(c.Body))
		for i := range c.Body {
			wantFwd[i] = c.Body[i] ^ 0x5a
		}
		labels = append(labels, "handler-edits-data-in-place")
	}
	for _, m := range fwd {
		if !bytes.Equal(m.data, wantFwd) {
			if c.Mode == "edit" {
				return verifkit.Fail(key("forwarded-data-differs-from-edited-event-data"), "handler received %x and left %x in Data(); peer received %x", ev.data, wantFwd, m.data)
			}
			return verifkit.Fail(key("forwarded-data-differs-from-event"), "handler saw %x, peer received %x", ev.data, m.data)
		}
	}
	switch c.Mode {
	case "allow", "edit":
		if len(fwd) != 1 {
			return verifkit.Fail(key("allowed-not-forwarded-once"), "handler allowed the message; peer received it %d times", len(fwd))
		}
	case "deny":
		if len(fwd) != 0 {
			return verifkit.Fail(key("denied-but-forwarded"), "handler denied the message; peer received it %d times", len(fwd))
		}
	default:
		if len(fwd) > 1 {
			return verifkit.Fail(key("forwarded-twice"), "peer received the message %d times", len(fwd))
		}
		if len(fwd) == 0 {
			labels = append(labels, "dropped-by-default")
		}
	}
	return verifkit.Result{NonTrivial: true, Labels: labels}
}

var c25Phases = []string{"client-play", "client-config", "client-initial", "backend-play", "backend-config"}

func c25GenMsg(t *rapid.T) c25MsgCase {
	c := c25MsgCase{
		Phase:      rapid.SampledFrom(c25Phases).Draw(t, "phase"),
		Registered: rapid.IntRange(0, 3).Draw(t, "registered") > 0,
		Mode:       rapid.SampledFrom([]string{"allow", "deny", "inspect", "edit"}).Draw(t, "mode"),
		PacketID:   rapid.IntRange(0, 127).Draw(t, "packetId"),
	}
	c.Channel = "verif:" + rapid.StringMatching(`[a-z0-9_]{1,10}`).Draw(t, "chan")
	if c.Channel == c25RegisteredChannel {
		c.Channel = "verif:other"
	}
	c.Body = rapid.OneOf(
		rapid.SliceOfN(rapid.Byte(), 0, 48),
		rapid.Just([]byte{}),
		// bodies that look like a packet prefix themselves
		rapid.Just(c25Wire(int32(c.PacketID), c25RegisteredChannel, []byte{1, 2, 3})),
	).Draw(t, "body")
	return c
}

func TestVerif_C25(t *testing.T) {
	verifkit.Check(t, "C25", "register-event",
		"clientPlaySessionHandler.HandlePacket with minecraft:register / REGISTER payloads of 0..40 channel names (valid, invalid, duplicated, empty, 1023..1025 channels), sent 1..3 times, backend connection writable or failing; subscriber counts PlayerChannelRegisterEvents; oracle: #events == #registrations that reached the backend, payload forwarded unchanged, event channels are names from the payload; non-trivial = at least one registration was forwarded",
		c25GenReg, c25RunReg)
	verifkit.Check(t, "C25", "message-event",
		"one plugin message (body 0..48 B incl. bodies that look like a packet, packet id 0..127, wire payload = id+channel+body) on a channel registered / not registered with the ChannelRegistrar, handled by each of the five session handlers that fire PluginMessageEvent (client play/config/initial-connect, backend play/config); subscriber allows / denies / only inspects / edits Data() in place and allows; oracle: exactly one event, Data() == body, identifier == channel, what the peer receives == what the handler saw, allow => forwarded once, deny => not forwarded, unregistered => no event and relayed unchanged; non-trivial = registered channel",
		c25GenMsg, c25RunMsg)
}
