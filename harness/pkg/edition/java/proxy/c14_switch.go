//go:build verif

package proxy

// C14, sub-check "player-switch": the place where a player in play actually enters
// the configuration phase - connectedPlayer.switchToConfigState (server switch on
// 1.20.2+, backend StartUpdate). The main C14 check decides the connection's play
// packet queue with atomic entries (SetState / EnablePlayPacketQueue); the player
// enters in several steps (buffer StartUpdate, switch the encoder, enable the
// queue, flush). Here a real connectedPlayer on a real netmc connection over
// net.Pipe is switched while another goroutine writes numbered play-only packets
// at scripted points: before the switch, at the moment the encoder has just been
// switched (the harness owns that point of the schedule through the connection's
// Writer().SetState / SetOutboundState), while the flush of StartUpdate is blocked on a client that does not
// read yet, and after the switch returned. Afterwards the connection returns to
// play. No write may fail or close the connection, every packet must arrive
// exactly once and in order, and packets written once the encoder was switched
// must arrive after the return to play.

import (
	"context"
	"fmt"
	"net"
	"strings"
	"sync"
	"testing"
	"time"

	"github.com/robinbraemer/event"
	"go.minekube.com/common/minecraft/component"
	"pgregory.net/rapid"

	"go.minekube.com/gate/pkg/edition/java/config"
	"go.minekube.com/gate/pkg/edition/java/netmc"
	"go.minekube.com/gate/pkg/edition/java/profile"
	"go.minekube.com/gate/pkg/edition/java/proto/packet"
	"go.minekube.com/gate/pkg/edition/java/proto/packet/chat"
	cfgpacket "go.minekube.com/gate/pkg/edition/java/proto/packet/config"
	"go.minekube.com/gate/pkg/edition/java/proto/state"
	"go.minekube.com/gate/pkg/gate/proto"
	"go.minekube.com/gate/pkg/internal/verifkit"
	"go.minekube.com/gate/pkg/util/uuid"

	"github.com/go-logr/logr"
)

type c14sCase struct {
	Protocol int `json:"protocol"`
	// numbered play-only packets written ...
	Before     int `json:"before"`      // ... before the switch starts
	AtSwitch   int `json:"at_switch"`   // ... right after the encoder was switched to the config state
	DuringSend int `json:"during_send"` // ... while StartUpdate is being flushed to a client that does not read yet
	After      int `json:"after"`       // ... after switchToConfigState returned
}

// c14sWriter lets the harness run code at the point where the encoder has just
// been switched to another state.
type c14sWriter struct {
	netmc.Writer
	afterSetState func(*state.Registry)
}

func (w *c14sWriter) SetState(s *state.Registry) {
	w.Writer.SetState(s)
	if w.afterSetState != nil {
		w.afterSetState(s)
	}
}

type c14sConn struct {
	netmc.MinecraftConn
	w *c14sWriter
}

func (c *c14sConn) Writer() netmc.Writer { return c.w }

// (the same schedule point when the player switches through the connection)
func (c *c14sConn) SetOutboundState(s *state.Registry) {
	c.MinecraftConn.SetOutboundState(s)
	if c.w.afterSetState != nil {
		c.w.afterSetState(s)
	}
}

func c14sRun(c c14sCase) verifkit.Result {
	protocol := proto.Protocol(c.Protocol)
	playReg := state.FromDirection(proto.ClientBound, state.Play, protocol)
	if playReg == nil || playReg.Protocol != protocol {
		return verifkit.Result{Inconclusive: true, Labels: []string{"invalid-case"}}
	}
	playID, okP := playReg.PacketID(&chat.SystemChat{})
	startID, okS := playReg.PacketID(&cfgpacket.StartUpdate{})
	if !okP || !okS {
		return verifkit.Result{Inconclusive: true, Labels: []string{"invalid-case"}}
	}
	pr, cl := net.Pipe()
	defer pr.Close()
	defer cl.Close()
	real, _ := netmc.NewMinecraftConn(context.Background(), pr, proto.ServerBound, 30*time.Second, 20*time.Second, -1, nil)
	real.SetProtocol(protocol)
	real.SetState(state.Play)
	conn := &c14sConn{MinecraftConn: real, w: &c14sWriter{Writer: real.Writer()}}
	mgr := event.New()
	prx := &Proxy{cfg: &config.Config{}, log: logr.Discard(), event: mgr}
	deps := &sessionHandlerDeps{proxy: prx, configProvider: prx, eventMgr: mgr}
	player := newConnectedPlayer(conn, &profile.GameProfile{ID: uuid.UUID{0xC1, 0x45}, Name: "c14s"},
		&net.TCPAddr{IP: net.IPv4(127, 0, 0, 1), Port: 25565}, packet.LoginHandshakeIntent, false, nil, deps)

	// the client: reads only when told to
	var rmu sync.Mutex
	var got []byte
	startReading := make(chan struct{})
	readerDone := make(chan struct{})
	go func() {
		defer close(readerDone)
		<-startReading
		buf := make([]byte, 4096)
		for {
			n, err := cl.Read(buf)
			rmu.Lock()
			got = append(got, buf[:n]...)
			rmu.Unlock()
			if err != nil {
				return
			}
		}
	}()
	var once sync.Once
	read := func() { once.Do(func() { close(startReading) }) }
	defer read()

	next := 0
	var writeErrs []string
	var wmu sync.Mutex
	write := func(n int, phase string) {
		for i := 0; i < n; i++ {
			next++
			k := next
			if err := player.WritePacket(&chat.SystemChat{Component: chat.FromComponent(&component.Text{Content: fmt.Sprintf("~P%d~", k)}), Type: chat.SystemMessageType}); err != nil {
				wmu.Lock()
				writeErrs = append(writeErrs, fmt.Sprintf("packet %d (%s): %v", k, phase, err))
				wmu.Unlock()
			}
		}
	}
	atSwitch := false
	firstHeld := -1 // first packet number that must come after the return to play
	var panicked any
	wr := verifkit.Watch(20*time.Second, "proxy.", func() {
		defer func() { panicked = recover() }()
		if c.Before > 0 {
			read() // (a flush of a play packet needs a reading client)
			write(c.Before, "before the switch")
		}
		firstHeld = next + 1
		hookDone := make(chan struct{})
		var hookOnce sync.Once
		conn.w.afterSetState = func(s *state.Registry) {
			if s != state.Config {
				return
			}
			if c.AtSwitch > 0 && !atSwitch {
				atSwitch = true
				// another goroutine runs exactly here
				done := make(chan struct{})
				go func() { defer close(done); read(); write(c.AtSwitch, "encoder just switched to config") }()
				<-done
			}
			hookOnce.Do(func() { close(hookDone) })
		}
		switched := make(chan struct{})
		go func() { defer close(switched); player.switchToConfigState() }()
		// the numbered packets come from one writer at a time: the next phase starts
		// only when the writes at the encoder switch are through
		select {
		case <-hookDone:
		case <-switched:
		}
		if c.DuringSend > 0 {
			// the flush of StartUpdate is blocked (or about to block) on the silent client
			time.Sleep(2 * time.Millisecond)
			wdone := make(chan struct{})
			go func() { defer close(wdone); write(c.DuringSend, "while StartUpdate is flushed") }()
			time.Sleep(2 * time.Millisecond)
			read()
			<-wdone
		}
		read()
		<-switched
		conn.w.afterSetState = nil
		write(c.After, "after the switch")
		// the client finished its configuration: back to play
		real.SetState(state.Play)
	})
	if wr.Outcome == verifkit.Deadlocked {
		return verifkit.Fail("player-switch:deadlock", "switching the player to the configuration phase never finished:\n%s", wr.Stack)
	}
	if panicked != nil {
		return verifkit.Fail("player-switch:panic", "%v", panicked)
	}
	if wr.Outcome != verifkit.Returned {
		return verifkit.Result{Inconclusive: true, Labels: []string{"slow"}}
	}
	closed := netmc.Closed(real)
	_ = pr.Close()
	<-readerDone
	rmu.Lock()
	wire := append([]byte(nil), got...)
	rmu.Unlock()
	labels := []string{fmt.Sprintf("protocol:%d", c.Protocol)}
	if atSwitch {
		labels = append(labels, "write-at-encoder-switch")
	}
	if c.DuringSend > 0 {
		labels = append(labels, "write-during-start-update-flush")
	}
	if len(writeErrs) > 0 || closed {
		return verifkit.Fail("player-switch:write-failed",
			"play-only packets written while the player enters the configuration phase must be held back; instead: write errors %v, connection closed: %v (case %+v)", writeErrs, closed, c)
	}
	// frames on the wire
	rd := verifkit.NewRefReader(wire)
	var seq []string
	for rd.Remaining() > 0 {
		f, err := verifkit.RefReadFrame(rd, -1, 1<<21)
		if err != nil {
			return verifkit.Fail("player-switch:wire", "client stream does not parse: %v (%x)", err, wire)
		}
		fr := verifkit.NewRefReader(f)
		id, _ := fr.VarInt()
		switch {
		case int(id) == int(startID) && fr.Remaining() == 0:
			seq = append(seq, "S")
		case int(id) == int(playID):
			s := string(f)
			i, j := strings.Index(s, "~P"), strings.LastIndex(s, "~")
			if i < 0 || j <= i+1 {
				return verifkit.Fail("player-switch:wire", "unreadable play packet %x", f)
			}
			seq = append(seq, s[i+2:j])
		default:
			return verifkit.Fail("player-switch:wire", "unexpected frame id %#x (%x)", id, f)
		}
	}
	var want []string
	for k := 1; k < firstHeld; k++ {
		want = append(want, fmt.Sprint(k))
	}
	want = append(want, "S")
	for k := firstHeld; k <= next; k++ {
		want = append(want, fmt.Sprint(k))
	}
	if strings.Join(seq, " ") != strings.Join(want, " ") {
		return verifkit.Fail("player-switch:sequence", "client received [%s], want [%s] (S = StartUpdate; packets %d.. were written after the switch began; case %+v)", strings.Join(seq, " "), strings.Join(want, " "), firstHeld, c)
	}
	return verifkit.Result{Labels: labels, NonTrivial: c.AtSwitch+c.DuringSend+c.After > 0}
}

func c14sGen(t *rapid.T) c14sCase {
	return c14sCase{
		Protocol:   rapid.SampledFrom([]int{764, 765, 766, 767, 769, 772, 774}).Draw(t, "protocol"),
		Before:     rapid.IntRange(0, 2).Draw(t, "before"),
		AtSwitch:   rapid.SampledFrom([]int{0, 0, 1, 2}).Draw(t, "atSwitch"),
		DuringSend: rapid.SampledFrom([]int{0, 1, 3}).Draw(t, "duringSend"),
		After:      rapid.IntRange(0, 2).Draw(t, "after"),
	}
}

func TestVerif_C14Switch(t *testing.T) {
	verifkit.Check(t, "C14", "player-switch",
		"a real connectedPlayer (1.20.2..1.21.9) on a real netmc connection over net.Pipe is switched into the configuration phase by connectedPlayer.switchToConfigState while another goroutine writes numbered play-only SystemChat packets at scripted points: 0-2 before the switch, 0-2 at the moment the encoder has just been switched to the config state (the harness owns that schedule point through the connection's Writer().SetState / SetOutboundState), 0-3 while the flush of StartUpdate is blocked on a client that does not read yet, 0-2 after the switch returned; then the connection returns to play; oracle: no write fails, the connection stays open, the client receives the packets written before the switch, StartUpdate, and then every later packet exactly once and in order; non-trivial = a packet was written after the switch began",
		c14sGen, c14sRun)
}
