//go:build verif

package proxy

import (
	"context"
	"fmt"
	"net"
	"sort"
	"strings"
	"sync"
	"testing"
	"time"

	"github.com/go-logr/logr"
	"github.com/robinbraemer/event"
	"go.minekube.com/gate/pkg/edition/java/config"
	"go.minekube.com/gate/pkg/edition/java/forge"
	"go.minekube.com/gate/pkg/edition/java/netmc"
	"go.minekube.com/gate/pkg/edition/java/profile"
	"go.minekube.com/gate/pkg/edition/java/proto/packet"
	cfgpacket "go.minekube.com/gate/pkg/edition/java/proto/packet/config"
	"go.minekube.com/gate/pkg/edition/java/proto/packet/plugin"
	"go.minekube.com/gate/pkg/edition/java/proto/state"
	"go.minekube.com/gate/pkg/edition/java/proto/version"
	"go.minekube.com/gate/pkg/edition/java/proxy/message"
	"go.minekube.com/gate/pkg/edition/java/proxy/phase"
	"go.minekube.com/gate/pkg/gate/proto"
	"go.minekube.com/gate/pkg/internal/verifkit"
	"pgregory.net/rapid"
)

// C24: plugin messages a client sends before its backend is ready are delivered
// to that backend exactly once, in the order sent, before any plugin message
// sent afterwards; the buffer is bounded by 1024 messages and 4 MiB, exceeding
// either disconnects the player instead of buffering further.
//
// Two real mechanisms are driven through the handlers' HandlePacket:
//   - config queue: clientConfigSessionHandler (1.20.2+ initial join); readiness =
//     flushQueuedPluginMessagesTo(in-flight server), the call the backend login
//     handler makes when the backend's login succeeded;
//   - pre-join queue: clientPlaySessionHandler with a Legacy Forge client whose
//     handshake phase is not complete; readiness = the handshake completing (real
//     phase machine driven with FML|HS messages) or JoinGame (real handleBackendJoinGame).
//
// Every client message carries its sequence number in the channel name, so the
// packets each backend receives identify the messages independently of any
// proxy state. Oracle: queue model with the two caps written from the property.

const (
	c24MaxMsgs  = 1024
	c24MaxBytes = 4 * 1024 * 1024
)

// ---------------------------------------------------------------- recording conn

type c24Conn struct {
	// lifecycle: behave like minecraftConn for session handlers (per-state registry,
	// Deactivated/Activated callbacks, state follows the active handler)
	lifecycle bool
	handlers  map[*state.Registry]netmc.SessionHandler
	mu        sync.Mutex
	ctx      context.Context
	cancel   context.CancelFunc
	st       *state.Registry
	protocol proto.Protocol
	packets  []proto.Packet
	handler  netmc.SessionHandler
	typ      phase.ConnectionType
	wr       c24Writer
}

func c24NewConn(st *state.Registry, p proto.Protocol) *c24Conn {
	ctx, cancel := context.WithCancel(context.Background())
	return &c24Conn{ctx: ctx, cancel: cancel, st: st, protocol: p}
}

func (c *c24Conn) Context() context.Context { return c.ctx }
func (c *c24Conn) Close() error             { c.cancel(); return nil }
func (c *c24Conn) State() *state.Registry {
	c.mu.Lock()
	defer c.mu.Unlock()
	return c.st
}
func (c *c24Conn) Protocol() proto.Protocol { return c.protocol }
func (c *c24Conn) RemoteAddr() net.Addr     { return &net.TCPAddr{IP: net.IPv4(127, 0, 0, 1), Port: 1} }
func (c *c24Conn) LocalAddr() net.Addr      { return &net.TCPAddr{IP: net.IPv4(127, 0, 0, 1), Port: 2} }
func (c *c24Conn) Type() phase.ConnectionType {
	c.mu.Lock()
	defer c.mu.Unlock()
	if c.typ != nil {
		return c.typ
	}
	return phase.Vanilla
}
func (c *c24Conn) SetType(t phase.ConnectionType) {
	c.mu.Lock()
	c.typ = t
	c.mu.Unlock()
}
func (c *c24Conn) ActiveSessionHandler() netmc.SessionHandler {
	c.mu.Lock()
	defer c.mu.Unlock()
	return c.handler
}
func (c *c24Conn) SetActiveSessionHandler(r *state.Registry, h netmc.SessionHandler) {
	c.mu.Lock()
	old := c.handler
	c.handler = h
	if c.lifecycle {
		if c.handlers == nil {
			c.handlers = map[*state.Registry]netmc.SessionHandler{}
		}
		c.handlers[r] = h
		c.st = r
	}
	c.mu.Unlock()
	if c.lifecycle {
		if old != nil {
			old.Deactivated()
		}
		h.Activated()
	}
}
func (c *c24Conn) SwitchSessionHandler(r *state.Registry) bool {
	if !c.lifecycle {
		return true
	}
	c.mu.Lock()
	h, ok := c.handlers[r]
	if !ok {
		c.mu.Unlock()
		return false
	}
	old := c.handler
	c.handler = h
	c.st = r
	c.mu.Unlock()
	if old != h {
		if old != nil {
			old.Deactivated()
		}
		h.Activated()
	}
	return true
}
func (c *c24Conn) AddSessionHandler(*state.Registry, netmc.SessionHandler) {}
func (c *c24Conn) SetAutoReading(bool)                                     {}
func (c *c24Conn) SetOutboundState(*state.Registry)                        {}
func (c *c24Conn) SetProtocol(proto.Protocol)                              {}
func (c *c24Conn) SetState(*state.Registry)                                {}
func (c *c24Conn) SetCompressionThreshold(int) error                       { return nil }
func (c *c24Conn) EnableEncryption([]byte) error                           { return nil }
func (c *c24Conn) WritePacket(p proto.Packet) error {
	c.mu.Lock()
	c.packets = append(c.packets, p)
	c.mu.Unlock()
	return nil
}
func (c *c24Conn) BufferPacket(p proto.Packet) error { return c.WritePacket(p) }
func (c *c24Conn) Write([]byte) error                { return nil }
func (c *c24Conn) BufferPayload([]byte) error        { return nil }
func (c *c24Conn) Flush() error                      { return nil }
func (c *c24Conn) Reader() netmc.Reader              { return nil }
func (c *c24Conn) Writer() netmc.Writer              { return &c.wr }
func (c *c24Conn) EnablePlayPacketQueue()            {}

func (c *c24Conn) snapshot() []proto.Packet {
	c.mu.Lock()
	defer c.mu.Unlock()
	return append([]proto.Packet(nil), c.packets...)
}

var _ netmc.MinecraftConn = (*c24Conn)(nil)

type c24Writer struct{}

func (*c24Writer) WritePacket(proto.Packet) (int, error) { return 0, nil }
func (*c24Writer) Write([]byte) (int, error)             { return 0, nil }
func (*c24Writer) Flush() error                          { return nil }
func (*c24Writer) SetProtocol(proto.Protocol)            {}
func (*c24Writer) SetState(*state.Registry)              {}
func (*c24Writer) SetCompressionThreshold(int) error     { return nil }
func (*c24Writer) EnableEncryption([]byte) error         { return nil }
func (*c24Writer) Direction() proto.Direction            { return proto.ServerBound }

type c24Cfg struct{ cfg *config.Config }

func (c *c24Cfg) config() *config.Config { return c.cfg }

// ---------------------------------------------------------------- case

// Op kinds (both sub-checks):
//
//	msg     one client plugin message with Size payload bytes
//	bulk    N client plugin messages of Size bytes each
//
// config queue:
//
//	target  a new backend becomes the in-flight connection (initial connect / fallback to the next server)
//	ready   that backend's login succeeded: flushQueuedPluginMessagesTo(in-flight)
//
// pre-join queue:
//
//	reset   the client's Legacy Forge handshake phase is reset to NOT_STARTED (server switch)
//	fml     the client sends the FML|HS message that advances its handshake phase by one step
//	join    the backend sends JoinGame: real handleBackendJoinGame
type c24Op struct {
	K    string `json:"k"`
	Size int    `json:"size,omitempty"`
	N    int    `json:"n,omitempty"`
	St   string `json:"st,omitempty"`
}

type c24Case struct {
	Ops []c24Op `json:"ops"`
}

func c24Channel(seq int) string { return fmt.Sprintf("verif:m%d", seq) }

func c24Seq(ch string) (int, bool) {
	if !strings.HasPrefix(ch, "verif:m") {
		return 0, false
	}
	n := 0
	for _, r := range ch[len("verif:m"):] {
		if r < '0' || r > '9' {
			return 0, false
		}
		n = n*10 + int(r-'0')
	}
	return n, true
}

func c24Payload(seq, size int) []byte {
	b := make([]byte, size)
	for i := range b {
		b[i] = byte(seq + i)
	}
	return b
}

// ---------------------------------------------------------------- queue model

type c24MMsg struct {
	seq, size int
}

type c24Queue struct {
	q         []c24MMsg
	bytes     int
	overflow  bool
	firstLost int // seq of the message that overflowed (-1 none)
}

// push returns (queued, overflowedNow).
func (q *c24Queue) push(m c24MMsg) (bool, bool) {
	if q.overflow {
		return false, false
	}
	if q.bytes+m.size > c24MaxBytes || len(q.q)+1 > c24MaxMsgs {
		q.overflow = true
		q.firstLost = m.seq
		return false, true
	}
	q.q = append(q.q, m)
	q.bytes += m.size
	return true, false
}

func (q *c24Queue) drain() []c24MMsg {
	out := q.q
	q.q = nil
	q.bytes = 0
	return out
}

// c24Deliveries extracts the client messages (by sequence number) from the
// packets a backend received since index from.
func c24Deliveries(pk []proto.Packet, from int, sizes map[int]int) (seqs []int, bad string) {
	for _, p := range pk[from:] {
		pm, ok := p.(*plugin.Message)
		if !ok {
			continue
		}
		seq, ok := c24Seq(pm.Channel)
		if !ok {
			continue // FML|HS handshake traffic, register packets built by the proxy, ...
		}
		seqs = append(seqs, seq)
		if want, known := sizes[seq]; known {
			if len(pm.Data) != want {
				bad = fmt.Sprintf("message %d delivered with %d payload bytes, sent %d", seq, len(pm.Data), want)
			} else {
				for i, b := range pm.Data {
					if b != byte(seq+i) {
						bad = fmt.Sprintf("message %d delivered with altered payload at byte %d", seq, i)
						break
					}
				}
			}
		}
	}
	return
}

// c24Compare classifies the difference between expected and observed deliveries of one step.
func c24Compare(step string, sub string, want, got []int, delivered map[int]bool, lostFrom int) *verifkit.Result {
	fail := func(key, f string, a ...any) *verifkit.Result {
		r := verifkit.Fail(sub+":"+key, "%s: %s (expected %v, backend received %v)", step, fmt.Sprintf(f, a...), c24Short(want), c24Short(got))
		return &r
	}
	for _, s := range got {
		if delivered[s] {
			return fail("delivered-twice", "message %d delivered a second time", s)
		}
	}
	seen := map[int]bool{}
	for _, s := range got {
		if seen[s] {
			return fail("delivered-twice", "message %d delivered twice", s)
		}
		seen[s] = true
		if lostFrom >= 0 && s >= lostFrom {
			return fail("buffered-after-overflow", "message %d was sent at/after the overflow but reached the backend", s)
		}
	}
	if lostFrom >= 0 {
		return nil // after an overflow only the clause above is judged
	}
	if len(got) == len(want) {
		same := true
		for i := range got {
			if got[i] != want[i] {
				same = false
			}
		}
		if same {
			return nil
		}
	}
	wantSet := map[int]bool{}
	for _, s := range want {
		wantSet[s] = true
	}
	for _, s := range got {
		if !wantSet[s] {
			return fail("delivered-before-ready-or-unexpected", "message %d reached the backend in this step but should not have", s)
		}
	}
	for _, s := range want {
		if !seen[s] {
			return fail("not-delivered", "message %d was not delivered", s)
		}
	}
	return fail("order", "messages delivered out of the order sent")
}

func c24Short(s []int) string {
	if len(s) <= 12 {
		return fmt.Sprint(s)
	}
	return fmt.Sprintf("%v...%v (%d)", s[:5], s[len(s)-5:], len(s))
}

func c24Disconnected(client *c24Conn) (closed, packetSent bool) {
	closed = client.ctx.Err() != nil
	for _, p := range client.snapshot() {
		if _, ok := p.(*packet.Disconnect); ok {
			packetSent = true
		}
	}
	return
}

// ---------------------------------------------------------------- config queue

type c24ConfigFix struct {
	client  *c24Conn
	player  *connectedPlayer
	handler *clientConfigSessionHandler
	servers []*serverConnection
	conns   []*c24Conn
	seen    []int
}

func c24NewConfigFix() *c24ConfigFix {
	f := &c24ConfigFix{client: c24NewConn(state.Config, version.Minecraft_1_20_3.Protocol)}
	f.player = &connectedPlayer{MinecraftConn: f.client, log: logr.Discard()}
	f.player.sessionHandlerDeps = &sessionHandlerDeps{
		proxy:          &Proxy{event: event.Nop, channelRegistrar: message.NewChannelRegistrar()},
		eventMgr:       event.Nop,
		configProvider: &c24Cfg{cfg: &config.Config{}},
	}
	f.handler = newClientConfigSessionHandler(f.player)
	f.client.handler = f.handler
	return f
}

func (f *c24ConfigFix) newTarget() int {
	i := len(f.servers)
	srv := newRegisteredServer(NewServerInfo(fmt.Sprintf("s%d", i), &net.TCPAddr{IP: net.IPv4(10, 0, 0, byte(i+1)), Port: 25565}))
	sc := newServerConnection(srv, nil, f.player)
	conn := c24NewConn(state.Config, version.Minecraft_1_20_3.Protocol)
	sc.mu.Lock()
	sc.connection = conn
	sc.mu.Unlock()
	f.servers = append(f.servers, sc)
	f.conns = append(f.conns, conn)
	f.seen = append(f.seen, 0)
	f.player.setInFlightConnection(sc)
	return i
}

func (f *c24ConfigFix) send(seq, size int) {
	f.handler.HandlePacket(&proto.PacketContext{Direction: proto.ServerBound, Protocol: f.client.protocol,
		Packet: &plugin.Message{Channel: c24Channel(seq), Data: c24Payload(seq, size)}, Payload: []byte{0x02}})
}

func c24RunConfig(c c24Case) verifkit.Result {
	f := c24NewConfigFix()
	q := &c24Queue{firstLost: -1}
	target, ready := -1, -1
	seq := 0
	sizes := map[int]int{}
	delivered := map[int]bool{}
	labels := map[string]bool{}
	queuedBeforeReady, sentAfterReady, everReady := 0, 0, false
	expectDisc := false

	settle := func(step string, want map[int][]int) *verifkit.Result {
		for i, conn := range f.conns {
			pk := conn.snapshot()
			got, bad := c24Deliveries(pk, f.seen[i], sizes)
			f.seen[i] = len(pk)
			if bad != "" {
				r := verifkit.Fail("config:payload-altered", "%s: backend %d: %s", step, i, bad)
				return &r
			}
			if r := c24Compare(fmt.Sprintf("%s (backend %d)", step, i), "config", want[i], got, delivered, q.firstLost); r != nil {
				return r
			}
			for _, s := range got {
				delivered[s] = true
			}
		}
		closed, sent := c24Disconnected(f.client)
		if expectDisc && !(closed && sent) {
			r := verifkit.Fail("config:cap-exceeded-no-disconnect", "%s: the queue caps were exceeded (message %d) but the player was not disconnected (closed=%v, disconnect packet=%v)", step, q.firstLost, closed, sent)
			return &r
		}
		if !expectDisc && (closed || sent) {
			r := verifkit.Fail("config:disconnect-within-caps", "%s: player disconnected although the queue holds %d messages / %d bytes", step, len(q.q), q.bytes)
			return &r
		}
		return nil
	}

	one := func(step string, size int, want map[int][]int) {
		s := seq
		seq++
		sizes[s] = size
		f.send(s, size)
		if target >= 0 && ready == target {
			want[target] = append(want[target], s)
			sentAfterReady++
			return
		}
		queued, over := q.push(c24MMsg{s, size})
		if over {
			expectDisc = true
			labels["overflow"] = true
		}
		if queued && !everReady {
			queuedBeforeReady++
		}
	}

	for i, op := range c.Ops {
		step := fmt.Sprintf("op %d %s", i, op.K)
		want := map[int][]int{}
		// After an overflow the player is gone. Only the "nothing is buffered
		// further" clause is still judged: late messages on the queue path, then
		// one readiness event, then the case ends.
		if expectDisc && op.K != "msg" && op.K != "ready" {
			continue
		}
		switch op.K {
		case "msg":
			if op.Size < 0 || op.Size > c24MaxBytes+16 {
				continue
			}
			one(step, op.Size, want)
		case "bulk":
			if op.N < 0 || op.N > 1100 || op.Size < 0 || op.Size > c24MaxBytes+16 || op.N*op.Size > 3*c24MaxBytes {
				continue
			}
			for k := 0; k < op.N; k++ {
				one(step, op.Size, want)
			}
		case "target":
			if len(f.servers) >= 4 {
				continue
			}
			target = f.newTarget()
			if everReady {
				labels["retarget-after-ready"] = true
			}
		case "ready":
			if target < 0 {
				continue
			}
			if err := f.handler.flushQueuedPluginMessagesTo(f.servers[target]); err != nil {
				return verifkit.Fail("config:flush-error", "%s: %v", step, err)
			}
			if ready != target {
				for _, m := range q.drain() {
					want[target] = append(want[target], m.seq)
				}
				ready = target
				everReady = true
			}
		default:
			continue
		}
		if r := settle(step, want); r != nil {
			return *r
		}
		if expectDisc && op.K == "ready" {
			labels["ready-after-overflow"] = true
			break
		}
		if len(q.q) >= c24MaxMsgs-1 {
			labels["count-near-cap"] = true
		}
		if q.bytes >= c24MaxBytes-64 {
			labels["bytes-near-cap"] = true
		}
	}
	if queuedBeforeReady >= 2 && sentAfterReady >= 1 {
		labels["queued>=2-then-direct"] = true
	}
	var ls []string
	for l := range labels {
		ls = append(ls, l)
	}
	sort.Strings(ls)
	return verifkit.Result{NonTrivial: queuedBeforeReady >= 2 && sentAfterReady >= 1, Labels: ls}
}

// ---------------------------------------------------------------- pre-join queue

type c24PlayFix struct {
	client  *c24Conn
	backend *c24Conn // connection of the currently connected backend
	player  *connectedPlayer
	handler *clientPlaySessionHandler
	sc      *serverConnection
	seen    int
	old     []*c24Conn // connections of earlier backends
	oldSeen []int
	joins   int
}

func c24NewPlayFix() *c24PlayFix {
	f := &c24PlayFix{client: c24NewConn(state.Play, version.Minecraft_1_12_2.Protocol)}
	f.client.typ = phase.LegacyForge
	deps := &sessionHandlerDeps{
		proxy:          &Proxy{event: event.Nop, channelRegistrar: message.NewChannelRegistrar()},
		eventMgr:       event.Nop,
		configProvider: &c24Cfg{cfg: &config.Config{}},
	}
	f.player = newConnectedPlayer(f.client, profile.NewOffline("Player_1"),
		&net.TCPAddr{IP: net.IPv4(127, 0, 0, 1), Port: 25565}, packet.LoginHandshakeIntent, false, nil, deps)
	f.handler = newClientPlaySessionHandler(f.player)
	f.client.handler = f.handler
	// the initial server join (first JoinGame: OnFirstJoin makes a NOT_STARTED client "complete")
	if err := f.join(); err != nil {
		panic("c24: initial join: " + err.Error())
	}
	return f
}

// join does what backendTransitionSessionHandler.handleJoinGame does around the
// real handleBackendJoinGame: the previous backend connection is shut down, the
// new connection becomes the connected server afterwards.
func (f *c24PlayFix) join() error {
	nb := c24NewConn(state.Play, version.Minecraft_1_12_2.Protocol)
	nb.typ = phase.LegacyForge
	srv := newRegisteredServer(NewServerInfo(fmt.Sprintf("s%d", f.joins), &net.TCPAddr{IP: net.IPv4(10, 0, 0, byte(f.joins+1)), Port: 25565}))
	nsc := newServerConnection(srv, nil, f.player)
	nsc.mu.Lock()
	nsc.connection = nb
	nsc.connPhase = phase.UnknownBackendPhase // vanilla backend: resolved by completeJoin
	nsc.mu.Unlock()
	if f.sc != nil {
		f.player.mu.Lock()
		f.player.connectedServer_ = nil
		f.player.mu.Unlock()
		f.sc.disconnect()
	}
	jg := &packet.JoinGame{EntityID: 7 + f.joins, Dimension: f.joins % 2}
	lt := "default"
	jg.LevelType = &lt
	if err := f.handler.handleBackendJoinGame(&proto.PacketContext{Direction: proto.ClientBound,
		Protocol: f.client.protocol, Packet: jg, Payload: []byte{0x23}}, jg, nsc); err != nil {
		return err
	}
	bh, err := newBackendPlaySessionHandler(nsc)
	if err != nil {
		return err
	}
	nb.handler = bh
	f.player.setConnectedServer(nsc)
	if f.backend != nil {
		f.old = append(f.old, f.backend)
		f.oldSeen = append(f.oldSeen, len(f.backend.snapshot()))
	}
	f.sc, f.backend, f.seen = nsc, nb, 0
	f.joins++
	return nil
}

func (f *c24PlayFix) handle(m *plugin.Message) {
	f.handler.HandlePacket(&proto.PacketContext{Direction: proto.ServerBound, Protocol: f.client.protocol,
		Packet: m, Payload: []byte{0x09}})
}

// c24FmlNext returns the FML|HS message a client sends to leave the given
// handshake phase (0 NOT_STARTED .. 5 PENDING_COMPLETE; 6 = COMPLETE).
func c24FmlNext(ph int) *plugin.Message {
	var d byte
	switch ph {
	case 0:
		d = forge.ClientHelloDiscriminator
	case 1:
		d = forge.ModListDiscriminator
	default:
		d = byte(forge.AckDiscriminator & 0xff)
	}
	data := []byte{d, 0}
	if ph == 1 {
		data = []byte{d, 0} // empty mod list
	}
	return &plugin.Message{Channel: forge.LegacyHandshakeChannel, Data: data}
}

func c24RunPlay(c c24Case) verifkit.Result {
	f := c24NewPlayFix()
	q := &c24Queue{firstLost: -1}
	clientPhase := 6 // after its first join a Legacy Forge client counts as complete (OnFirstJoin)
	if !f.player.phase().ConsideredComplete() || !f.sc.phase().ConsideredComplete() {
		return verifkit.Fail("harness:unexpected-initial-phase", "after the initial join: client phase %T, backend phase %T", f.player.phase(), f.sc.phase())
	}
	serverComplete := true
	seq := 0
	sizes := map[int]int{}
	delivered := map[int]bool{}
	labels := map[string]bool{}
	queuedTotal, directAfterQueue := 0, 0
	expectDisc := false
	// stale: the handshake completed but the queued messages were not flushed at
	// that moment (they stay queued until the next JoinGame). Recorded, not judged.
	stale := false
	overtaken := false

	settle := func(step string, want []int) *verifkit.Result {
		pk := f.backend.snapshot()
		got, bad := c24Deliveries(pk, f.seen, sizes)
		f.seen = len(pk)
		if bad != "" {
			r := verifkit.Fail("prejoin:payload-altered", "%s: %s", step, bad)
			return &r
		}
		for i, oc := range f.old {
			ogot, _ := c24Deliveries(oc.snapshot(), f.oldSeen[i], sizes)
			if len(ogot) > 0 {
				r := verifkit.Fail("prejoin:wrong-backend", "%s: messages %v reached a backend the player already left", step, c24Short(ogot))
				return &r
			}
		}
		if r := c24Compare(step, "prejoin", want, got, delivered, q.firstLost); r != nil {
			return r
		}
		for _, s := range got {
			delivered[s] = true
		}
		closed, sent := c24Disconnected(f.client)
		if expectDisc && !(closed && sent) {
			r := verifkit.Fail("prejoin:cap-exceeded-no-disconnect", "%s: the queue caps were exceeded (message %d) but the player was not disconnected (closed=%v, disconnect packet=%v)", step, q.firstLost, closed, sent)
			return &r
		}
		if !expectDisc && (closed || sent) {
			r := verifkit.Fail("prejoin:disconnect-within-caps", "%s: player disconnected although the queue holds %d messages / %d bytes", step, len(q.q), q.bytes)
			return &r
		}
		return nil
	}
	one := func(size int, want *[]int) {
		s := seq
		seq++
		sizes[s] = size
		f.handle(&plugin.Message{Channel: c24Channel(s), Data: c24Payload(s, size)})
		if clientPhase == 6 && serverComplete {
			if stale && len(q.q) > 0 {
				overtaken = true // recorded as a label only, see below
			}
			*want = append(*want, s)
			if queuedTotal > 0 {
				directAfterQueue++
			}
			return
		}
		queued, over := q.push(c24MMsg{s, size})
		if over {
			expectDisc = true
			labels["overflow"] = true
		}
		if queued {
			queuedTotal++
		}
	}

	for i, op := range c.Ops {
		step := fmt.Sprintf("op %d %s", i, op.K)
		var want []int
		if expectDisc && op.K != "msg" && op.K != "join" {
			continue // the player is gone; only the "nothing is buffered further" clause is still judged
		}
		switch op.K {
		case "msg":
			if op.Size < 0 || op.Size > c24MaxBytes+16 {
				continue
			}
			one(op.Size, &want)
		case "bulk":
			if op.N < 0 || op.N > 1100 || op.Size < 0 || op.Size > c24MaxBytes+16 || op.N*op.Size > 3*c24MaxBytes {
				continue
			}
			for k := 0; k < op.N; k++ {
				one(op.Size, &want)
			}
		case "reset":
			f.player.SetPhase(phase.NotStartedLegacyForgeHandshakeClientPhase)
			clientPhase = 0
			stale = false // later messages queue up behind the old ones again
		case "fml":
			if clientPhase >= 6 {
				continue
			}
			f.handle(c24FmlNext(clientPhase))
			clientPhase++
			if clientPhase == 6 && serverComplete {
				// "queue any non-FML handshake messages to be sent once the FML handshake has
				// completed or the JoinGame packet has been received, whichever comes first"
				labels["handshake-completed"] = true
				if len(q.q) > 0 {
					pk := f.backend.snapshot()
					got, _ := c24Deliveries(pk, f.seen, sizes)
					if len(got) == 0 {
						stale = true // judged when (if) a later message overtakes them
						labels["queue-not-flushed-at-handshake-complete"] = true
					} else {
						for _, m := range q.drain() {
							want = append(want, m.seq)
						}
					}
				}
			}
		case "join":
			if err := f.join(); err != nil {
				return verifkit.Fail("prejoin:join-error", "%s: %v", step, err)
			}
			serverComplete = true // completeJoin: an unknown backend phase becomes vanilla
			stale = false
			for _, m := range q.drain() {
				want = append(want, m.seq)
			}
			labels["join"] = true
		default:
			continue
		}
		if r := settle(step, want); r != nil {
			return *r
		}
		if overtaken {
			// Observation, not a verdict: FlushQueuedPluginMessages on handshake
			// completion never reaches the client play handler (backendConnAdapter asks
			// the BACKEND connection's session handler), so a later message is forwarded
			// ahead of the queued ones. Whether a real Legacy Forge client/backend pair can
			// produce this history (handshake traffic while the connected backend is not
			// "in transition") could not be established, so it does not decide the check.
			labels["later-message-forwarded-ahead-of-stale-queue"] = true
			overtaken = false
		}
		if expectDisc && op.K == "join" {
			labels["ready-after-overflow"] = true
			break
		}
		if len(q.q) >= c24MaxMsgs-1 {
			labels["count-near-cap"] = true
		}
		if q.bytes >= c24MaxBytes-64 {
			labels["bytes-near-cap"] = true
		}
	}
	// model/real phase agreement (harness sanity: the model mirrors the real phase machine)
	if !expectDisc {
		realComplete := f.player.phase().ConsideredComplete()
		if realComplete != (clientPhase == 6) {
			return verifkit.Fail("harness:phase-model-diverged", "real client phase complete=%v, model phase=%d", realComplete, clientPhase)
		}
	}
	var ls []string
	for l := range labels {
		ls = append(ls, l)
	}
	sort.Strings(ls)
	return verifkit.Result{NonTrivial: queuedTotal >= 2 && directAfterQueue >= 1, Labels: ls}
}


// ---------------------------------------------------------------- switch flow (1.20.2+)

// c24FlowCase drives the production readiness trigger itself: the backend login
// handler's handleServerLoginSuccess. On the initial join the client is served by
// the config session handler; on a server switch it is served by the play handler,
// which runs doSwitch; the client acknowledges (FinishedUpdate) and is served by the
// SAME config session handler again (minecraftConn keeps one handler per state).
type c24FlowCase struct {
	InitQueued int   `json:"initQueued"` // client messages before the first backend's login succeeded
	InitDirect int   `json:"initDirect"` // client messages after that, before the client leaves configuration
	Switches   []int `json:"switches"`   // per server switch: client messages during that configuration phase
}

func c24RunFlow(c c24FlowCase) verifkit.Result {
	if c.InitQueued < 0 || c.InitQueued > 64 || c.InitDirect < 0 || c.InitDirect > 64 || len(c.Switches) > 4 {
		return verifkit.Result{Labels: []string{"invalid-case"}}
	}
	client := c24NewConn(state.Config, version.Minecraft_1_20_3.Protocol)
	client.lifecycle = true
	deps := &sessionHandlerDeps{
		proxy:          &Proxy{event: event.Nop, channelRegistrar: message.NewChannelRegistrar()},
		eventMgr:       event.Nop,
		configProvider: &c24Cfg{cfg: &config.Config{}},
	}
	player := newConnectedPlayer(client, profile.NewOffline("Player_1"),
		&net.TCPAddr{IP: net.IPv4(127, 0, 0, 1), Port: 25565}, packet.LoginHandshakeIntent, false, nil, deps)
	// authSessionHandler.handleLoginAcknowledged
	client.SetActiveSessionHandler(state.Config, newClientConfigSessionHandler(player))

	seq := 0
	sizes := map[int]int{}
	send := func() int {
		s := seq
		seq++
		sizes[s] = 3
		client.ActiveSessionHandler().HandlePacket(&proto.PacketContext{Direction: proto.ServerBound, Protocol: client.protocol,
			Packet: &plugin.Message{Channel: c24Channel(s), Data: c24Payload(s, 3)}, Payload: []byte{0x02}})
		return s
	}
	type backend struct {
		sc   *serverConnection
		conn *c24Conn
	}
	var backends []backend
	connect := func() backend {
		i := len(backends)
		srv := newRegisteredServer(NewServerInfo(fmt.Sprintf("s%d", i), &net.TCPAddr{IP: net.IPv4(10, 0, 0, byte(i+1)), Port: 25565}))
		sc := newServerConnection(srv, nil, player)
		conn := c24NewConn(state.Login, version.Minecraft_1_20_3.Protocol)
		conn.lifecycle = true
		sc.mu.Lock()
		sc.connection = conn
		sc.mu.Unlock()
		player.setInFlightConnection(sc) // connectionRequest
		b := backend{sc, conn}
		backends = append(backends, b)
		return b
	}
	loginSuccess := func(b backend) {
		h := newBackendLoginSessionHandler(b.sc, &connRequestCxt{Context: context.Background(), response: make(chan *connResponse, 1)}, deps)
		h.(*backendLoginSessionHandler).handleServerLoginSuccess()
	}
	finishedUpdate := func() {
		client.ActiveSessionHandler().HandlePacket(&proto.PacketContext{Direction: proto.ServerBound, Protocol: client.protocol,
			Packet: &cfgpacket.FinishedUpdate{}, Payload: []byte{0x03}})
	}
	judge := func(step string, b backend, idx int, want []int, key string) *verifkit.Result {
		for k, ob := range backends {
			got, bad := c24Deliveries(ob.conn.snapshot(), 0, sizes)
			if bad != "" {
				r := verifkit.Fail("switch:payload-altered", "%s: backend %d: %s", step, k, bad)
				return &r
			}
			if k != idx {
				for _, s := range got {
					for _, w := range want {
						if s == w {
							r := verifkit.Fail("switch:wrong-backend", "%s: message %d, sent while backend %d was being joined, reached backend %d", step, s, idx, k)
							return &r
						}
					}
				}
				continue
			}
			// messages of this phase are the tail of what backend idx received
			var mine []int
			for _, s := range got {
				if len(want) > 0 && s >= want[0] {
					mine = append(mine, s)
				}
			}
			if fmt.Sprint(mine) != fmt.Sprint(want) && !(len(mine) == 0 && len(want) == 0) {
				r := verifkit.Fail(key, "%s: backend %d received %v of the client's configuration-phase plugin messages, expected %v", step, idx, c24Short(mine), c24Short(want))
				return &r
			}
		}
		if closed, sent := c24Disconnected(client); closed || sent {
			r := verifkit.Fail("switch:disconnect-within-caps", "%s: player disconnected", step)
			return &r
		}
		return nil
	}

	// ---- initial join
	a := connect()
	var want []int
	for i := 0; i < c.InitQueued; i++ {
		want = append(want, send())
	}
	if got, _ := c24Deliveries(a.conn.snapshot(), 0, sizes); len(got) != 0 {
		return verifkit.Fail("switch:delivered-before-ready", "backend 0 received %v before its login succeeded", got)
	}
	loginSuccess(a)
	if r := judge("initial join: backend login success", a, 0, want, "switch:initial-queue-not-flushed"); r != nil {
		return *r
	}
	for i := 0; i < c.InitDirect; i++ {
		want = append(want, send())
	}
	if r := judge("initial join: messages after readiness", a, 0, want, "switch:initial-direct-not-forwarded"); r != nil {
		return *r
	}
	finishedUpdate() // the client leaves configuration: clientConfigSessionHandler installs the play handler
	if _, ok := client.ActiveSessionHandler().(*clientPlaySessionHandler); !ok {
		return verifkit.Fail("harness:flow", "after FinishedUpdate the client handler is %T", client.ActiveSessionHandler())
	}
	player.setConnectedServer(a.sc) // backend JoinGame handled (backendTransitionSessionHandler.handleJoinGame)

	// ---- server switches
	for i, n := range c.Switches {
		if n < 0 || n > 64 {
			return verifkit.Result{Labels: []string{"invalid-case"}}
		}
		b := connect()
		loginSuccess(b) // play handler active: doSwitch -> StartUpdate to the client
		finishedUpdate() // client acknowledges: play handler switches the client to its config session handler
		if _, ok := client.ActiveSessionHandler().(*clientConfigSessionHandler); !ok {
			return verifkit.Fail("harness:flow", "switch %d: after the client acknowledged reconfiguration its handler is %T", i, client.ActiveSessionHandler())
		}
		var w []int
		for k := 0; k < n; k++ {
			w = append(w, send())
		}
		finishedUpdate() // configuration of the new backend is over; the client returns to play
		step := fmt.Sprintf("switch %d: end of the configuration phase for backend %d", i, len(backends)-1)
		if r := judge(step, b, len(backends)-1, w, "switch:config-messages-not-delivered"); r != nil {
			return *r
		}
		player.setConnectedServer(b.sc)
	}
	labels := []string{fmt.Sprintf("switches-%d", len(c.Switches))}
	msgsInSwitch := 0
	for _, n := range c.Switches {
		msgsInSwitch += n
	}
	if msgsInSwitch > 0 {
		labels = append(labels, "messages-during-switch")
	}
	return verifkit.Result{NonTrivial: c.InitQueued >= 2 && c.InitDirect >= 1, Labels: labels}
}

func c24GenFlow(t *rapid.T) c24FlowCase {
	c := c24FlowCase{
		InitQueued: rapid.IntRange(0, 6).Draw(t, "initQueued"),
		InitDirect: rapid.IntRange(0, 4).Draw(t, "initDirect"),
	}
	for i, n := 0, rapid.IntRange(0, 3).Draw(t, "switches"); i < n; i++ {
		c.Switches = append(c.Switches, rapid.SampledFrom([]int{0, 0, 1, 2, 5}).Draw(t, "msgs"))
	}
	return c
}

// ---------------------------------------------------------------- generators

func c24GenTraffic(t *rapid.T, ops *[]c24Op) {
	switch 47 - rapid.IntRange(0, 47).Draw(t, "traffic") { // rapid favours small draws: keep the heavy cases rare
	case 1, 4: // count edge
		*ops = append(*ops, c24Op{K: "bulk", N: rapid.SampledFrom([]int{1020, 1023, 1024}).Draw(t, "n"), Size: rapid.IntRange(0, 3).Draw(t, "sz")})
	case 0, 3: // byte edge: k MiB-sized messages, then the remainder around the cap
		mib := 1024 * 1024
		*ops = append(*ops, c24Op{K: "bulk", N: 3, Size: mib})
		*ops = append(*ops, c24Op{K: "msg", Size: mib + rapid.SampledFrom([]int{-2, -1, 0, 1}).Draw(t, "edge")})
	case 2:
		*ops = append(*ops, c24Op{K: "msg", Size: rapid.SampledFrom([]int{c24MaxBytes - 1, c24MaxBytes, c24MaxBytes + 1, 3 * 1024 * 1024}).Draw(t, "big")})
	case 5, 6, 7, 8, 9, 10, 11, 12:
		*ops = append(*ops, c24Op{K: "bulk", N: rapid.IntRange(2, 40).Draw(t, "n"), Size: rapid.IntRange(0, 64).Draw(t, "sz")})
	default:
		*ops = append(*ops, c24Op{K: "msg", Size: rapid.SampledFrom([]int{0, 1, 2, 5, 17, 300}).Draw(t, "sz")})
	}
}

func c24GenConfig(t *rapid.T) c24Case {
	var ops []c24Op
	// segments: (new in-flight backend) early traffic, backend ready, later traffic; a further
	// segment models the fallback to the next server while the client is still in configuration
	for seg, n := 0, rapid.IntRange(1, 3).Draw(t, "segments"); seg < n; seg++ {
		if seg > 0 || rapid.IntRange(0, 5).Draw(t, "targetFirst") > 0 {
			ops = append(ops, c24Op{K: "target"})
		}
		for i, k := 0, rapid.IntRange(0, 4).Draw(t, "early"); i < k; i++ {
			c24GenTraffic(t, &ops)
		}
		if seg == 0 && len(ops) > 0 && ops[0].K != "target" {
			ops = append(ops, c24Op{K: "target"}) // messages sent before any backend was chosen
		}
		switch rapid.IntRange(0, 5).Draw(t, "readiness") {
		case 0: // this backend never becomes ready (connect failed)
		case 1:
			ops = append(ops, c24Op{K: "ready"}, c24Op{K: "ready"})
		default:
			ops = append(ops, c24Op{K: "ready"})
		}
		for i, k := 0, rapid.IntRange(0, 3).Draw(t, "late"); i < k; i++ {
			c24GenTraffic(t, &ops)
		}
	}
	return c24Case{Ops: ops}
}

func c24GenPlay(t *rapid.T) c24Case {
	var ops []c24Op
	// segments: the handshake is reset (server switch away from a modded backend), the client
	// sends early messages, readiness arrives (handshake completes and/or JoinGame), later traffic
	for seg, n := 0, rapid.IntRange(1, 3).Draw(t, "segments"); seg < n; seg++ {
		if rapid.IntRange(0, 9).Draw(t, "reset") > 0 {
			ops = append(ops, c24Op{K: "reset"})
		}
		for i, k := 0, rapid.IntRange(0, 3).Draw(t, "early"); i < k; i++ {
			c24GenTraffic(t, &ops)
			if rapid.IntRange(0, 3).Draw(t, "fmlBetween") == 0 {
				ops = append(ops, c24Op{K: "fml"})
			}
		}
		switch rapid.IntRange(0, 3).Draw(t, "readiness") {
		case 0:
			for i := 0; i < 6; i++ {
				ops = append(ops, c24Op{K: "fml"})
			}
		case 1:
			for i, k := 0, rapid.IntRange(0, 5).Draw(t, "partial"); i < k; i++ {
				ops = append(ops, c24Op{K: "fml"})
			}
			ops = append(ops, c24Op{K: "join"})
		default:
			ops = append(ops, c24Op{K: "join"})
		}
		for i, k := 0, rapid.IntRange(0, 2).Draw(t, "late"); i < k; i++ {
			c24GenTraffic(t, &ops)
		}
		if rapid.IntRange(0, 2).Draw(t, "joinAfter") == 0 {
			ops = append(ops, c24Op{K: "join"})
		}
	}
	return c24Case{Ops: ops}
}

// ---------------------------------------------------------------- concurrent variant

// c24RaceCase: Pre messages are queued sequentially; then the client read loop
// (K more messages) races with the backend goroutine that makes the backend
// ready (config queue: flush); afterwards one more message and a
// final readiness event run sequentially. Judged by facts that hold for every
// interleaving: each message reaches the backend exactly once, in send order.
type c24RaceCase struct {
	Queue string `json:"queue"` // config | prejoin
	Pre   int    `json:"pre"`
	K     int    `json:"k"`
	Size  int    `json:"size"`
}

func c24RunRace(c c24RaceCase) verifkit.Result {
	if c.Pre < 0 || c.Pre > 200 || c.K < 0 || c.K > 200 || c.Size < 0 || c.Size > 4096 {
		return verifkit.Result{Labels: []string{"invalid-case"}}
	}
	var send func(seq int)
	var makeReady func() error
	var backend *c24Conn
	var client *c24Conn
	if c.Queue != "config" {
		// Only the config queue has a production readiness race: flushQueuedPluginMessagesTo runs on
		// the backend goroutine while the client read loop handles plugin messages. The pre-join
		// drain (handleBackendJoinGame) runs while the player has no connected server, so client
		// plugin messages handled concurrently never reach that queue.
		return verifkit.Result{Labels: []string{"invalid-case"}}
	}
	{
		f := c24NewConfigFix()
		t := f.newTarget()
		send = func(seq int) { f.send(seq, c.Size) }
		makeReady = func() error { return f.handler.flushQueuedPluginMessagesTo(f.servers[t]) }
		backend, client = f.conns[t], f.client
	}
	for s := 0; s < c.Pre; s++ {
		send(s)
	}
	var readyErr error
	start := make(chan struct{})
	var wg sync.WaitGroup
	wr := verifkit.Watch(10*time.Second, "proxy.", func() {
		wg.Add(2)
		go func() {
			defer wg.Done()
			<-start
			for s := c.Pre; s < c.Pre+c.K; s++ {
				send(s)
			}
		}()
		go func() {
			defer wg.Done()
			<-start
			readyErr = makeReady()
		}()
		close(start)
		wg.Wait()
	})
	switch wr.Outcome {
	case verifkit.Deadlocked:
		return verifkit.Fail("deadlock:"+c.Queue, "message handling and readiness blocked each other:\n%s", wr.Stack)
	case verifkit.Slow:
		return verifkit.Result{Inconclusive: true, Labels: []string{"slow"}}
	case verifkit.Panicked:
		return verifkit.Fail("panic:"+c.Queue, "%v\n%s", wr.PanicValue, wr.PanicStack)
	}
	if readyErr != nil {
		return verifkit.Fail(c.Queue+":ready-error", "%v", readyErr)
	}
	total := c.Pre + c.K
	send(total) // sent after readiness
	total++
	if err := makeReady(); err != nil { // a later readiness event drains anything left behind
		return verifkit.Fail(c.Queue+":ready-error", "%v", err)
	}
	sizes := map[int]int{}
	for s := 0; s < total; s++ {
		sizes[s] = c.Size
	}
	got, bad := c24Deliveries(backend.snapshot(), 0, sizes)
	if bad != "" {
		return verifkit.Fail(c.Queue+":payload-altered", "%s", bad)
	}
	if closed, sent := c24Disconnected(client); closed || sent {
		return verifkit.Fail(c.Queue+":disconnect-within-caps", "player disconnected with %d small messages", total)
	}
	seen := map[int]bool{}
	for _, s := range got {
		if seen[s] {
			return verifkit.Fail(c.Queue+":delivered-twice", "message %d delivered twice under concurrent readiness (received %v)", s, c24Short(got))
		}
		seen[s] = true
	}
	for s := 0; s < total; s++ {
		if !seen[s] {
			return verifkit.Fail(c.Queue+":not-delivered", "message %d never reached the backend (received %v)", s, c24Short(got))
		}
	}
	for i := 1; i < len(got); i++ {
		if got[i] < got[i-1] {
			return verifkit.Fail(c.Queue+":order", "message %d reached the backend before message %d, which the client sent earlier (received %v)", got[i-1], got[i], c24Short(got))
		}
	}
	return verifkit.Result{NonTrivial: c.Pre >= 2 && c.K >= 1, Labels: []string{c.Queue}}
}

func c24GenRace(t *rapid.T) c24RaceCase {
	return c24RaceCase{
		Queue: "config",
		Pre:   rapid.IntRange(0, 40).Draw(t, "pre"),
		K:     rapid.IntRange(1, 60).Draw(t, "k"),
		Size:  rapid.SampledFrom([]int{0, 1, 16, 512}).Draw(t, "size"),
	}
}

func TestVerif_C24(t *testing.T) {
	verifkit.Check(t, "C24", "config-queue",
		"clientConfigSessionHandler (1.20.2+ initial join): 2..14 ops over {client plugin message (payload 0 B..4 MiB+1, bursts up to 1024 msgs, totals steered to 1023/1024/1025 messages and 4 MiB-1/4 MiB/4 MiB+1), new in-flight backend (fallback), backend ready = flushQueuedPluginMessagesTo}; per step the packets each backend receives (messages identified by sequence number in the channel name, payload checked) and the player's disconnect state are compared with a queue model with both caps; non-trivial = >=2 messages queued before the first readiness and >=1 sent after it",
		c24GenConfig, c24RunConfig)
	verifkit.Check(t, "C24", "prejoin-queue",
		"clientPlaySessionHandler with a Legacy Forge 1.12.2 client built by newConnectedPlayer: 2..16 ops over {client plugin message / bursts (same size steering), handshake reset, next FML|HS handshake message (real phase machine), backend phase unknown/vanilla, JoinGame = real handleBackendJoinGame}; readiness = handshake complete or JoinGame (source comment); same oracle; non-trivial = >=2 messages queued and >=1 forwarded directly afterwards",
		c24GenPlay, c24RunPlay)
	verifkit.Check(t, "C24", "switch-flow",
		"1.20.2+ client built by newConnectedPlayer over a connection double that keeps one session handler per state like minecraftConn: initial join with 0..6 messages before and 0..4 after the backend's login success, then 0..3 server switches with 0..5 client messages during each configuration phase; readiness is produced only by the production trigger backendLoginSessionHandler.handleServerLoginSuccess (config handler active: flush; play handler active: doSwitch); at the end of each configuration phase the backend being joined must have received that phase's messages once, in order, and no other backend any of them; non-trivial = >=2 queued before and >=1 after the first readiness",
		c24GenFlow, c24RunFlow)
}

func TestVerif_C24Race(t *testing.T) {
	verifkit.Check(t, "C24", "concurrent",
		"0..40 messages queued, then the client goroutine sends 1..60 more while the backend goroutine makes the backend ready (config queue: flushQueuedPluginMessagesTo), released from one barrier; then one more message and a final readiness event; facts valid for every interleaving: every message reaches the backend exactly once and in send order; race detector on; non-trivial = >=2 queued before and >=1 racing",
		c24GenRace, c24RunRace)
}
