//go:build verif

package proxy

// C15, sub-check "tablist-relay": the backend read loop of a player in play hands
// every tab-list packet to the player's tab list (bookkeeping only) and then
// relays it like any other packet. The relay rig of the main C15 check starts at
// protocol 1.8 and treats tab-list packets as pass-through traffic of a fresh
// list; this sub-check feeds the real backendPlaySessionHandler.HandlePacket of a
// real connectedPlayer (1.7.6 with the name-keyed list, 1.8..1.19.1 with the
// id-keyed legacy list, 1.19.3+ with the modern list) generated sequences of
// tab-list packets - adds, updates and removes of known and unknown entries -
// mixed with opaque packets, and demands that every call returns and that the
// client receives every payload, byte-identical and in order.

import (
	"bytes"
	"fmt"
	"net"
	"testing"

	"github.com/go-logr/logr"
	"github.com/robinbraemer/event"
	"pgregory.net/rapid"

	"go.minekube.com/gate/pkg/edition/java/config"
	"go.minekube.com/gate/pkg/edition/java/profile"
	"go.minekube.com/gate/pkg/edition/java/proto/packet"
	"go.minekube.com/gate/pkg/edition/java/proto/packet/tablist/legacytablist"
	"go.minekube.com/gate/pkg/edition/java/proto/packet/tablist/playerinfo"
	"go.minekube.com/gate/pkg/edition/java/proxy/phase"
	"go.minekube.com/gate/pkg/gate/proto"
	"go.minekube.com/gate/pkg/internal/verifkit"
	"go.minekube.com/gate/pkg/util/uuid"
)

type c15tOp struct {
	Kind   string `json:"kind"`   // "opaque" | "add" | "update" | "remove"
	Who    []int  `json:"who"`    // entries from a pool of 4 names / ids
	Action int    `json:"action"` // update: 1 game mode, 2 latency, 3 display name
	Len    int    `json:"len"`    // opaque: payload length
}

type c15tCase struct {
	Protocol int      `json:"protocol"`
	Ops      []c15tOp `json:"ops"`
}

func c15tRun(c c15tCase) verifkit.Result {
	protocol := proto.Protocol(c.Protocol)
	mgr := event.New()
	prx := &Proxy{cfg: &config.Config{}, log: logr.Discard(), event: mgr}
	deps := &sessionHandlerDeps{proxy: prx, configProvider: prx, eventMgr: mgr}
	client := &c27bConn{c21Conn: c21NewConn(protocol)}
	backend := &c27bConn{c21Conn: c21NewConn(protocol)}
	defer client.cancel()
	defer backend.cancel()
	player := newConnectedPlayer(client, &profile.GameProfile{ID: uuid.UUID{0xC1, 0x5C}, Name: "c15t"},
		&net.TCPAddr{IP: net.IPv4(127, 0, 0, 1), Port: 25565}, packet.LoginHandshakeIntent, false, nil, deps)
	sc := &serverConnection{player: player, log: logr.Discard(), connPhase: phase.VanillaBackendPhase,
		server: newRegisteredServer(NewServerInfo("backend", &net.TCPAddr{IP: net.IPv4(127, 0, 0, 1), Port: 25566}))}
	sc.connection = backend
	player.mu.Lock()
	player.connectedServer_ = sc
	player.mu.Unlock()
	h := &backendPlaySessionHandler{
		serverConn:                 sc,
		bungeeCordMessageResponder: newBungeeCordMessageResponder(false, player, prx),
		playerSessionHandler:       newClientPlaySessionHandler(player),
		log:                        logr.Discard(),
	}

	names := []string{"Alice", "Bob", "Carol", "Dave"}
	ident := func(i int) uuid.UUID { return uuid.UUID{0x15, byte(i + 1)} }
	var want [][]byte
	labels := map[string]bool{fmt.Sprintf("protocol:%d", c.Protocol): true}
	known := map[int]bool{}
	tabOps := 0
	for i, op := range c.Ops {
		var p proto.Packet
		switch {
		case op.Kind == "opaque":
		case c.Protocol >= 761:
			if op.Kind != "remove" {
				continue // (the modern upsert packet is exercised by the relay rig)
			}
			r := &playerinfo.Remove{}
			for _, w := range op.Who {
				r.PlayersToRemove = append(r.PlayersToRemove, ident(w))
			}
			p = r
			labels["modern-remove"] = true
		default:
			item := &legacytablist.PlayerListItem{}
			switch op.Kind {
			case "add":
				item.Action = legacytablist.AddPlayerListItemAction
			case "remove":
				item.Action = legacytablist.RemovePlayerListItemAction
			default:
				if c.Protocol < 47 {
					continue // 1.7 knows add and remove only
				}
				item.Action = legacytablist.PlayerListItemAction(1 + op.Action%3)
			}
			for _, w := range op.Who {
				e := legacytablist.PlayerListItemEntry{Name: names[w%4], Latency: 10 * (i + 1), GameMode: i % 4}
				if c.Protocol >= 47 {
					e.ID = ident(w % 4)
				}
				item.Items = append(item.Items, e)
				if op.Kind != "add" && !known[w%4] {
					labels[op.Kind+"-of-unknown-entry"] = true
				}
				if op.Kind == "add" && known[w%4] {
					labels["add-of-known-entry"] = true
				}
			}
			for _, w := range op.Who {
				switch op.Kind {
				case "add":
					known[w%4] = true
				case "remove":
					delete(known, w%4)
				}
			}
			if c.Protocol < 47 && len(item.Items) > 1 {
				item.Items = item.Items[:1] // the 1.7 packet carries one entry
			}
			p = item
		}
		if p != nil {
			tabOps++
		}
		payload := append([]byte{0xC1, 0x5C, byte(i)}, bytes.Repeat([]byte{byte(i * 7)}, op.Len%300)...)
		want = append(want, payload)
		var panicked any
		wr := verifkit.Watch(10e9, "tablist.", func() {
			defer func() { panicked = recover() }()
			h.HandlePacket(&proto.PacketContext{Direction: proto.ClientBound, Protocol: protocol, Packet: p, Payload: payload})
		})
		if wr.Outcome == verifkit.Deadlocked {
			return verifkit.Fail("tablist-relay:stalled", "backend packet #%d (%+v, protocol %d) never left the backend read loop - everything behind it is not relayed:\n%s", i+1, op, c.Protocol, wr.Stack)
		}
		if panicked != nil {
			return verifkit.Fail("tablist-relay:panic", "backend packet #%d (%+v, protocol %d) panicked in the backend read loop: %v", i+1, op, c.Protocol, panicked)
		}
		if wr.Outcome != verifkit.Returned {
			return verifkit.Result{Inconclusive: true, Labels: []string{"slow"}}
		}
	}
	client.mu.Lock()
	got := client.raws
	client.mu.Unlock()
	if len(got) != len(want) {
		return verifkit.Fail("tablist-relay:count", "backend sent %d packets, the client received %d (protocol %d, ops %+v)", len(want), len(got), c.Protocol, c.Ops)
	}
	for i := range want {
		if !bytes.Equal(got[i], want[i]) {
			return verifkit.Fail("tablist-relay:payload", "packet #%d reached the client as %x, the backend sent %x (protocol %d)", i+1, got[i], want[i], c.Protocol)
		}
	}
	var ls []string
	for l := range labels {
		ls = append(ls, l)
	}
	return verifkit.Result{Labels: ls, NonTrivial: tabOps >= 2}
}

func c15tGen(t *rapid.T) c15tCase {
	c := c15tCase{Protocol: rapid.SampledFrom([]int{5, 5, 47, 340, 754, 759, 761, 767}).Draw(t, "protocol")}
	n := rapid.IntRange(1, 10).Draw(t, "n")
	for i := 0; i < n; i++ {
		op := c15tOp{
			Kind:   rapid.SampledFrom([]string{"opaque", "add", "add", "update", "remove", "remove"}).Draw(t, "kind"),
			Action: rapid.IntRange(0, 2).Draw(t, "action"),
			Len:    rapid.SampledFrom([]int{0, 1, 40, 299}).Draw(t, "len"),
		}
		if op.Kind != "opaque" {
			op.Who = rapid.SliceOfN(rapid.IntRange(0, 3), 1, 3).Draw(t, "who")
		}
		c.Ops = append(c.Ops, op)
	}
	return c
}

func TestVerif_C15Tab(t *testing.T) {
	verifkit.Check(t, "C15", "tablist-relay",
		"sequences of 1..10 backend packets for a real connectedPlayer in play, through the real backendPlaySessionHandler.HandlePacket: tab-list packets (1.7.6: add / remove by name; 1.8, 1.12.2, 1.16.5, 1.19: add / update game mode, latency, display name / remove by id; 1.19.3, 1.21: remove by id) over a pool of 4 entries - known and unknown ones, repeated adds - mixed with opaque packets of 3..302 bytes; oracle: every call returns (deadlock sensor on the tab list's lock) and the client receives every payload byte-identical and in order; non-trivial = at least two tab-list packets",
		c15tGen, c15tRun)
}
