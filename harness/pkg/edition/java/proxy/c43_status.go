//go:build verif

package proxy

// C43: server list pings get one well-formed response and an exact echo.
//
// A scripted client performs Handshake(next=status) with a generated protocol
// number and then sends a generated sequence of status-phase frames. A small
// reference automaton (written from the property text) predicts, frame by
// frame, what the proxy must write back and whether it must have closed the
// connection; the byte stream the proxy really produced is parsed with the
// independent reference framing and compared.

import (
	"bytes"
	"encoding/json"
	"fmt"
	"math"
	"testing"

	"github.com/robinbraemer/event"
	"go.minekube.com/gate/pkg/edition/java/config"
	"go.minekube.com/gate/pkg/internal/verifkit"
	"pgregory.net/rapid"
)

type c43Op struct {
	// Kind: "request" (id 0, empty body), "ping" (id 1, 8-byte body),
	// "unknown" (packet id not defined in the status state, arbitrary body),
	// "shortping" (id 1 with fewer than 8 body bytes),
	// "junkrequest" (id 0 followed by body bytes).
	Kind string `json:"kind"`
	// ID is the packet id for kind "unknown" (>= 2).
	ID int32 `json:"id,omitempty"`
	// Body is the packet body (ping payload, junk).
	Body []byte `json:"body,omitempty"`
}

type c43Case struct {
	Protocol int32   `json:"protocol"`
	Host     string  `json:"host"`
	Port     uint16  `json:"port"`
	Joins    int     `json:"joins"`  // players logged in before the status connection
	Leaves   int     `json:"leaves"` // of those, players that disconnected again before the request
	// LateJoins / LateLeaves: players that log in / leave AFTER the status
	// connection's handshake was processed and before its first status frame is
	// sent: the count in the response is the count when the request is served.
	LateJoins  int `json:"late_joins,omitempty"`
	LateLeaves int `json:"late_leaves,omitempty"`
	Ops      []c43Op `json:"ops"`
	// ShowMax: status.showMaxPlayers + 1 (0 = leave the default of 1000). The
	// configured maximum is cosmetic: the online count is reported as it is, also
	// when it exceeds the maximum.
	ShowMax int `json:"show_max,omitempty"`
}

func c43OpFrame(op c43Op) []byte {
	var b []byte
	switch op.Kind {
	case "request":
		b = verifkit.RefVarInt(0)
	case "ping", "shortping":
		b = append(verifkit.RefVarInt(1), op.Body...)
	case "longping":
		// a ping frame that is not in canonical form: trailing bytes behind the
		// 8 byte id and/or a non-minimal packet id VarInt (0x81 0x00 == 1)
		b = append(c43LongPingID(op), op.Body...)
	case "junkrequest":
		b = append(verifkit.RefVarInt(0), op.Body...)
	case "unknown":
		b = append(verifkit.RefVarInt(op.ID), op.Body...)
	default:
		panic("c43: bad op kind " + op.Kind)
	}
	return verifkit.RefFrame(b, -1, 0)
}

// c43Expect is what the reference automaton expects the proxy to have written
// as a reaction to one client frame.
type c43Expect struct {
	what string // "response" | "echo" | "echo-or-nothing"
	echo []byte // expected payload (id + body) for echoes
}

const c43HolderProtocol int32 = 765 // 1.20.3: login waits for LoginAcknowledged, so a holder stays registered

func c43Run(c c43Case) verifkit.Result {
	return c43Guard("c43", func() verifkit.Result { return c43RunInner(c) })
}

func c43RunInner(c c43Case) (res verifkit.Result) {
	mgr := event.New()
	p := c43NewProxy(mgr, nil, func(cfg *config.Config) {
		cfg.OnlineMode = false
		if c.ShowMax > 0 {
			cfg.Status.ShowMaxPlayers = c.ShowMax - 1
		}
	})

	var all []*c43Client
	defer func() {
		for _, cl := range all {
			cl.Finish()
		}
		mgr.Wait()
		if res.V == nil {
			for _, cl := range all {
				if pv := cl.Panic(); pv != "" {
					res = verifkit.Fail("panic:HandleConn", "panic escaped HandleConn: %s", pv)
				}
			}
		}
	}()

	// ---- players that are online while the status request is served
	var holders []*c43Client
	for i := 0; i < c.Joins; i++ {
		h := c43Dial(p)
		all = append(all, h)
		holders = append(holders, h)
		name := fmt.Sprintf("Holder_%d", i)
		var id [16]byte
		id[15] = byte(i + 1)
		if err := h.Send(c43Handshake(c43HolderProtocol, "localhost", 25565, 2)); err != nil {
			return verifkit.Fail("harness:holder-login", "holder %d: handshake write failed: %v", i, err)
		}
		if err := h.Send(c43LoginStart(c43HolderProtocol, name, id)); err != nil {
			return verifkit.Fail("harness:holder-login", "holder %d: login start write failed: %v", i, err)
		}
		frames, _ := h.AwaitPlainFrames(1)
		if len(frames) < 1 || len(frames[0]) == 0 || frames[0][0] != 0x02 {
			return verifkit.Fail("harness:holder-login", "holder %d: expected LoginSuccess, got frames %x", i, frames)
		}
	}
	for i := 0; i < c.Leaves && i < len(holders); i++ {
		holders[i].Finish() // returns after HandleConn returned, i.e. after teardown
	}
	online := c.Joins - c.Leaves
	if online < 0 {
		online = 0
	}

	// ---- the status connection
	cl := c43Dial(p)
	all = append(all, cl)
	if err := cl.Send(c43Handshake(c.Protocol, c.Host, c.Port, 1)); err != nil {
		return verifkit.Fail("status:closed-on-handshake", "handshake(protocol=%d,next=status) write failed: %v", c.Protocol, err)
	}

	if c.LateJoins > 0 || c.LateLeaves > 0 {
		// The status handshake was written before these logins start; each login is a
		// full round trip, so the proxy has normally handled the handshake by the time
		// the first late player is registered. No verdict depends on that order: the
		// response must carry the count at the time the request is served either way.
		for i := 0; i < c.LateJoins; i++ {
			h := c43Dial(p)
			all = append(all, h)
			holders = append(holders, h)
			var id [16]byte
			id[14], id[15] = 1, byte(i+1)
			if err := h.Send(c43Handshake(c43HolderProtocol, "localhost", 25565, 2)); err != nil {
				return verifkit.Fail("harness:holder-login", "late holder %d: handshake write failed: %v", i, err)
			}
			if err := h.Send(c43LoginStart(c43HolderProtocol, fmt.Sprintf("Late_%d", i), id)); err != nil {
				return verifkit.Fail("harness:holder-login", "late holder %d: login start write failed: %v", i, err)
			}
			frames, _ := h.AwaitPlainFrames(1)
			if len(frames) < 1 || len(frames[0]) == 0 || frames[0][0] != 0x02 {
				return verifkit.Fail("harness:holder-login", "late holder %d: expected LoginSuccess, got frames %x", i, frames)
			}
			online++
		}
		for i := 0; i < c.LateLeaves; i++ {
			// leave one of the players that are still online (the last ones first)
			k := len(holders) - 1 - i
			if k < c.Leaves || k < 0 {
				break
			}
			holders[k].Finish()
			online--
		}
	}

	supported := c43IsSupported(c.Protocol)
	wantProto := c.Protocol
	if !supported {
		wantProto = c43Newest
	}

	var labels []string
	switch {
	case supported:
		labels = append(labels, "proto-supported")
	case c.Protocol == -1:
		labels = append(labels, "proto-minus-one")
	case c.Protocol < 0:
		labels = append(labels, "proto-negative")
	case c.Protocol > c43Newest:
		labels = append(labels, "proto-above-newest")
	default:
		labels = append(labels, "proto-gap")
	}

	// reference automaton
	closed := false    // the proxy must have closed the connection
	requested := false // a request has been answered
	var expects []c43Expect
	deviates := false
	sawRequestThenPing := false

	for i, op := range c.Ops {
		err := cl.Send(c43OpFrame(op))
		if closed {
			if err == nil {
				return verifkit.Fail("status:not-closed", "frame %d (%s) was consumed although the connection must have been closed after frame %d (%s)",
					i, op.Kind, i-1, c.Ops[i-1].Kind)
			}
			labels = append(labels, "sent-after-close")
			break // nothing further can be sent
		}
		if err != nil {
			prev := "handshake"
			if i > 0 {
				prev = c.Ops[i-1].Kind
			}
			return verifkit.Fail("status:closed-early", "frame %d (%s) could not be written (%v): the proxy closed the connection after %s although it had to stay open",
				i, op.Kind, err, prev)
		}
		switch op.Kind {
		case "request":
			if !requested {
				requested = true
				expects = append(expects, c43Expect{what: "response"})
			} else {
				closed = true
				deviates = true
				labels = append(labels, "repeated-request")
			}
		case "ping":
			payload := append(verifkit.RefVarInt(1), op.Body...)
			if requested {
				expects = append(expects, c43Expect{what: "echo", echo: payload})
				sawRequestThenPing = true
			} else {
				// a ping that does not follow a request is "any other request":
				// the connection closes; vanilla and the proxy also echo it, which
				// the property does not forbid.
				expects = append(expects, c43Expect{what: "echo-or-nothing", echo: payload})
				deviates = true
				labels = append(labels, "ping-without-request")
			}
			closed = true
		case "shortping":
			payload := append(verifkit.RefVarInt(1), op.Body...)
			expects = append(expects, c43Expect{what: "echo-or-nothing", echo: payload})
			closed = true
			deviates = true
			labels = append(labels, "short-ping")
		case "longping":
			// Whether a non-canonical ping counts as "the ping" is not stated; if
			// the proxy answers it at all, the answer must be the byte-identical
			// payload (an echo, not a re-encoding), and the connection closes.
			payload := append(c43LongPingID(op), op.Body...)
			expects = append(expects, c43Expect{what: "echo-or-nothing", echo: payload})
			closed = true
			deviates = true
			labels = append(labels, "non-canonical-ping")
		case "unknown":
			closed = true
			deviates = true
			labels = append(labels, "unknown-packet")
		case "junkrequest":
			deviates = true
			labels = append(labels, "junk-request")
			// Not a well-formed request. Either outcome the text allows is
			// accepted: closed (as "any other request"), or treated exactly like
			// a request. Which one happened is observable without timing: the
			// next write fails iff the proxy closed.
			probeErr := cl.Send(verifkit.RefFrame(verifkit.RefVarInt(0x7e), -1, 0))
			if probeErr != nil {
				closed = true
			} else {
				if requested {
					return verifkit.Fail("status:not-closed", "frame %d: repeated (malformed) request was not answered by closing the connection", i)
				}
				requested = true
				expects = append(expects, c43Expect{what: "response"})
				closed = true // because of the probe (an unknown packet id)
			}
		}
	}

	// final probe: decides whether the last scripted frame closed the connection
	probeErr := cl.Send(verifkit.RefFrame(verifkit.RefVarInt(0x7f), -1, 0))
	if closed && probeErr == nil {
		last := "handshake"
		if len(c.Ops) > 0 {
			last = c.Ops[len(c.Ops)-1].Kind
		}
		return verifkit.Fail("status:not-closed", "probe frame was consumed although the connection must have been closed after %s", last)
	}
	if !closed && probeErr != nil {
		last := "handshake"
		if len(c.Ops) > 0 {
			last = c.Ops[len(c.Ops)-1].Kind
		}
		return verifkit.Fail("status:closed-early", "the proxy closed the connection after %s although it had to stay open (%v)", last, probeErr)
	}
	if !closed {
		labels = append(labels, "open-at-end")
	}

	stream := cl.Finish()
	if st := cl.Wedged(); st != "" {
		return verifkit.Fail("status:connection-wedged", "status connection (protocol %d, ops %+v): the client closed the connection but HandleConn never returned; its goroutine sits on a mutex that nothing releases (neither a response nor a close is possible any more):\n%s", c.Protocol, c.Ops, st)
	}
	if pv := cl.Panic(); pv != "" {
		return verifkit.Fail("panic:HandleConn", "panic escaped HandleConn: %s", pv)
	}
	frames, trailing := c43SplitFrames(stream, -1)
	if trailing != nil {
		return verifkit.Fail("status:malformed-stream", "proxy output is not a sequence of well-formed frames: %v (stream %x)", trailing, stream)
	}

	// match frames against expectations, in order. A wrong advertised protocol
	// for an unsupported client protocol is reported only if nothing else is
	// wrong with the history, so that the rest of the oracle keeps being
	// evaluated for unsupported protocol numbers.
	var deferred *verifkit.Violation
	responseChecked := false
	fi := 0
	for _, e := range expects {
		switch e.what {
		case "response":
			if fi >= len(frames) {
				return verifkit.Fail("status:no-response", "status request got no response (frames: %d)", len(frames))
			}
			if c.ShowMax > 0 && online > c.ShowMax-1 {
				labels = append(labels, "more-players-online-than-showMaxPlayers")
			}
			if v := c43CheckResponse(frames[fi], wantProto, online, supported, c.Protocol); v != nil {
				if v.Key != "status:advertised-protocol-unsupported" {
					return verifkit.Result{V: v}
				}
				deferred = v
			}
			responseChecked = true
			fi++
		case "echo":
			if fi >= len(frames) {
				return verifkit.Fail("status:no-echo", "ping after request got no answer")
			}
			if !bytes.Equal(frames[fi], e.echo) {
				return verifkit.Fail("status:echo-mismatch", "ping answer %x is not byte-identical to the ping %x", frames[fi], e.echo)
			}
			fi++
		case "echo-or-nothing":
			if fi < len(frames) {
				if !bytes.Equal(frames[fi], e.echo) {
					return verifkit.Fail("status:echo-mismatch", "answer %x to an out-of-order/short ping is neither nothing nor byte-identical to %x", frames[fi], e.echo)
				}
				labels = append(labels, "lenient-echo")
				fi++
			}
		}
	}
	if fi < len(frames) {
		r := verifkit.NewRefReader(frames[fi])
		id, _ := r.VarInt()
		key := "status:unexpected-frame"
		if id == 0 {
			key = "status:extra-response"
		}
		return verifkit.Fail(key, "proxy wrote %d frame(s) beyond the %d the property allows; first extra frame id=%d %.200x", len(frames)-fi, fi, id, frames[fi])
	}

	if responseChecked {
		labels = append(labels, "response-checked")
	}
	if deferred != nil {
		// everything else about this history was judged and is fine
		return verifkit.Result{V: deferred, NonTrivial: true, Labels: append(labels, "deferred-advertised-protocol", fmt.Sprintf("online-%d", online))}
	}
	if sawRequestThenPing && len(c.Ops) == 2 && !deviates {
		labels = append(labels, "happy-path")
	}
	if len(c.Ops) == 0 {
		labels = append(labels, "no-ops")
	}
	labels = append(labels, fmt.Sprintf("online-%d", online))
	return verifkit.Result{NonTrivial: (!supported && responseChecked) || deviates, Labels: labels}
}

// c43CheckResponse checks one status response frame (payload = id + body).
func c43CheckResponse(payload []byte, wantProto int32, online int, supported bool, clientProto int32) *verifkit.Violation {
	r := verifkit.NewRefReader(payload)
	id, err := r.VarInt()
	if err != nil || id != 0 {
		return verifkit.Violationf("status:unexpected-frame", "expected a status response (id 0), got frame %.200x", payload)
	}
	js, err := r.String()
	if err != nil {
		return verifkit.Violationf("status:malformed-response", "status response body is not a string: %v", err)
	}
	if r.Remaining() != 0 {
		return verifkit.Violationf("status:malformed-response", "status response has %d trailing bytes", r.Remaining())
	}
	var doc struct {
		Version *struct {
			Name     *string      `json:"name"`
			Protocol *json.Number `json:"protocol"`
		} `json:"version"`
		Players *struct {
			Online *json.Number `json:"online"`
			Max    *json.Number `json:"max"`
		} `json:"players"`
		Description json.RawMessage `json:"description"`
	}
	dec := json.NewDecoder(bytes.NewReader([]byte(js)))
	dec.UseNumber()
	if err := dec.Decode(&doc); err != nil {
		return verifkit.Violationf("status:malformed-response", "status JSON does not parse: %v: %.300s", err, js)
	}
	if dec.More() {
		return verifkit.Violationf("status:malformed-response", "status JSON has trailing data: %.300s", js)
	}
	if doc.Version == nil || doc.Version.Protocol == nil || doc.Version.Name == nil {
		return verifkit.Violationf("status:malformed-response", "status JSON lacks version.name/version.protocol: %.300s", js)
	}
	if doc.Players == nil || doc.Players.Online == nil || doc.Players.Max == nil {
		return verifkit.Violationf("status:malformed-response", "status JSON lacks players.online/players.max: %.300s", js)
	}
	if len(doc.Description) == 0 {
		return verifkit.Violationf("status:malformed-response", "status JSON lacks description: %.300s", js)
	}
	gotProto, err := doc.Version.Protocol.Int64()
	if err != nil {
		return verifkit.Violationf("status:malformed-response", "version.protocol is not an integer: %s", doc.Version.Protocol.String())
	}
	gotOnline, err := doc.Players.Online.Int64()
	if err != nil {
		return verifkit.Violationf("status:malformed-response", "players.online is not an integer: %s", doc.Players.Online.String())
	}
	if gotOnline != int64(online) {
		return verifkit.Violationf("status:player-count", "players.online = %d but %d players are online", gotOnline, online)
	}
	if gotProto != int64(wantProto) {
		if supported {
			return verifkit.Violationf("status:advertised-protocol-supported", "client protocol %d is supported but the response advertises %d", clientProto, gotProto)
		}
		return verifkit.Violationf("status:advertised-protocol-unsupported", "client protocol %d is not supported; the response must advertise the newest protocol %d but advertises %d", clientProto, wantProto, gotProto)
	}
	return nil
}

func c43GenProtocol(t *rapid.T) int32 {
	return rapid.OneOf(
		rapid.SampledFrom(c43Supported),
		rapid.SampledFrom(c43Supported),
		// gaps between supported numbers, zero, just above newest, far above
		rapid.SampledFrom([]int32{0, 1, 2, 3, 6, 46, 48, 106, 109, 339, 341, 392, 500, 734, 752, c43Newest + 1, c43Newest + 2, 1000, 0x40000001, 0x400000F0, math.MaxInt32}),
		rapid.Int32Range(0, 900),
		rapid.SampledFrom([]int32{-1}),
		rapid.SampledFrom([]int32{-2, -3, -4, -47, -776, math.MinInt32, math.MinInt32 + 1}),
		rapid.Int32Range(-1000, -1),
	).Draw(t, "protocol")
}

func c43GenPingBody(t *rapid.T) []byte {
	return rapid.OneOf(
		rapid.SliceOfN(rapid.Byte(), 8, 8),
		rapid.SampledFrom([][]byte{
			{0, 0, 0, 0, 0, 0, 0, 0},
			{0xff, 0xff, 0xff, 0xff, 0xff, 0xff, 0xff, 0xff},
			{0x80, 0, 0, 0, 0, 0, 0, 0},
			{0x7f, 0xff, 0xff, 0xff, 0xff, 0xff, 0xff, 0xff},
			{0, 0, 0, 0, 0, 0, 0, 1},
		}),
	).Draw(t, "pingBody")
}

// c43LongPingID is the packet id VarInt of a "longping": op.ID != 0 selects the
// non-minimal two-byte encoding of 1.
func c43LongPingID(op c43Op) []byte {
	if op.ID != 0 {
		return []byte{0x81, 0x00}
	}
	return verifkit.RefVarInt(1)
}

func c43GenOp(t *rapid.T) c43Op {
	kind := rapid.SampledFrom([]string{"request", "request", "request", "ping", "ping", "ping", "unknown", "shortping", "junkrequest", "longping"}).Draw(t, "kind")
	switch kind {
	case "longping":
		op := c43Op{Kind: kind, Body: c43GenPingBody(t)}
		switch rapid.IntRange(0, 2).Draw(t, "noncanonical") {
		case 0:
			op.Body = append(op.Body, rapid.SliceOfN(rapid.Byte(), 1, 8).Draw(t, "trailing")...)
		case 1:
			op.ID = 1
		default:
			op.ID = 1
			op.Body = append(op.Body, rapid.SliceOfN(rapid.Byte(), 1, 8).Draw(t, "trailing")...)
		}
		return op
	case "request":
		return c43Op{Kind: kind}
	case "ping":
		return c43Op{Kind: kind, Body: c43GenPingBody(t)}
	case "shortping":
		return c43Op{Kind: kind, Body: rapid.SliceOfN(rapid.Byte(), 0, 7).Draw(t, "body")}
	case "junkrequest":
		return c43Op{Kind: kind, Body: rapid.SliceOfN(rapid.Byte(), 1, 12).Draw(t, "body")}
	default:
		id := rapid.OneOf(rapid.Int32Range(2, 0x7d), rapid.SampledFrom([]int32{2, 3, 0x80, 0xfe, 0x3fff, math.MaxInt32, -1})).Draw(t, "id")
		return c43Op{Kind: "unknown", ID: id, Body: rapid.SliceOfN(rapid.Byte(), 0, 12).Draw(t, "body")}
	}
}

func c43Gen(t *rapid.T) c43Case {
	c := c43Case{
		Protocol: c43GenProtocol(t),
		Host:     rapid.SampledFrom([]string{"localhost", "mc.example.com", "127.0.0.1", "", "play.example.org."}).Draw(t, "host"),
		Port:     rapid.SampledFrom([]uint16{25565, 0, 1, 65535, 25577}).Draw(t, "port"),
	}
	c.Joins = rapid.SampledFrom([]int{0, 1, 2, 3, 5}).Draw(t, "joins")
	c.ShowMax = rapid.SampledFrom([]int{0, 0, 1, 2, 3, 5, 101}).Draw(t, "showMax")
	c.Leaves = rapid.IntRange(0, c.Joins).Draw(t, "leaves")
	if rapid.IntRange(0, 3).Draw(t, "late") == 0 {
		c.LateJoins = rapid.IntRange(0, 2).Draw(t, "lateJoins")
		c.LateLeaves = rapid.IntRange(0, c.Joins-c.Leaves+c.LateJoins).Draw(t, "lateLeaves")
	}
	shape := rapid.IntRange(0, 9).Draw(t, "shape")
	switch {
	case shape <= 2: // request -> ping, optionally followed by anything
		c.Ops = []c43Op{{Kind: "request"}, {Kind: "ping", Body: c43GenPingBody(t)}}
		if rapid.Bool().Draw(t, "tail") {
			c.Ops = append(c.Ops, c43GenOp(t))
		}
	case shape == 3: // request only, or request twice
		c.Ops = []c43Op{{Kind: "request"}}
		if rapid.Bool().Draw(t, "twice") {
			c.Ops = append(c.Ops, c43Op{Kind: "request"}, c43GenOp(t))
		}
	default:
		n := rapid.SampledFrom([]int{0, 1, 1, 2, 2, 3, 3, 4}).Draw(t, "n")
		for i := 0; i < n; i++ {
			c.Ops = append(c.Ops, c43GenOp(t))
		}
	}
	return c
}

func TestVerif_C43(t *testing.T) {
	verifkit.Check(t, "C43", "status",
		"handshake(next=status) with protocol in {every supported, gaps, above newest, -1, other negatives}; 0-5 players logged in end-to-end (some leaving again) before the request; status-phase frame sequences over {request, ping(8 B), unknown id, short ping, request with junk body} incl. repeats and reorderings; reference automaton from the property text; non-trivial = (unsupported protocol and a response was judged) or a sequence deviating from request->ping",
		c43Gen, c43Run)
}
