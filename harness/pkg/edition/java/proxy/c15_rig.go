//go:build verif

package proxy

// In-process end-to-end rig shared by C15 (relay) and C16 (server switching).
//
// A real *Proxy (proxy.New, offline mode, forwarding none) serves exactly one
// scripted fake client through Proxy.HandleConn. Backends are ServerInfo values
// that implement ServerDialer and hand the proxy one end of a net.Pipe whose
// peer is a scripted fake backend. Fake client and fake backends frame with the
// independent reference framing of verifkit (RefFrame/RefReadFrame); the
// proxy's packet encoders are only used for set-up packets the properties are
// not about (Handshake, ServerLogin, LoginSuccess, JoinGame, ...).
//
// All waiting is event driven: every state change of the harness happens under
// rig.mu and broadcasts rig.cond. Time is only used as a watchdog.

import (
	"bytes"
	"context"
	"errors"
	"fmt"
	"io"
	"net"
	"os"
	"runtime"
	"sort"
	"strings"
	"sync"
	"time"

	"github.com/go-logr/logr"
	"github.com/robinbraemer/event"

	"go.minekube.com/gate/pkg/edition/java/auth"
	"go.minekube.com/gate/pkg/edition/java/config"
	"go.minekube.com/gate/pkg/edition/java/proto/packet"
	cfgpacket "go.minekube.com/gate/pkg/edition/java/proto/packet/config"
	"go.minekube.com/gate/pkg/edition/java/proto/state"
	"go.minekube.com/gate/pkg/edition/java/proto/util"
	"go.minekube.com/gate/pkg/edition/java/proto/version"
	"go.minekube.com/gate/pkg/gate/proto"
	"go.minekube.com/gate/pkg/internal/verifkit"
	"go.minekube.com/gate/pkg/util/configutil"
	"go.minekube.com/gate/pkg/util/uuid"
)

const (
	c15Watchdog   = 20 * time.Second
	c15MaxInflate = 8 << 20 // vanilla cap on the uncompressed size of a frame
	c15MaxFrame   = 1<<21 - 1
)

// ---------------------------------------------------------------- packet helpers (set-up packets only)

// c15Enc encodes a set-up packet with the proxy's own encoder into a payload
// (packet id + data) for the given direction/state/protocol.
func c15Enc(p proto.Packet, dir proto.Direction, st *state.Registry, protocol proto.Protocol) []byte {
	reg := state.FromDirection(dir, st, protocol)
	id, ok := reg.PacketID(p)
	if !ok {
		panic(fmt.Sprintf("c15: %T not registered for %s %s %s", p, dir, st, protocol))
	}
	buf := new(bytes.Buffer)
	_ = util.WriteVarInt(buf, int(id))
	ctx := &proto.PacketContext{Direction: dir, Protocol: protocol, PacketID: id, Packet: p}
	if err := p.Encode(ctx, buf); err != nil {
		panic(fmt.Sprintf("c15: encode %T: %v", p, err))
	}
	return buf.Bytes()
}

// c15ID returns the packet id of a packet type, or -1 when it is not registered.
func c15ID(p proto.Packet, dir proto.Direction, st *state.Registry, protocol proto.Protocol) int {
	id, ok := state.FromDirection(dir, st, protocol).PacketID(p)
	if !ok {
		return -1
	}
	return int(id)
}

// c15Dec decodes a set-up payload with the proxy's decoder into dst.
func c15Dec(payload []byte, dst proto.Packet, dir proto.Direction, protocol proto.Protocol) error {
	rd := bytes.NewReader(payload)
	id, err := util.ReadVarInt(rd)
	if err != nil {
		return err
	}
	ctx := &proto.PacketContext{Direction: dir, Protocol: protocol, PacketID: proto.PacketID(id), Payload: payload}
	return dst.Decode(ctx, rd)
}

// c15Split splits a payload into packet id and data with the reference reader.
func c15Split(p []byte) (int, []byte) {
	r := verifkit.NewRefReader(p)
	id, err := r.VarInt()
	if err != nil {
		return -1, nil
	}
	return int(id), r.Rest()
}

// c15IDs holds the ids of the set-up packets of one protocol version.
type c15IDs struct {
	cbLoginSetCompression, cbLoginSuccess, cbLoginDisconnect int
	sbLoginAck                                               int
	cbCfgKeepAlive, cbCfgFinished, cbCfgDisconnect           int
	sbCfgKeepAlive, sbCfgFinished                            int
	cbPlayKeepAlive, cbPlayJoin, cbPlayRespawn               int
	cbPlayDisconnect, cbPlayStartUpdate                      int
	sbPlayKeepAlive, sbPlayAckConfig                         int
}

func c15MakeIDs(pr proto.Protocol) c15IDs {
	cb, sb := proto.ClientBound, proto.ServerBound
	return c15IDs{
		cbLoginSetCompression: c15ID(&packet.SetCompression{}, cb, state.Login, pr),
		cbLoginSuccess:        c15ID(&packet.ServerLoginSuccess{}, cb, state.Login, pr),
		cbLoginDisconnect:     c15ID(&packet.Disconnect{}, cb, state.Login, pr),
		sbLoginAck:            c15ID(&packet.LoginAcknowledged{}, sb, state.Login, pr),
		cbCfgKeepAlive:        c15ID(&packet.KeepAlive{}, cb, state.Config, pr),
		cbCfgFinished:         c15ID(&cfgpacket.FinishedUpdate{}, cb, state.Config, pr),
		cbCfgDisconnect:       c15ID(&packet.Disconnect{}, cb, state.Config, pr),
		sbCfgKeepAlive:        c15ID(&packet.KeepAlive{}, sb, state.Config, pr),
		sbCfgFinished:         c15ID(&cfgpacket.FinishedUpdate{}, sb, state.Config, pr),
		cbPlayKeepAlive:       c15ID(&packet.KeepAlive{}, cb, state.Play, pr),
		cbPlayJoin:            c15ID(&packet.JoinGame{}, cb, state.Play, pr),
		cbPlayRespawn:         c15ID(&packet.Respawn{}, cb, state.Play, pr),
		cbPlayDisconnect:      c15ID(&packet.Disconnect{}, cb, state.Play, pr),
		cbPlayStartUpdate:     c15ID(&cfgpacket.StartUpdate{}, cb, state.Play, pr),
		sbPlayKeepAlive:       c15ID(&packet.KeepAlive{}, sb, state.Play, pr),
		sbPlayAckConfig:       c15ID(&cfgpacket.FinishedUpdate{}, sb, state.Play, pr),
	}
}

// c15JoinGame builds a JoinGame valid for the protocol.
func c15JoinGame(pr proto.Protocol, entityID int) *packet.JoinGame {
	overworld := "minecraft:overworld"
	levelType := "default"
	j := &packet.JoinGame{
		EntityID:           entityID,
		Gamemode:           0,
		Dimension:          0,
		Difficulty:         1,
		MaxPlayers:         20,
		LevelType:          &levelType,
		ViewDistance:       8,
		SimulationDistance: 8,
		LevelNames:         []string{overworld},
		DimensionInfo:      &packet.DimensionInfo{RegistryIdentifier: overworld, LevelName: &overworld},
		PreviousGamemode:   -1,
	}
	if pr.GreaterEqual(version.Minecraft_1_16) && pr.Lower(version.Minecraft_1_20_2) {
		empty := util.CompoundBinaryTag{Type: 10, Data: []byte{0}}
		j.Registry = empty
		j.CurrentDimensionData = empty
	}
	return j
}

// ---------------------------------------------------------------- proxy-side conn wrapper

// c15Conn is the end of a pipe handed to the proxy. It reports TCP-like
// addresses and accounts, under rig.mu, the bytes the proxy read and wrote and
// whether the proxy is currently blocked in Read (which, through bufio, only
// happens once everything delivered before has been decoded and handled).
type c15Conn struct {
	net.Conn
	rig           *c15Rig
	local, remote net.Addr
	// guarded by rig.mu
	inRead    bool
	delivered int64
	written   int64
	closed    bool
}

func (c *c15Conn) Read(p []byte) (int, error) {
	c.rig.mu.Lock()
	c.inRead = true
	c.rig.cond.Broadcast()
	c.rig.mu.Unlock()
	n, err := c.Conn.Read(p)
	c.rig.mu.Lock()
	c.inRead = false
	c.delivered += int64(n)
	c.rig.cond.Broadcast()
	c.rig.mu.Unlock()
	return n, err
}

func (c *c15Conn) Write(p []byte) (int, error) {
	n, err := c.Conn.Write(p)
	c.rig.mu.Lock()
	c.written += int64(n)
	c.rig.cond.Broadcast()
	c.rig.mu.Unlock()
	return n, err
}

func (c *c15Conn) Close() error {
	c.rig.mu.Lock()
	c.closed = true
	c.rig.cond.Broadcast()
	c.rig.mu.Unlock()
	return c.Conn.Close()
}

func (c *c15Conn) LocalAddr() net.Addr  { return c.local }
func (c *c15Conn) RemoteAddr() net.Addr { return c.remote }

// ---------------------------------------------------------------- fake-side endpoint (reader + writer goroutine)

type c15Out struct {
	payload    []byte
	thrAfter   *int // switch the write threshold after this frame
	closeAfter bool // close the fake's end after this frame (payload may be nil)
}

// c15End is the fake's end of a pipe: a reader goroutine that parses frames
// with the reference reader and a writer goroutine fed from an unbounded queue,
// so a fake endpoint never stops draining what the proxy writes.
type c15End struct {
	rig  *c15Rig
	name string
	conn net.Conn
	peer *c15Conn
	cap  int
	// guarded by rig.mu
	rthr, wthr int
	level      int
	chunk      int  // write in chunks of this many bytes (0 = one Write per batch)
	coalesce   bool // put all queued frames into one Write
	out        []c15Out
	outBusy    bool
	sent       int64 // bytes fully written to the pipe
	got        int64 // bytes read from the pipe and completely processed
	frameErr   error // reference reader rejected what the proxy wrote
	rdDone     bool
	wrDone     bool
	stopWr     bool
	onPayload  func(p []byte) // reader goroutine, rig.mu NOT held
}

func (e *c15End) start() {
	e.rig.wg.Add(2)
	go e.readLoop()
	go e.writeLoop()
}

func (e *c15End) enqueue(o c15Out) {
	e.rig.mu.Lock()
	e.enqueueLocked(o)
	e.rig.mu.Unlock()
}

func (e *c15End) enqueueLocked(o c15Out) {
	if e.wrDone {
		return
	}
	e.out = append(e.out, o)
	e.rig.cond.Broadcast()
}

func (e *c15End) send(payload []byte) { e.enqueue(c15Out{payload: payload}) }

func (e *c15End) readLoop() {
	defer e.rig.wg.Done()
	var buf []byte
	var total int64
	tmp := make([]byte, 128<<10)
	for {
		for {
			e.rig.mu.Lock()
			thr := e.rthr
			e.rig.mu.Unlock()
			rr := verifkit.NewRefReader(buf)
			p, err := verifkit.RefReadFrame(rr, thr, e.cap)
			if err == io.EOF || errors.Is(err, verifkit.ErrRefShort) {
				break
			}
			if err != nil {
				e.rig.mu.Lock()
				e.frameErr = err
				e.rdDone = true
				e.rig.cond.Broadcast()
				e.rig.mu.Unlock()
				_ = e.conn.Close()
				return
			}
			buf = buf[rr.Pos:]
			if len(p) == 0 {
				continue
			}
			e.onPayload(append([]byte(nil), p...))
		}
		e.rig.mu.Lock()
		e.got = total - int64(len(buf))
		e.rig.cond.Broadcast()
		e.rig.mu.Unlock()
		if len(buf) == 0 {
			buf = nil
		}
		n, err := e.conn.Read(tmp)
		if n > 0 {
			buf = append(buf, tmp[:n]...)
			total += int64(n)
		}
		if err != nil {
			e.rig.mu.Lock()
			e.rdDone = true
			e.rig.cond.Broadcast()
			e.rig.mu.Unlock()
			return
		}
	}
}

func (e *c15End) writeLoop() {
	defer e.rig.wg.Done()
	r := e.rig
	for {
		r.mu.Lock()
		for len(e.out) == 0 && !e.stopWr {
			r.cond.Wait()
		}
		if len(e.out) == 0 {
			e.wrDone = true
			r.cond.Broadcast()
			r.mu.Unlock()
			return
		}
		n := 1
		if e.coalesce {
			n = len(e.out)
		}
		items := append([]c15Out(nil), e.out[:n]...)
		e.out = e.out[n:]
		e.outBusy = true
		thr, level, chunk := e.wthr, e.level, e.chunk
		r.mu.Unlock()

		var data []byte
		closeAfter := false
		thrChanged := false
		for _, it := range items {
			if it.payload != nil {
				fr := verifkit.RefFrame(it.payload, thr, level)
				if len(fr) > c15MaxFrame+3 {
					r.harnessErr("%s: harness built an illegal frame of %d bytes (payload %d, threshold %d, level %d)", e.name, len(fr), len(it.payload), thr, level)
				}
				data = append(data, fr...)
			}
			if it.thrAfter != nil {
				thr = *it.thrAfter
				thrChanged = true
			}
			if it.closeAfter {
				closeAfter = true
				break
			}
		}
		var werr error
		var wrote int
		if chunk <= 0 || len(data) > 64*chunk {
			wrote, werr = e.conn.Write(data)
		} else {
			for off := 0; off < len(data) && werr == nil; off += chunk {
				end := off + chunk
				if end > len(data) {
					end = len(data)
				}
				var m int
				m, werr = e.conn.Write(data[off:end])
				wrote += m
			}
		}
		if closeAfter {
			_ = e.conn.Close()
		}
		r.mu.Lock()
		e.sent += int64(wrote)
		if thrChanged {
			e.wthr = thr
		}
		e.outBusy = false
		if werr != nil || closeAfter {
			e.out = nil
			e.wrDone = true
			r.cond.Broadcast()
			r.mu.Unlock()
			return
		}
		r.cond.Broadcast()
		r.mu.Unlock()
	}
}

// quietLocked: nothing is queued, in flight or unprocessed on this pipe and the
// proxy is blocked reading from it.
func (e *c15End) quietLocked() bool {
	return len(e.out) == 0 && !e.outBusy && e.peer.inRead && e.peer.delivered == e.sent && e.got == e.peer.written
}

// ---------------------------------------------------------------- fake client

type c15Rx struct {
	ID      int
	Payload []byte
	Epoch   int // number of JoinGame packets seen before this payload
}

type c15Client struct {
	*c15End
	name string
	ids  c15IDs
	// reader goroutine only
	st int // 0 login, 1 config, 2 play
	// guarded by rig.mu
	loginSuccess     bool
	loginSuccessData []byte // body of the LoginSuccess packet (after the packet id)
	joins            int
	respawns         int
	startUpdates     int
	cfgFinished      int
	kicked           bool
	kickPayload      []byte
	play             []c15Rx
	cfgRx            []c15Rx
	loginRx          []c15Rx
}

func (c *c15Client) handle(p []byte) {
	r := c.rig
	id, data := c15Split(p)
	switch c.st {
	case 0:
		switch id {
		case c.ids.cbLoginSetCompression:
			rr := verifkit.NewRefReader(data)
			thr, _ := rr.VarInt()
			r.mu.Lock()
			c.rthr, c.wthr = int(thr), int(thr)
			r.mu.Unlock()
		case c.ids.cbLoginSuccess:
			r.mu.Lock()
			c.loginSuccess = true
			c.loginSuccessData = append([]byte(nil), data...)
			if r.cfgPhase {
				c.enqueueLocked(c15Out{payload: c15Enc(&packet.LoginAcknowledged{}, proto.ServerBound, state.Login, r.proto)})
				c.st = 1
			} else {
				c.st = 2
			}
			r.cond.Broadcast()
			r.mu.Unlock()
		case c.ids.cbLoginDisconnect:
			r.mu.Lock()
			c.kicked, c.kickPayload = true, p
			r.cond.Broadcast()
			r.mu.Unlock()
		default:
			r.mu.Lock()
			c.loginRx = append(c.loginRx, c15Rx{ID: id, Payload: p})
			r.mu.Unlock()
		}
	case 1:
		r.mu.Lock()
		switch id {
		case c.ids.cbCfgKeepAlive:
			c.enqueueLocked(c15Out{payload: append(verifkit.RefVarInt(int32(c.ids.sbCfgKeepAlive)), data...)})
		case c.ids.cbCfgFinished:
			c.enqueueLocked(c15Out{payload: c15Enc(&cfgpacket.FinishedUpdate{}, proto.ServerBound, state.Config, r.proto)})
			c.cfgFinished++
			c.st = 2
		case c.ids.cbCfgDisconnect:
			c.kicked, c.kickPayload = true, p
		default:
			c.cfgRx = append(c.cfgRx, c15Rx{ID: id, Payload: p, Epoch: c.joins})
		}
		r.cond.Broadcast()
		r.mu.Unlock()
	default:
		r.mu.Lock()
		switch id {
		case c.ids.cbPlayKeepAlive:
			c.enqueueLocked(c15Out{payload: append(verifkit.RefVarInt(int32(c.ids.sbPlayKeepAlive)), data...)})
			c.play = append(c.play, c15Rx{ID: id, Payload: p, Epoch: c.joins})
		case c.ids.cbPlayJoin:
			c.joins++
		case c.ids.cbPlayRespawn:
			c.respawns++
		case c.ids.cbPlayDisconnect:
			c.kicked, c.kickPayload = true, p
		case c.ids.cbPlayStartUpdate:
			if r.cfgPhase {
				c.startUpdates++
				c.enqueueLocked(c15Out{payload: c15Enc(&cfgpacket.FinishedUpdate{}, proto.ServerBound, state.Play, r.proto)})
				c.st = 1
			} else {
				c.play = append(c.play, c15Rx{ID: id, Payload: p, Epoch: c.joins})
			}
		default:
			c.play = append(c.play, c15Rx{ID: id, Payload: p, Epoch: c.joins})
		}
		r.cond.Broadcast()
		r.mu.Unlock()
	}
}

// ---------------------------------------------------------------- fake backends

// Stages of a backend session at which a script can hold or fail.
const (
	c15StDial    = "dial"
	c15StLogin   = "login"   // ServerLogin received, nothing answered yet
	c15StConfig  = "config"  // config-phase versions: LoginAcknowledged received
	c15StPreJoin = "prejoin" // LoginSuccess sent (legacy) / configuration finished, JoinGame not yet sent
	c15StPlay    = "play"    // JoinGame sent
)

// c15Script scripts one connection to a fake backend.
type c15Script struct {
	Thr     int    `json:"thr"`      // compression threshold the backend announces; <0: none
	Refuse  bool   `json:"refuse"`   // Dial fails
	HoldAt  string `json:"hold_at"`  // stage at which the session (or the dial) waits for release
	FaultAt string `json:"fault_at"` // stage at which the backend fails
	Fault   string `json:"fault"`    // "kick" (Disconnect packet, then close) or "close" (abrupt close)
	NoSync  bool   `json:"no_sync"`  // skip the keep-alive round trip before JoinGame (config-phase versions)
}

const (
	c15PhNew = iota
	c15PhHandshake
	c15PhLogin
	c15PhConfig
	c15PhPreJoin
	c15PhJoined
)

type c15Session struct {
	*c15End
	b      *c15Backend
	idx    int // index of this connection on its backend
	seq    int // global dial sequence number
	reqID  string
	script c15Script
	// guarded by rig.mu
	inbox      [][]byte
	pos        int
	phase      int
	holding    string
	released   map[string]bool
	scriptDone bool
	joinSent   bool
	handshake  packet.Handshake
	loginName  string
	waiting    bool    // the script is blocked waiting for the next payload (everything received was processed)
	playRx     []c15Rx // payloads received after JoinGame was sent
	preRx      []c15Rx // payloads received before (set-up packets not consumed by the script)
}

type c15Dial struct {
	Seq     int
	Backend string
	Idx     int
	ReqID   string
	Refused bool
	Sess    *c15Session
}

type c15Backend struct {
	rig     *c15Rig
	name    string
	addr    net.Addr
	scripts []c15Script // per connection; the last one repeats
	// guarded by rig.mu
	overrides []*c15Script // one-shot scripts for the next connections (FIFO)
	dials     int
	sessions  []*c15Session
	dialHold  map[int]chan struct{}
}

func (b *c15Backend) Name() string   { return b.name }
func (b *c15Backend) Addr() net.Addr { return b.addr }
func (b *c15Backend) String() string { return b.name }

type c15ReqKey struct{}

func (b *c15Backend) scriptFor(i int) c15Script {
	if len(b.overrides) > 0 {
		sc := *b.overrides[0]
		b.overrides = b.overrides[1:]
		return sc
	}
	if len(b.scripts) == 0 {
		return c15Script{Thr: -1}
	}
	if i >= len(b.scripts) {
		i = len(b.scripts) - 1
	}
	return b.scripts[i]
}

// Dial implements ServerDialer.
func (b *c15Backend) Dial(ctx context.Context, _ Player) (net.Conn, error) {
	r := b.rig
	reqID, _ := ctx.Value(c15ReqKey{}).(string)
	r.mu.Lock()
	idx := b.dials
	b.dials++
	sc := b.scriptFor(idx)
	d := &c15Dial{Seq: len(r.dials), Backend: b.name, Idx: idx, ReqID: reqID, Refused: sc.Refuse}
	r.dials = append(r.dials, d)
	if r.onDial != nil {
		r.onDial(d)
	}
	var hold chan struct{}
	if sc.HoldAt == c15StDial {
		hold = make(chan struct{})
		b.dialHold[idx] = hold
		r.dialHolding[d.Seq] = true
	}
	r.cond.Broadcast()
	r.mu.Unlock()

	if hold != nil {
		select {
		case <-hold:
		case <-ctx.Done():
		case <-r.closingCh:
		}
		r.mu.Lock()
		delete(r.dialHolding, d.Seq)
		r.cond.Broadcast()
		r.mu.Unlock()
		if err := ctx.Err(); err != nil {
			return nil, err
		}
	}
	if sc.Refuse || (sc.FaultAt == c15StDial) {
		return nil, fmt.Errorf("dial %s: connection refused (scripted)", b.name)
	}
	r.mu.Lock()
	if r.closing {
		r.mu.Unlock()
		return nil, errors.New("rig closing")
	}
	a, f := net.Pipe()
	port := r.nextPort
	r.nextPort++
	pc := &c15Conn{Conn: a, rig: r,
		local:  &net.TCPAddr{IP: net.IPv4(127, 0, 0, 1), Port: port},
		remote: b.addr}
	s := &c15Session{
		c15End: &c15End{rig: r, name: fmt.Sprintf("%s#%d", b.name, idx), conn: f, peer: pc, cap: c15MaxInflate,
			rthr: -1, wthr: -1, level: r.opts.BackendLevel, chunk: r.opts.BackendChunk, coalesce: r.opts.BackendCoalesce},
		b: b, idx: idx, seq: d.Seq, reqID: reqID, script: sc, released: map[string]bool{},
	}
	s.onPayload = s.deliver
	b.sessions = append(b.sessions, s)
	d.Sess = s
	r.cond.Broadcast()
	r.mu.Unlock()
	s.start()
	r.wg.Add(1)
	go s.run()
	return pc, nil
}

func (s *c15Session) deliver(p []byte) {
	s.rig.mu.Lock()
	s.inbox = append(s.inbox, p)
	s.rig.cond.Broadcast()
	s.rig.mu.Unlock()
}

// next blocks until the next received payload; nil when the connection ended
// or the rig is closing.
func (s *c15Session) next() []byte {
	r := s.rig
	r.mu.Lock()
	defer r.mu.Unlock()
	for s.pos >= len(s.inbox) {
		if s.rdDone || r.closing {
			return nil
		}
		if !s.waiting {
			s.waiting = true
			r.cond.Broadcast()
		}
		r.cond.Wait()
	}
	s.waiting = false
	p := s.inbox[s.pos]
	s.inbox[s.pos] = nil
	s.pos++
	return p
}

func (s *c15Session) setPhase(ph int) {
	s.rig.mu.Lock()
	s.phase = ph
	s.rig.cond.Broadcast()
	s.rig.mu.Unlock()
}

// stage applies the script at a stage; false: the script ends here.
func (s *c15Session) stage(name string, st *state.Registry) bool {
	r := s.rig
	if s.script.HoldAt == name {
		r.mu.Lock()
		s.holding = name
		r.cond.Broadcast()
		for !s.released[name] && !s.rdDone && !r.closing {
			r.cond.Wait()
		}
		s.holding = ""
		dead := s.rdDone || r.closing
		r.cond.Broadcast()
		r.mu.Unlock()
		if dead {
			return false
		}
	}
	if s.script.FaultAt == name {
		s.fail(s.script.Fault, st)
		return false
	}
	return true
}

// fail makes the backend kick (Disconnect then close) or drop the connection.
func (s *c15Session) fail(kind string, st *state.Registry) {
	if kind == "kick" {
		dis := packet.NewDisconnect(nil, s.rig.proto, st.State)
		s.enqueue(c15Out{payload: c15Enc(dis, proto.ClientBound, st, s.rig.proto), closeAfter: true})
		return
	}
	s.enqueue(c15Out{closeAfter: true})
}

func (s *c15Session) run() {
	r := s.rig
	defer r.wg.Done()
	defer func() {
		r.mu.Lock()
		s.scriptDone = true
		r.cond.Broadcast()
		r.mu.Unlock()
	}()
	pr := r.proto
	ids := r.ids

	p := s.next()
	if p == nil {
		return
	}
	var hs packet.Handshake
	if err := c15Dec(p, &hs, proto.ServerBound, pr); err != nil {
		r.harnessErr("backend %s: bad handshake: %v", s.name, err)
		return
	}
	r.mu.Lock()
	s.handshake = hs
	s.phase = c15PhHandshake
	r.cond.Broadcast()
	r.mu.Unlock()

	p = s.next()
	if p == nil {
		return
	}
	var login packet.ServerLogin
	if err := c15Dec(p, &login, proto.ServerBound, pr); err != nil {
		r.harnessErr("backend %s: bad ServerLogin: %v", s.name, err)
		return
	}
	r.mu.Lock()
	s.loginName = login.Username
	s.phase = c15PhLogin
	r.cond.Broadcast()
	r.mu.Unlock()

	if !s.stage(c15StLogin, state.Login) {
		s.drain()
		return
	}
	if thr := s.script.Thr; thr >= 0 {
		r.mu.Lock()
		s.rthr = thr
		r.mu.Unlock()
		s.enqueue(c15Out{payload: c15Enc(&packet.SetCompression{Threshold: thr}, proto.ClientBound, state.Login, pr), thrAfter: &thr})
	}
	s.send(c15Enc(&packet.ServerLoginSuccess{UUID: uuid.OfflinePlayerUUID(login.Username), Username: login.Username},
		proto.ClientBound, state.Login, pr))

	if r.cfgPhase {
		for {
			if p = s.next(); p == nil {
				return
			}
			if id, _ := c15Split(p); id == ids.sbLoginAck {
				break
			}
			s.pre(p)
		}
		s.setPhase(c15PhConfig)
		if !s.stage(c15StConfig, state.Config) {
			s.drain()
			return
		}
		s.send(c15Enc(&cfgpacket.FinishedUpdate{}, proto.ClientBound, state.Config, pr))
		for {
			if p = s.next(); p == nil {
				return
			}
			if id, _ := c15Split(p); id == ids.sbCfgFinished {
				break
			}
			s.pre(p)
		}
		s.setPhase(c15PhPreJoin)
		if !s.script.NoSync {
			// Keep-alive round trip: the reply is handled by the proxy's client
			// read loop, the goroutine that also installs the backend's
			// transition handler, so once it is back JoinGame cannot overtake
			// the handler switch.
			kaData := verifkit.RefU64(uint64(0x5eed000000000000) | uint64(s.seq)<<8 | 0x15)
			s.send(append(verifkit.RefVarInt(int32(ids.cbPlayKeepAlive)), kaData...))
			for {
				if p = s.next(); p == nil {
					return
				}
				id, data := c15Split(p)
				if (id == ids.sbPlayKeepAlive || id == ids.sbCfgKeepAlive) && bytes.Equal(data, kaData) {
					break
				}
				s.pre(p)
			}
		}
	} else {
		s.setPhase(c15PhPreJoin)
	}
	if !s.stage(c15StPreJoin, state.Play) {
		s.drain()
		return
	}
	r.mu.Lock()
	s.joinSent = true
	s.phase = c15PhJoined
	s.enqueueLocked(c15Out{payload: c15Enc(c15JoinGame(pr, 1000+s.seq), proto.ClientBound, state.Play, pr)})
	r.cond.Broadcast()
	r.mu.Unlock()
	if !s.stage(c15StPlay, state.Play) {
		s.drain()
		return
	}
	s.drain()
}

func (s *c15Session) pre(p []byte) {
	id, _ := c15Split(p)
	s.rig.mu.Lock()
	s.preRx = append(s.preRx, c15Rx{ID: id, Payload: p})
	s.rig.mu.Unlock()
}

// drain records everything else the proxy sends on this connection.
func (s *c15Session) drain() {
	for {
		p := s.next()
		if p == nil {
			return
		}
		id, _ := c15Split(p)
		s.rig.mu.Lock()
		if s.joinSent {
			s.playRx = append(s.playRx, c15Rx{ID: id, Payload: p})
		} else {
			s.preRx = append(s.preRx, c15Rx{ID: id, Payload: p})
		}
		s.rig.cond.Broadcast()
		s.rig.mu.Unlock()
	}
}

// openLocked: the proxy has not closed its end and the fake has not seen EOF.
func (s *c15Session) openLocked() bool { return !s.peer.closed && !s.rdDone }

// ---------------------------------------------------------------- event log

type c15Event struct {
	Kind     string // preconnect, connected, postconnect, kicked, disconnect, postlogin
	Server   string
	Previous string
}

// ---------------------------------------------------------------- rig

type c15BackendSpec struct {
	Name    string      `json:"name"`
	Scripts []c15Script `json:"scripts"`
}

type c15RigOpts struct {
	Protocol        int
	ClientThr       int // proxy config compression threshold (client side)
	ProxyLevel      int
	ClientLevel     int
	BackendLevel    int
	ClientChunk     int
	BackendChunk    int
	ClientCoalesce  bool
	BackendCoalesce bool
	Backends        []c15BackendSpec
	Try             []string
	Log             *logr.Logger
	PlayerName      string
	// ClientSecret (16 bytes): the client connection is encrypted (AES/CFB8) from
	// the first byte after the login start, as on an online-mode connection. The
	// rig enables it on the proxy side from a PreLogin handler, i.e. on the read
	// loop's goroutine between two packets, which is where the EncryptionResponse
	// handler does it in production.
	ClientSecret []byte
	// ProfileRewrite: a GameProfileRequestEvent subscriber replaces the profile's id
	// (what the Geyser integration does for Bedrock players)
	ProfileRewrite *[16]byte
}

// c15CipherConn is the fake client's end of an encrypted connection: the first
// plain bytes it writes (handshake + login start) pass unchanged, everything
// after them is AES/CFB8-encrypted; everything it reads is decrypted.
type c15CipherConn struct {
	net.Conn
	plain    int
	enc, dec *verifkit.RefCFB8
}

func (c *c15CipherConn) Read(p []byte) (int, error) {
	n, err := c.Conn.Read(p)
	if n > 0 {
		c.dec.XOR(p[:n], p[:n])
	}
	return n, err
}

func (c *c15CipherConn) Write(p []byte) (int, error) {
	out := append([]byte(nil), p...)
	k := 0
	if c.plain > 0 {
		k = c.plain
		if k > len(out) {
			k = len(out)
		}
		c.plain -= k
	}
	c.enc.XOR(out[k:], out[k:])
	return c.Conn.Write(out)
}

type c15Rig struct {
	mu        sync.Mutex
	cond      *sync.Cond
	wg        sync.WaitGroup
	opts      c15RigOpts
	proto     proto.Protocol
	cfgPhase  bool
	ids       c15IDs
	cfg       *config.Config
	proxy     *Proxy
	ev        event.Manager
	backends  map[string]*c15Backend
	client    *c15Client
	closingCh chan struct{}
	// guarded by mu
	closing     bool
	handleDone  bool
	nextPort    int
	dials       []*c15Dial
	dialHolding map[int]bool
	events      []c15Event
	harnessErrs []string
	onDial      func(d *c15Dial)               // called with mu held
	preConnect  func(e *ServerPreConnectEvent) // called WITHOUT mu held, on the requesting goroutine
	baseline    map[string]bool
	baselineN   int
	// backend connections the proxy had not closed 10 s after HandleConn returned (set by close)
	backendsLeftOpen []string
}

// c15DebugLeak (development aid): report goroutines left after a case as a failure with their stacks.
var c15DebugLeak = os.Getenv("C15_DEBUG_LEAK") != ""

var (
	c15AuthOnce sync.Once
	c15Auth     auth.Authenticator
)

func (r *c15Rig) harnessErr(format string, a ...any) {
	r.mu.Lock()
	r.harnessErrs = append(r.harnessErrs, fmt.Sprintf(format, a...))
	r.cond.Broadcast()
	r.mu.Unlock()
}

// wait blocks until pred (called with mu held) holds; false when the watchdog expired first.
func (r *c15Rig) wait(d time.Duration, pred func() bool) bool {
	r.mu.Lock()
	defer r.mu.Unlock()
	return r.waitLocked(d, pred)
}

func (r *c15Rig) waitLocked(d time.Duration, pred func() bool) bool {
	if pred() {
		return true
	}
	expired := false
	t := time.AfterFunc(d, func() {
		r.mu.Lock()
		expired = true
		r.cond.Broadcast()
		r.mu.Unlock()
	})
	defer t.Stop()
	for {
		if pred() {
			return true
		}
		if expired {
			return false
		}
		r.cond.Wait()
	}
}

func (r *c15Rig) logEvent(e c15Event) {
	r.mu.Lock()
	r.events = append(r.events, e)
	r.cond.Broadcast()
	r.mu.Unlock()
}

func c15ServerName(s RegisteredServer) string {
	if s == nil {
		return ""
	}
	if rs, ok := s.(*registeredServer); ok && rs == nil {
		return "" // typed nil (ServerPreConnectEvent.PreviousServer on the first connect)
	}
	return s.ServerInfo().Name()
}

func c15NewRig(o c15RigOpts) (*c15Rig, error) {
	c15AuthOnce.Do(func() {
		a, err := auth.New(auth.Options{})
		if err != nil {
			panic(err)
		}
		c15Auth = a
	})
	if o.PlayerName == "" {
		o.PlayerName = "VerifPlayer"
	}
	r := &c15Rig{opts: o, proto: proto.Protocol(o.Protocol), backends: map[string]*c15Backend{},
		closingCh: make(chan struct{}), nextPort: 41000, dialHolding: map[int]bool{}}
	r.cond = sync.NewCond(&r.mu)
	r.baselineN = runtime.NumGoroutine()
	if c15DebugLeak {
		r.baseline = c15Baseline()
	}
	r.cfgPhase = r.proto.GreaterEqual(version.Minecraft_1_20_2)
	r.ids = c15MakeIDs(r.proto)

	cfg := config.DefaultConfig
	cfg.Bind = "127.0.0.1:25565"
	cfg.OnlineMode = false
	cfg.Forwarding.Mode = config.NoneForwardingMode
	cfg.Quota.Connections.Enabled = false
	cfg.Quota.Logins.Enabled = false
	cfg.PacketLimiter.PacketsPerSecond = -1
	cfg.PacketLimiter.BytesPerSecond = -1
	cfg.Compression.Threshold = o.ClientThr
	cfg.Compression.Level = o.ProxyLevel
	// No verdict may depend on timing: timeouts far beyond any watchdog.
	cfg.ConnectionTimeout = configutil.Duration(30 * time.Minute)
	cfg.ReadTimeout = configutil.Duration(30 * time.Minute)
	cfg.Lite.Enabled = false
	cfg.Servers = map[string]string{}
	cfg.ForcedHosts = map[string][]string{}
	cfg.Try = append([]string(nil), o.Try...)
	for i, bs := range o.Backends {
		cfg.Servers[bs.Name] = fmt.Sprintf("127.0.0.1:%d", 30000+i)
	}
	if _, errs := cfg.Validate(); len(errs) != 0 {
		return nil, fmt.Errorf("rig config invalid: %v", errs)
	}
	r.cfg = &cfg
	r.ev = event.New()
	p, err := New(Options{Config: &cfg, EventMgr: r.ev, Authenticator: c15Auth})
	if err != nil {
		return nil, err
	}
	if o.Log != nil {
		p.log = *o.Log
	}
	r.proxy = p
	for i, bs := range o.Backends {
		b := &c15Backend{rig: r, name: bs.Name, scripts: bs.Scripts, dialHold: map[int]chan struct{}{},
			addr: &net.TCPAddr{IP: net.IPv4(127, 0, 0, 1), Port: 30000 + i}}
		r.backends[bs.Name] = b
		if _, err := p.Register(b); err != nil {
			return nil, err
		}
	}

	event.Subscribe(r.ev, 0, func(e *ServerPreConnectEvent) {
		r.logEvent(c15Event{Kind: "preconnect", Server: c15ServerName(e.OriginalServer()), Previous: c15ServerName(e.PreviousServer())})
		r.mu.Lock()
		h := r.preConnect
		r.mu.Unlock()
		if h != nil {
			h(e)
		}
	})
	event.Subscribe(r.ev, 0, func(e *ServerConnectedEvent) {
		r.logEvent(c15Event{Kind: "connected", Server: c15ServerName(e.Server()), Previous: c15ServerName(e.PreviousServer())})
	})
	event.Subscribe(r.ev, 0, func(e *ServerPostConnectEvent) {
		cur := ""
		if cs := e.Player().CurrentServer(); cs != nil {
			cur = c15ServerName(cs.Server())
		}
		r.logEvent(c15Event{Kind: "postconnect", Server: cur, Previous: c15ServerName(e.PreviousServer())})
	})
	event.Subscribe(r.ev, 0, func(e *KickedFromServerEvent) {
		r.logEvent(c15Event{Kind: "kicked", Server: c15ServerName(e.Server())})
	})
	event.Subscribe(r.ev, 0, func(e *DisconnectEvent) {
		r.logEvent(c15Event{Kind: "disconnect"})
	})
	event.Subscribe(r.ev, 0, func(e *PostLoginEvent) {
		r.logEvent(c15Event{Kind: "postlogin"})
	})
	if o.ProfileRewrite != nil {
		event.Subscribe(r.ev, 0, func(e *GameProfileRequestEvent) {
			gp := e.GameProfile()
			gp.ID = uuid.UUID(*o.ProfileRewrite)
			e.SetGameProfile(gp)
		})
	}
	if len(o.ClientSecret) == 16 {
		event.Subscribe(r.ev, 0, func(e *PreLoginEvent) {
			li, ok := e.Conn().(*loginInboundConn)
			if !ok {
				r.harnessErr("PreLoginEvent.Conn() is %T, cannot enable encryption", e.Conn())
				return
			}
			if err := li.delegate.MinecraftConn.EnableEncryption(o.ClientSecret); err != nil {
				r.harnessErr("EnableEncryption: %v", err)
			}
		})
	}
	return r, nil
}

// start connects the fake client and runs Proxy.HandleConn for it.
func (r *c15Rig) start() {
	a, f := net.Pipe()
	pc := &c15Conn{Conn: a, rig: r,
		local:  &net.TCPAddr{IP: net.IPv4(127, 0, 0, 1), Port: 25565},
		remote: &net.TCPAddr{IP: net.IPv4(127, 0, 0, 1), Port: 40001}}
	c := &c15Client{
		c15End: &c15End{rig: r, name: "client", conn: f, peer: pc, cap: c15MaxInflate, rthr: -1, wthr: -1,
			level: r.opts.ClientLevel, chunk: r.opts.ClientChunk, coalesce: r.opts.ClientCoalesce},
		name: r.opts.PlayerName, ids: r.ids,
	}
	hs := c15Enc(&packet.Handshake{ProtocolVersion: int(r.proto), ServerAddress: "verif.example", Port: 25565, NextStatus: 2},
		proto.ServerBound, state.Handshake, r.proto)
	ls := c15Enc(&packet.ServerLogin{Username: c.name, HolderID: uuid.OfflinePlayerUUID(c.name)},
		proto.ServerBound, state.Login, r.proto)
	if len(r.opts.ClientSecret) == 16 {
		c.conn = &c15CipherConn{Conn: f, plain: len(verifkit.RefFrame(hs, -1, 0)) + len(verifkit.RefFrame(ls, -1, 0)),
			enc: verifkit.NewRefCFB8(r.opts.ClientSecret, false), dec: verifkit.NewRefCFB8(r.opts.ClientSecret, true)}
	}
	c.onPayload = c.handle
	r.client = c
	r.wg.Add(1)
	go func() {
		defer r.wg.Done()
		r.proxy.HandleConn(pc)
		r.mu.Lock()
		r.handleDone = true
		r.cond.Broadcast()
		r.mu.Unlock()
	}()
	c.start()
	c.send(hs)
	c.send(ls)
}

func (r *c15Rig) player() *connectedPlayer { return r.proxy.playerByName(r.opts.PlayerName) }

// sessionsLocked returns all backend sessions in dial order.
func (r *c15Rig) sessionsLocked() []*c15Session {
	var out []*c15Session
	for _, d := range r.dials {
		if d.Sess != nil {
			out = append(out, d.Sess)
		}
	}
	return out
}

// quietLocked: global quiescence of the transport (see c15End.quietLocked):
// every open pipe is drained in both directions and the proxy's read loops are
// blocked in Read. Once true it stays true until the harness acts again.
func (r *c15Rig) quietLocked() bool {
	if !r.handleDone && !r.client.rdDone {
		if !r.client.quietLocked() {
			return false
		}
	}
	for _, s := range r.sessionsLocked() {
		if s.openLocked() && !s.quietLocked() {
			return false
		}
		// everything the reader delivered has been consumed by the script
		if s.pos < len(s.inbox) || !(s.waiting || s.holding != "" || s.scriptDone) {
			return false
		}
	}
	return true
}

func (r *c15Rig) countEventsLocked(kind string) int {
	n := 0
	for _, e := range r.events {
		if e.Kind == kind {
			n++
		}
	}
	return n
}

// close tears everything down and waits for every goroutine of the case; it
// returns a description of goroutines of the code under test that are still
// alive afterwards ("" when none).
func (r *c15Rig) close() string {
	r.mu.Lock()
	r.closing = true
	r.preConnect = nil
	close(r.closingCh)
	for _, b := range r.backends {
		for _, ch := range b.dialHold {
			select {
			case <-ch:
			default:
				close(ch)
			}
		}
	}
	r.cond.Broadcast()
	r.mu.Unlock()

	if r.client != nil {
		_ = r.client.conn.Close()
	}
	// HandleConn returns once the client read loop saw the close and tore the player down.
	r.wait(c15Watchdog, func() bool { return r.client == nil || r.handleDone })
	// The player's teardown closes its backend connections itself (before the
	// harness closes whatever is left): recorded for checks that judge it.
	r.mu.Lock()
	if r.client != nil && r.handleDone {
		open := func() (names []string) {
			for _, s := range r.sessionsLocked() {
				if !s.peer.closed {
					names = append(names, s.name)
				}
			}
			return
		}
		if !r.waitLocked(c15Watchdog/2, func() bool { return len(open()) == 0 }) {
			r.backendsLeftOpen = open()
		}
	}
	r.mu.Unlock()
	r.mu.Lock()
	var ends []*c15End
	if r.client != nil {
		ends = append(ends, r.client.c15End)
	}
	for _, s := range r.sessionsLocked() {
		ends = append(ends, s.c15End)
	}
	for _, e := range ends {
		e.stopWr = true
	}
	r.cond.Broadcast()
	r.mu.Unlock()
	for _, e := range ends {
		_ = e.conn.Close()
		_ = e.peer.Conn.Close()
	}
	done := make(chan struct{})
	go func() { r.wg.Wait(); r.ev.Wait(); close(done) }()
	select {
	case <-done:
	case <-time.After(c15Watchdog):
		return "harness goroutines did not end:\n" + c15Stacks("zz_verif_", r.baseline)
	}
	// Goroutines of the proxy (backend read loops, context watchers) end
	// asynchronously after their connection was closed; wait for them.
	deadline := time.Now().Add(c15Watchdog)
	pause := 20 * time.Microsecond
	for runtime.NumGoroutine() > r.baselineN {
		if time.Now().After(deadline) {
			return c15Stacks("go.minekube.com/gate/pkg/edition/java", r.baseline)
		}
		runtime.Gosched()
		time.Sleep(pause)
		if pause < 2*time.Millisecond {
			pause *= 2
		}
	}
	return ""
}

// c15Printable keeps the printable ASCII of a payload (to read kick reasons in messages).
func c15Printable(p []byte) string {
	var sb strings.Builder
	for _, b := range p {
		if b >= 0x20 && b < 0x7f {
			sb.WriteByte(b)
		}
	}
	return sb.String()
}

// c15GoID extracts "goroutine N" from a stack section.
func c15GoID(sec string) string {
	if i := strings.Index(sec, " ["); i > 0 {
		return sec[:i]
	}
	return sec
}

// c15Baseline returns the ids of all goroutines alive now.
func c15Baseline() map[string]bool {
	buf := make([]byte, 1<<20)
	buf = buf[:runtime.Stack(buf, true)]
	m := map[string]bool{}
	for _, s := range strings.Split(string(buf), "\n\n") {
		m[c15GoID(s)] = true
	}
	return m
}

// c15Stacks returns the stacks of all goroutines (except the caller's) that
// contain marker.
func c15Stacks(marker string, baseline map[string]bool) string {
	buf := make([]byte, 1<<20)
	buf = buf[:runtime.Stack(buf, true)]
	secs := strings.Split(string(buf), "\n\n")
	var out []string
	for i, s := range secs {
		if i == 0 {
			continue // the calling goroutine
		}
		if baseline[c15GoID(s)] {
			continue // existed before the case (package-level background goroutines)
		}
		if strings.Contains(s, marker) && !strings.Contains(s, "testing.tRunner") && !strings.Contains(s, "rapid.") &&
			!strings.Contains(s, "lite.init") {
			out = append(out, s)
		}
	}
	sort.Strings(out)
	return strings.Join(out, "\n\n")
}
