//go:build verif

package proxy

import (
	"bytes"
	"context"
	"encoding/hex"
	"encoding/json"
	"fmt"
	"net"
	"net/netip"
	"strings"
	"sync"
	"testing"

	"github.com/go-logr/logr"
	"github.com/robinbraemer/event"
	"pgregory.net/rapid"

	"go.minekube.com/gate/pkg/edition/java/config"
	"go.minekube.com/gate/pkg/edition/java/netmc"
	"go.minekube.com/gate/pkg/edition/java/profile"
	"go.minekube.com/gate/pkg/edition/java/proto/packet"
	"go.minekube.com/gate/pkg/edition/java/proto/state"
	"go.minekube.com/gate/pkg/edition/java/proxy/phase"
	"go.minekube.com/gate/pkg/gate/proto"
	"go.minekube.com/gate/pkg/internal/verifkit"
	"go.minekube.com/gate/pkg/util/netutil"
	"go.minekube.com/gate/pkg/util/uuid"
)

// C19: Handshake.ServerAddress written to the backend.
//
// The player is built the way handleHandshake builds it (virtual host =
// "<ServerAddress>:<Port>" of the client's handshake, connection type from
// handshakeConnectionType, or LegacyForge for a 1.7 client upgraded later) as a
// struct-literal connectedPlayer/serverConnection over a recording MinecraftConn;
// the real serverConnection.startHandshake is run and the buffered
// packet.Handshake is the observation.
//
// Oracle (written here, independent of server.go):
//   - forwarding not used (mode none/velocity, or a HandshakeAddresser on the
//     ServerInfo): the first NUL-separated part of the address, cleaned the way a
//     routing proxy cleans it (cut at "///", dots trimmed), equals the cleaned
//     first NUL part of the client's ServerAddress; and is byte-identical to it
//     when the host contains no ':' (see level_note for ':' hosts).
//   - legacy / bungeeguard: exactly 4 NUL-separated parts: backend address,
//     client IP, 32 hex digits of the UUID, JSON array that decodes to the
//     profile's properties in order (+ optional Forge "extraData" marker for
//     Forge connections, + {"bungeeguard-token", secret} last for BungeeGuard).

type c19Prop struct {
	Name      string `json:"name"`
	Value     string `json:"value"`
	Signature string `json:"signature"`
}

type c19Case struct {
	ServerAddress string    `json:"server_address"` // as sent by the client
	Port          int       `json:"port"`
	Protocol      int       `json:"protocol"`
	ConnType      string    `json:"conn_type"` // "derived" or vanilla|undetermined|undetermined17|legacyforge|modernforge
	Mode          string    `json:"mode"`
	BGSecret      string    `json:"bg_secret"`
	IP            string    `json:"ip"`
	RemotePort    int       `json:"remote_port"`
	UUID          []byte    `json:"uuid"`
	Name          string    `json:"name"`
	Props         []c19Prop `json:"props"`
	SpareCap      int       `json:"spare_cap"`    // spare capacity of profile.Properties
	ServerHook    string    `json:"server_hook"`  // "" | "identity"  (HandshakeAddresser on the ServerInfo)
	BackendHook   string    `json:"backend_hook"` // "" | "identity" | "append" (BackendHandshakeAddresser)
	HookData      string    `json:"hook_data"`    // appended as "\x00"+data
	BackendAddr   string    `json:"backend_addr"` // host:port of the registered server
}

// ---------------------------------------------------------------- fixture pieces

type c19Conn struct {
	ctx      context.Context
	cancel   context.CancelFunc
	protocol proto.Protocol
	remote   net.Addr
	connType phase.ConnectionType
	written  []proto.Packet
}

func (c *c19Conn) Context() context.Context                                      { return c.ctx }
func (c *c19Conn) Close() error                                                  { c.cancel(); return nil }
func (c *c19Conn) State() *state.Registry                                        { return state.Login }
func (c *c19Conn) Protocol() proto.Protocol                                      { return c.protocol }
func (c *c19Conn) RemoteAddr() net.Addr                                          { return c.remote }
func (c *c19Conn) LocalAddr() net.Addr                                           { return &net.TCPAddr{} }
func (c *c19Conn) Type() phase.ConnectionType                                    { return c.connType }
func (c *c19Conn) SetType(t phase.ConnectionType)                                { c.connType = t }
func (c *c19Conn) ActiveSessionHandler() netmc.SessionHandler                    { return nil }
func (c *c19Conn) SetActiveSessionHandler(*state.Registry, netmc.SessionHandler) {}
func (c *c19Conn) SwitchSessionHandler(*state.Registry) bool                     { return true }
func (c *c19Conn) AddSessionHandler(*state.Registry, netmc.SessionHandler)       {}
func (c *c19Conn) SetAutoReading(bool)                                           {}
func (c *c19Conn) SetOutboundState(*state.Registry)                              {}
func (c *c19Conn) SetProtocol(proto.Protocol)                                    {}
func (c *c19Conn) SetState(*state.Registry)                                      {}
func (c *c19Conn) SetCompressionThreshold(int) error                             { return nil }
func (c *c19Conn) EnableEncryption([]byte) error                                 { return nil }
func (c *c19Conn) WritePacket(p proto.Packet) error                              { c.written = append(c.written, p); return nil }
func (c *c19Conn) Write([]byte) error                                            { return nil }
func (c *c19Conn) BufferPacket(p proto.Packet) error                             { c.written = append(c.written, p); return nil }
func (c *c19Conn) BufferPayload([]byte) error                                    { return nil }
func (c *c19Conn) Flush() error                                                  { return nil }
func (c *c19Conn) Reader() netmc.Reader                                          { return nil }
func (c *c19Conn) Writer() netmc.Writer                                          { return nil }
func (c *c19Conn) EnablePlayPacketQueue()                                        {}

var _ netmc.MinecraftConn = (*c19Conn)(nil)

func c19NewConn(p proto.Protocol, remote net.Addr, t phase.ConnectionType) *c19Conn {
	ctx, cancel := context.WithCancel(context.Background())
	return &c19Conn{ctx: ctx, cancel: cancel, protocol: p, remote: remote, connType: t}
}

// c19HAInfo is a ServerInfo with a host-preserving HandshakeAddresser (what
// connectutil's tunnel server does: return the default unchanged).
type c19HAInfo struct{ ServerInfo }

func (c19HAInfo) HandshakeAddr(def string, _ Player) string { return def }

// c19Hook is a host-preserving BackendHandshakeAddresser: identity, or append
// "\x00<data>" (what the Floodgate integration does).
type c19Hook struct {
	append bool
	data   string
	calls  int
}

func (h *c19Hook) BackendHandshakeAddr(def string, _ Player, _ RegisteredServer) (string, error) {
	h.calls++
	if h.append {
		return def + "\x00" + h.data, nil
	}
	return def, nil
}

func c19ConnType(c c19Case) phase.ConnectionType {
	switch c.ConnType {
	case "vanilla":
		return phase.Vanilla
	case "undetermined":
		return phase.Undetermined
	case "undetermined17":
		return phase.Undetermined17
	case "legacyforge":
		return phase.LegacyForge
	case "modernforge":
		return phase.ModernForge
	}
	// as handleLogin does
	return handshakeConnectionType(&packet.Handshake{ServerAddress: c.ServerAddress, Port: c.Port, ProtocolVersion: c.Protocol})
}

// c19Clean is what a routing proxy keeps of a handshake host (written from the
// documented behaviour: Forge NUL parts removed, TCPShield "///" suffix removed,
// surrounding dots removed).
func c19Clean(s string) string {
	if i := strings.IndexByte(s, 0); i >= 0 {
		s = s[:i]
	}
	if i := strings.Index(s, "///"); i >= 0 {
		s = s[:i]
	}
	return strings.Trim(s, ".")
}

func c19FirstPart(s string) string {
	if i := strings.IndexByte(s, 0); i >= 0 {
		return s[:i]
	}
	return s
}

type c19Obs struct {
	addr      string
	hookCalls int
	err       error
}

func c19Observe(c c19Case, twice bool) (first, second c19Obs) {
	cfg := &config.Config{Forwarding: config.Forwarding{Mode: config.ForwardingMode(c.Mode), BungeeGuardSecret: c.BGSecret, VelocitySecret: "velocity-secret"}}
	p := &Proxy{cfg: cfg}
	deps := &sessionHandlerDeps{proxy: p, configProvider: p, eventMgr: event.Nop}
	var id uuid.UUID
	copy(id[:], c.UUID)
	props := make([]profile.Property, 0, len(c.Props)+c.SpareCap)
	for _, pr := range c.Props {
		props = append(props, profile.Property{Name: pr.Name, Value: pr.Value, Signature: pr.Signature})
	}
	if len(c.Props) == 0 && c.SpareCap == 0 {
		props = nil
	}
	clientConn := c19NewConn(proto.Protocol(c.Protocol), &net.TCPAddr{IP: net.IP(netip.MustParseAddr(c.IP).AsSlice()), Port: c.RemotePort}, c19ConnType(c))
	defer clientConn.cancel()
	// the player as the login path builds it: virtual host from the real construction
	// used by handleHandshake, player from the real constructor
	player := newConnectedPlayer(clientConn, &profile.GameProfile{ID: id, Name: c.Name, Properties: props},
		virtualHostAddr(c.ServerAddress, int(c.Port), "tcp"), packet.LoginHandshakeIntent, false, nil, deps)
	var info ServerInfo = NewServerInfo("backend", netutil.NewAddr(c.BackendAddr, "tcp"))
	if c.ServerHook == "identity" {
		info = c19HAInfo{info}
	}
	target := newRegisteredServer(info)
	var hook *c19Hook
	if c.BackendHook != "" {
		hook = &c19Hook{append: c.BackendHook == "append", data: c.HookData}
		p.SetBackendHandshakeAddresser(hook)
	}
	run := func() c19Obs {
		backendConn := c19NewConn(proto.Protocol(c.Protocol), &net.TCPAddr{IP: net.IPv4(127, 0, 0, 1), Port: 25566}, phase.Undetermined)
		defer backendConn.cancel()
		serverConn := &serverConnection{server: target, player: player, log: logr.Discard(), connection: backendConn}
		resultChan := make(chan *connResponse, 1)
		resultChan <- &connResponse{connectionResult: &connectionResult{}}
		var wg sync.WaitGroup
		wg.Add(1)
		started := false
		_, err := serverConn.startHandshake(func() { started = true; wg.Done() }, resultChan)
		if err != nil {
			return c19Obs{err: err}
		}
		wg.Wait()
		_ = started
		var o c19Obs
		n := 0
		for _, w := range backendConn.written {
			if h, ok := w.(*packet.Handshake); ok {
				o.addr = h.ServerAddress
				n++
			}
		}
		if n != 1 {
			o.err = fmt.Errorf("%d handshake packets written", n)
		}
		if hook != nil {
			o.hookCalls = hook.calls
		}
		return o
	}
	first = run()
	if twice {
		second = run()
	}
	return
}

func c19TypeName(t phase.ConnectionType) string {
	switch t {
	case phase.Vanilla:
		return "vanilla"
	case phase.Undetermined:
		return "undetermined"
	case phase.Undetermined17:
		return "undetermined17"
	case phase.LegacyForge:
		return "legacyforge"
	case phase.ModernForge:
		return "modernforge"
	}
	return "unknown"
}

func c19IsForge(t phase.ConnectionType) bool { return t == phase.LegacyForge || t == phase.ModernForge }

func c19Run(c c19Case) verifkit.Result {
	ct := c19ConnType(c)
	o, o2 := c19Observe(c, true)
	if o.err != nil {
		return verifkit.Fail("handshake:error", "startHandshake failed: %v", o.err)
	}
	if o2.err != nil || o2.addr != o.addr {
		return verifkit.Fail("handshake:not-repeatable", "second handshake for the same player gives %q (err %v), first gave %q", o2.addr, o2.err, o.addr)
	}
	addr := o.addr
	forwarding := (c.Mode == "legacy" || c.Mode == "bungeeguard") && c.ServerHook == ""

	labels := []string{"mode-" + c.Mode, "type-" + c19TypeName(ct)}
	hostPart := c19FirstPart(c.ServerAddress)
	marker := strings.IndexByte(c.ServerAddress, 0) >= 0
	if marker {
		labels = append(labels, "nul-parts")
	}
	if c.ConnType != "derived" {
		labels = append(labels, "type-synthetic")
	}
	if c.ServerHook != "" {
		labels = append(labels, "serverinfo-addresser")
	}
	if c.BackendHook != "" {
		labels = append(labels, "backend-addresser-"+c.BackendHook)
	}
	if strings.Contains(hostPart, ":") {
		labels = append(labels, "host-with-colon")
	}
	if strings.Contains(hostPart, "///") {
		labels = append(labels, "tcpshield")
	}
	nt := (marker && c19IsForge(ct)) || c.ServerHook != "" || c.BackendHook != "" || forwarding

	if !forwarding {
		labels = append(labels, "host-first")
		if netutil.Host(virtualHostAddr(c.ServerAddress, int(c.Port), "tcp")) == "" {
			// no virtual host at all: the backend's own host is substituted (Velocity does the same); nothing to preserve
			labels = append(labels, "empty-vhost")
			return verifkit.Result{NonTrivial: false, Labels: labels}
		}
		got := c19FirstPart(addr)
		if c19Clean(got) != c19Clean(c.ServerAddress) {
			key := "host-first:lost"
			if strings.Contains(hostPart, ":") && !strings.Contains(hostPart, "///") {
				key = "host-first:colon-host-port-glued"
			}
			return verifkit.Fail(key, "client sent ServerAddress %q (host %q), backend handshake address %q has first part %q (cleaned %q, want %q); type %s mode %s hooks %q/%q",
				c.ServerAddress, hostPart, addr, got, c19Clean(got), c19Clean(c.ServerAddress), c19TypeName(ct), c.Mode, c.ServerHook, c.BackendHook)
		}
		if !strings.Contains(hostPart, ":") && got != hostPart {
			return verifkit.Fail("host-first:altered", "client host %q, first part of backend address %q is %q", hostPart, addr, got)
		}
		return verifkit.Result{NonTrivial: nt, Labels: labels}
	}

	// ---- legacy / bungeeguard
	labels = append(labels, "forwarding")
	parts := strings.Split(addr, "\x00")
	if len(parts) != 4 {
		return verifkit.Fail("forwarding:part-count", "address %q has %d NUL-separated parts, want 4", addr, len(parts))
	}
	if parts[0] != c.BackendAddr && parts[0] != netutil.HostStr(c.BackendAddr) {
		return verifkit.Fail("forwarding:backend-addr", "part 0 is %q, backend address is %q", parts[0], c.BackendAddr)
	}
	ip, err := netip.ParseAddr(parts[1])
	if err != nil || ip != netip.MustParseAddr(c.IP) {
		return verifkit.Fail("forwarding:ip", "part 1 is %q, player IP is %s", parts[1], c.IP)
	}
	raw, err := hex.DecodeString(parts[2])
	if err != nil || len(parts[2]) != 32 || !bytes.Equal(raw, c.UUID) {
		return verifkit.Fail("forwarding:uuid", "part 2 is %q, want the 32 hex digits of %x", parts[2], c.UUID)
	}
	var list []struct {
		Name      *string `json:"name"`
		Value     *string `json:"value"`
		Signature *string `json:"signature"`
	}
	dec := json.NewDecoder(strings.NewReader(parts[3]))
	if err := dec.Decode(&list); err != nil {
		return verifkit.Fail("forwarding:json", "part 3 %q is not a JSON property array: %v", parts[3], err)
	}
	if dec.More() {
		return verifkit.Fail("forwarding:json", "part 3 %q has trailing data after the JSON array", parts[3])
	}
	str := func(p *string) string {
		if p == nil {
			return ""
		}
		return *p
	}
	idx := 0
	for i, want := range c.Props {
		if idx >= len(list) {
			return verifkit.Fail("forwarding:properties", "property %d (%q) missing from %q", i, want.Name, parts[3])
		}
		g := list[idx]
		if g.Name == nil || g.Value == nil || *g.Name != want.Name || *g.Value != want.Value || str(g.Signature) != want.Signature {
			return verifkit.Fail("forwarding:properties", "property %d decodes to (%q,%q,%q) want (%q,%q,%q)", i, str(g.Name), str(g.Value), str(g.Signature), want.Name, want.Value, want.Signature)
		}
		idx++
	}
	if idx < len(list) && c19IsForge(ct) && str(list[idx].Name) == "extraData" {
		if !strings.HasPrefix(str(list[idx].Value), "\x01") || str(list[idx].Signature) != "" {
			return verifkit.Fail("forwarding:extraData", "Forge extraData property has value %q signature %q", str(list[idx].Value), str(list[idx].Signature))
		}
		labels = append(labels, "forge-extraData")
		idx++
	}
	if c.Mode == "bungeeguard" {
		if idx != len(list)-1 {
			return verifkit.Fail("forwarding:token", "expected exactly the BungeeGuard token after the %d profile properties, list is %q", len(c.Props), parts[3])
		}
		g := list[idx]
		if str(g.Name) != "bungeeguard-token" || g.Value == nil || *g.Value != c.BGSecret || str(g.Signature) != "" {
			return verifkit.Fail("forwarding:token", "last property is (%q,%q,%q), want (bungeeguard-token,%q,\"\")", str(g.Name), str(g.Value), str(g.Signature), c.BGSecret)
		}
		idx++
	}
	if idx != len(list) {
		return verifkit.Fail("forwarding:extra-properties", "unexpected extra properties in %q", parts[3])
	}
	if o.hookCalls != 0 {
		labels = append(labels, "backend-hook-called-with-forwarding")
	}
	return verifkit.Result{NonTrivial: nt, Labels: labels}
}

// ---------------------------------------------------------------- generator

var c19HostRunes = []rune("abcdefghijklmnopqrstuvwxyz0123456789-")

func c19GenHost(t *rapid.T) string {
	label := rapid.StringOfN(rapid.SampledFrom(c19HostRunes), 1, 10, -1)
	base := rapid.OneOf(
		rapid.Just("play.example.org"),
		rapid.Map(rapid.SliceOfN(label, 1, 4), func(l []string) string { return strings.Join(l, ".") }),
		rapid.SampledFrom([]string{"Play.Example.ORG", "localhost", "example.org.", "MC.Example.Org.", "192.0.2.10", "xn--mnchen-3ya.de", "münchen.de", "a", "FORGE.example.com", "example.com.FML"}),
	).Draw(t, "host")
	switch rapid.IntRange(0, 19).Draw(t, "hostkind") {
	case 0:
		return rapid.SampledFrom([]string{"::1", "2001:db8::1", "0:0:0:0:0:0:0:1", "fe80::1", "2001:DB8::A", "::ffff:10.0.0.1", "::ffff:a00:1", "0:0:0:0:0:ffff:c0a8:1", "::FFFF:192.0.2.10", "64:ff9b::192.0.2.33"}).Draw(t, "ip6host")
	case 1:
		return base + "///" + rapid.SampledFrom([]string{"198.51.100.7:50123", "203.0.113.9:1"}).Draw(t, "realip") + "///" + fmt.Sprint(rapid.IntRange(1_600_000_000, 1_900_000_000).Draw(t, "ts"))
	case 2:
		return ""
	case 3:
		return strings.ToUpper(base)
	}
	return base
}

func c19GenSuffix(t *rapid.T) string {
	return rapid.SampledFrom([]string{
		"", "", "", "",
		"\x00FML\x00", "\x00FML\x00", "\x00FML2\x00", "\x00FML3\x00", "\x00FORGE", "\x00FORGE2", "\x00FORGE12", "\x00FORGE\x00",
		"\x00", "\x00junk", "\x00FML", "\x00FML\x00extra", "\x00fml3\x00", "\x00x\x00FML3\x00", "\x00FML2\x00\x00FORGE",
	}).Draw(t, "suffix")
}

var c19Protocols = []int{4, 5, 47, 110, 340, 393, 404, 477, 573, 754, 757, 758, 759, 760, 761, 763, 764, 765, 767, 772, 776}

func c19GenText(max int) *rapid.Generator[string] {
	return rapid.OneOf(
		rapid.StringOfN(rapid.SampledFrom([]rune("abcdefghijklmnopqrstuvwxyzABCDEFGHIJKLMNOPQRSTUVWXYZ0123456789+/=")), 0, max, -1),
		rapid.StringOfN(rapid.Rune(), 0, 24, -1),
		rapid.SampledFrom([]string{"", "\x00", "a\x00b", "\"", "\\", "\\u0000", "</script>", "[{\"name\":\"x\"}]", " ", "é名\U0001F600", "\x01FML\x00", "\n\t\r", "\x7f\x1f"}),
	)
}

func c19Gen(t *rapid.T) c19Case {
	c := c19Case{}
	c.ServerAddress = c19GenHost(t) + c19GenSuffix(t)
	c.Port = rapid.OneOf(rapid.Just(25565), rapid.IntRange(0, 65535)).Draw(t, "port")
	c.Protocol = rapid.SampledFrom(c19Protocols).Draw(t, "protocol")
	c.ConnType = "derived"
	switch rapid.IntRange(0, 9).Draw(t, "typekind") {
	case 0:
		if c.Protocol <= 5 { // a 1.7 client is Undetermined17 until its Forge handshake is seen, then LegacyForge
			c.ConnType = "legacyforge"
		}
	case 1:
		c.ConnType = rapid.SampledFrom([]string{"vanilla", "undetermined", "undetermined17", "legacyforge", "modernforge"}).Draw(t, "synthetic")
	}
	c.Mode = rapid.SampledFrom([]string{"none", "none", "velocity", "legacy", "legacy", "bungeeguard", "bungeeguard"}).Draw(t, "mode")
	c.BGSecret = rapid.OneOf(rapid.StringOfN(rapid.SampledFrom([]rune("abcdefghijklmnopqrstuvwxyzABCDEFGHIJKLMNOPQRSTUVWXYZ0123456789")), 1, 64, -1), c19GenText(40)).Draw(t, "bgsecret")
	if rapid.Bool().Draw(t, "v6") {
		b := rapid.SliceOfN(rapid.Byte(), 16, 16).Draw(t, "ip6")
		a := netip.AddrFrom16([16]byte(b))
		if a.Is4In6() {
			a = netip.MustParseAddr("2001:db8::2")
		}
		c.IP = a.String()
	} else {
		c.IP = netip.AddrFrom4([4]byte(rapid.SliceOfN(rapid.Byte(), 4, 4).Draw(t, "ip4"))).String()
	}
	c.RemotePort = rapid.IntRange(1, 65535).Draw(t, "rport")
	c.UUID = rapid.SliceOfN(rapid.Byte(), 16, 16).Draw(t, "uuid")
	if rapid.IntRange(0, 7).Draw(t, "lowuuid") == 0 {
		c.UUID[0], c.UUID[1] = 0, 0x0a // leading zeros must be kept
	}
	c.Name = rapid.StringOfN(rapid.SampledFrom([]rune("abcdefghijklmnopqrstuvwxyzABCDEFGHIJKLMNOPQRSTUVWXYZ0123456789_")), 1, 16, -1).Draw(t, "name")
	n := rapid.SampledFrom([]int{0, 0, 1, 1, 2, 3, 6}).Draw(t, "nprops")
	for i := 0; i < n; i++ {
		p := c19Prop{
			Name:  rapid.OneOf(rapid.SampledFrom([]string{"textures", "textures", "forgeClient", "extraData", "bungeeguard-tokenx"}), c19GenText(12)).Draw(t, "pname"),
			Value: rapid.OneOf(c19GenText(60), c19GenText(800)).Draw(t, "pvalue"),
		}
		if p.Name == "bungeeguard-token" {
			p.Name = "textures"
		}
		if rapid.Bool().Draw(t, "signed") {
			p.Signature = rapid.OneOf(c19GenText(300), rapid.Just("sig")).Draw(t, "psig")
		}
		c.Props = append(c.Props, p)
	}
	c.SpareCap = rapid.SampledFrom([]int{0, 0, 1, 2, 4}).Draw(t, "sparecap")
	if rapid.IntRange(0, 5).Draw(t, "serverhook") == 0 {
		c.ServerHook = "identity"
	}
	c.BackendHook = rapid.SampledFrom([]string{"", "", "identity", "append", "append"}).Draw(t, "backendhook")
	c.HookData = rapid.OneOf(
		rapid.Just("^Floodgate^AbCd0123+/==!Zm9v"),
		rapid.StringOfN(rapid.SampledFrom([]rune("abcdefghijklmnopqrstuvwxyzABCDEFGHIJKLMNOPQRSTUVWXYZ0123456789+/=!^")), 0, 120, -1),
	).Draw(t, "hookdata")
	c.BackendAddr = rapid.SampledFrom([]string{"127.0.0.1:25566", "10.0.0.5:25565", "backend.internal:30000", "[::1]:25570", "localhost:1"}).Draw(t, "backendaddr")
	return c
}

func TestVerif_C19(t *testing.T) {
	verifkit.Check(t, "C19", "handshake-address",
		"client handshakes (hosts: plain/upper-case/trailing dot/IPv4/IPv6 literal incl. IPv4-mapped and NAT64 spellings/TCPShield/IDN/empty x NUL suffixes FML,FML2,FML3,FORGE,FORGEn,junk x 21 protocols) turned into players as handleHandshake does (+ 1.7 clients upgraded to LegacyForge, + 10% synthetic type/host pairs) x forwarding none/velocity/legacy/bungeeguard x JSON-hostile profile properties x host-preserving hooks (ServerInfo HandshakeAddresser identity; BackendHandshakeAddresser identity / append NUL+data); real startHandshake, the buffered Handshake.ServerAddress judged by an independent oracle (host first / 4-part BungeeCord forwarding that decodes to the properties, token last); non-trivial = Forge marker on a Forge connection, or an addresser installed, or forwarding used",
		c19Gen, c19Run)
}
