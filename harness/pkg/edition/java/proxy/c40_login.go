//go:build verif

package proxy

// C40, sub-check "login-identity": the identity a Bedrock player is given must
// be the one the client is told. The main C40 check decides the Geyser
// integration's profile handler (name normalisation, XUID-derived UUID); that
// handler hands its result to the proxy through GameProfileRequestEvent. Here a
// subscriber of that event replaces the profile id the same way, a client logs in
// through the real Proxy.HandleConn (rig of C15, forwarding none - the mode the
// backend-Floodgate setup uses) and the LoginSuccess packet it receives must
// carry exactly the replaced id and the name; two different ids stay different,
// the same id stays the same, whatever the name.

import (
	"fmt"
	"strings"
	"testing"

	"pgregory.net/rapid"

	"go.minekube.com/gate/pkg/edition/java/proto/version"
	"go.minekube.com/gate/pkg/internal/verifkit"
	"go.minekube.com/gate/pkg/util/uuid"
)

type c40lCase struct {
	Protocol int      `json:"protocol"`
	Name     string   `json:"name"`
	ID       [16]byte `json:"id"`
}

func c40lRun(c c40lCase) verifkit.Result {
	id := c.ID
	rig, err := c15NewRig(c15RigOpts{
		Protocol: c.Protocol, ClientThr: -1, ProxyLevel: -1, ClientLevel: -1, BackendLevel: -1,
		Backends:       []c15BackendSpec{{Name: "alpha", Scripts: []c15Script{{Thr: -1}}}},
		Try:            []string{"alpha"},
		PlayerName:     c.Name,
		ProfileRewrite: &id,
	})
	if err != nil {
		return verifkit.Fail("harness:rig", "%v", err)
	}
	rig.start()
	got := rig.wait(c15Watchdog, func() bool {
		return rig.client.loginSuccess || rig.client.kicked || rig.handleDone || len(rig.harnessErrs) > 0
	})
	// let the session settle (first server joined) before the client leaves
	rig.wait(c15Watchdog, func() bool {
		return rig.client.joins > 0 || rig.client.kicked || rig.handleDone || len(rig.harnessErrs) > 0
	})
	rig.mu.Lock()
	ok := got && rig.client.loginSuccess
	data := append([]byte(nil), rig.client.loginSuccessData...)
	herrs := append([]string(nil), rig.harnessErrs...)
	rig.mu.Unlock()
	_ = rig.close()
	if len(herrs) > 0 {
		return verifkit.Fail("harness:rig", "%v", herrs)
	}
	if !ok {
		return verifkit.Result{Inconclusive: true, Labels: []string{"inconclusive:no-login-success"}}
	}
	r := verifkit.NewRefReader(data)
	var gotID string
	want := uuid.UUID(c.ID).String()
	if c.Protocol >= int(version.Minecraft_1_16.Protocol) {
		b, err := r.Take(16)
		if err != nil {
			return verifkit.Fail("login-identity:malformed", "LoginSuccess body %x", data)
		}
		var u uuid.UUID
		copy(u[:], b)
		gotID = u.String()
	} else {
		s, err := r.String()
		if err != nil {
			return verifkit.Fail("login-identity:malformed", "LoginSuccess body %x", data)
		}
		gotID = s
		if c.Protocol < int(version.Minecraft_1_7_6.Protocol) {
			want = strings.ReplaceAll(want, "-", "")
		}
	}
	name, err := r.String()
	if err != nil {
		return verifkit.Fail("login-identity:malformed", "LoginSuccess body %x", data)
	}
	if gotID != want || name != c.Name {
		return verifkit.Fail("login-identity:uuid", "protocol %d: the profile handler assigned id %s to %q, the client was told %s / %q in LoginSuccess", c.Protocol, want, c.Name, gotID, name)
	}
	return verifkit.Result{NonTrivial: true, Labels: []string{fmt.Sprintf("protocol:%d", c.Protocol)}}
}

func TestVerif_C40Login(t *testing.T) {
	verifkit.Check(t, "C40", "login-identity",
		"one login per case through the real Proxy.HandleConn (protocols 1.8..26.2, forwarding none) with a GameProfileRequestEvent subscriber that replaces the profile id by a generated one (as the Geyser integration does with the XUID-derived id) and a Java-compatible name of 1..16 characters (incl. leading dot / underscore prefixes); oracle: the LoginSuccess the client receives carries exactly that id and name; every completed case is non-trivial",
		func(t *rapid.T) c40lCase {
			var id [16]byte
			copy(id[:], rapid.SliceOfN(rapid.Byte(), 16, 16).Draw(t, "id"))
			id[6] = id[6]&0x0f | 0x50 // a version-5 style id like JavaUuid's
			return c40lCase{
				Protocol: rapid.SampledFrom(c15Protocols).Draw(t, "protocol"),
				Name:     rapid.SampledFrom([]string{"_Steve", "_Cool_Guy", "_LLG_icedRyan", "Steve", "_a", "_Sixteen_Chars_16"}).Draw(t, "name"),
				ID:       id,
			}
		}, c40lRun)
}
