//go:build verif

package proxy

import (
	"context"
	"fmt"
	"net"
	"strconv"
	"strings"
	"sync"
	"testing"
	"time"

	"github.com/go-logr/logr"
	"github.com/robinbraemer/event"
	"go.minekube.com/brigodier"
	"pgregory.net/rapid"

	"go.minekube.com/gate/pkg/command"
	"go.minekube.com/gate/pkg/edition/java/config"
	"go.minekube.com/gate/pkg/edition/java/netmc"
	"go.minekube.com/gate/pkg/edition/java/profile"
	"go.minekube.com/gate/pkg/edition/java/proto/packet/chat"
	"go.minekube.com/gate/pkg/edition/java/proto/state"
	"go.minekube.com/gate/pkg/edition/java/proxy/phase"
	"go.minekube.com/gate/pkg/gate/proto"
	"go.minekube.com/gate/pkg/internal/verifkit"
	"go.minekube.com/gate/pkg/util/permission"
	"go.minekube.com/gate/pkg/util/uuid"
)

// C22: a command typed by a player is executed by the proxy exactly when it names
// a registered proxy command the player may use and the command event neither
// denied nor forwarded it; otherwise, unless denied, the backend receives it
// exactly once (unchanged or rewritten as the event requested); a denied command
// never reaches the backend.
//
// One case = one command packet of one of the four protocol families driven
// through the real clientPlaySessionHandler.HandlePacket -> chatHandler ->
// CommandExecuteEvent -> chatQueue -> command.Manager, with a recording fake
// backend connection. Proxy command callbacks block on a gate the harness owns
// (asynchronous completion); the case waits for the tail of the chat queue's
// future chain before judging.

// ---------------------------------------------------------------- case

type c22Arg struct {
	Kind string `json:"kind"` // "word" | "int" | "greedy"
	Req  string `json:"req,omitempty"`
	Exec bool   `json:"exec"`
}

type c22Sub struct {
	Name string  `json:"name"`
	Req  string  `json:"req,omitempty"`
	Exec bool    `json:"exec"`
	Arg  *c22Arg `json:"arg,omitempty"`
}

type c22Cmd struct {
	Name    string   `json:"name"`
	Aliases []string `json:"aliases,omitempty"`
	Req     string   `json:"req,omitempty"` // "" | "console" | "perm:<p>"
	Exec    bool     `json:"exec"`
	Subs    []c22Sub `json:"subs,omitempty"`
	Arg     *c22Arg  `json:"arg,omitempty"`
}

type c22Event struct {
	Subscribed bool   `json:"subscribed"`
	Deny       bool   `json:"deny,omitempty"`
	Forward    bool   `json:"forward,omitempty"`
	Modify     bool   `json:"modify,omitempty"`
	NewLine    string `json:"new_line,omitempty"`
}

type c22Case struct {
	Family     string   `json:"family"` // "legacy" | "keyed" | "session" | "unsigned"
	Protocol   int      `json:"protocol"`
	Line       string   `json:"line"` // without the leading slash
	KeyedUnsig bool     `json:"keyed_unsigned,omitempty"`
	ArgSigs    bool     `json:"arg_sigs,omitempty"` // session family: command carries argument signatures
	Offset     int      `json:"offset,omitempty"`   // session family: last-seen offset
	ForceKey   bool     `json:"force_key_auth"`
	Cmds       []c22Cmd `json:"cmds"`
	Perms      []string `json:"perms"`
	Event      c22Event `json:"event"`
	PreRelease bool     `json:"pre_release"` // callback gate opened before the packet is handled
}

// ---------------------------------------------------------------- fake conn

type c22Conn struct {
	mu       sync.Mutex
	packets  []proto.Packet
	protocol proto.Protocol
	ctx      context.Context
	cancel   context.CancelFunc
}

func c22NewConn(p proto.Protocol) *c22Conn {
	c := &c22Conn{protocol: p}
	c.ctx, c.cancel = context.WithCancel(context.Background())
	return c
}

func (c *c22Conn) Context() context.Context                                      { return c.ctx }
func (c *c22Conn) Close() error                                                  { c.cancel(); return nil }
func (c *c22Conn) State() *state.Registry                                        { return state.Play }
func (c *c22Conn) Protocol() proto.Protocol                                      { return c.protocol }
func (c *c22Conn) RemoteAddr() net.Addr                                          { return &net.TCPAddr{} }
func (c *c22Conn) LocalAddr() net.Addr                                           { return &net.TCPAddr{} }
func (c *c22Conn) Type() phase.ConnectionType                                    { return phase.Vanilla }
func (c *c22Conn) SetType(phase.ConnectionType)                                  {}
func (c *c22Conn) ActiveSessionHandler() netmc.SessionHandler                    { return nil }
func (c *c22Conn) SetActiveSessionHandler(*state.Registry, netmc.SessionHandler) {}
func (c *c22Conn) SwitchSessionHandler(*state.Registry) bool                     { return true }
func (c *c22Conn) AddSessionHandler(*state.Registry, netmc.SessionHandler)       {}
func (c *c22Conn) SetAutoReading(bool)                                           {}
func (c *c22Conn) SetProtocol(proto.Protocol)                                    {}
func (c *c22Conn) SetState(*state.Registry)                                      {}
func (c *c22Conn) SetOutboundState(*state.Registry)                              {}
func (c *c22Conn) SetCompressionThreshold(int) error                             { return nil }
func (c *c22Conn) EnableEncryption([]byte) error                                 { return nil }
func (c *c22Conn) WritePacket(p proto.Packet) error {
	c.mu.Lock()
	c.packets = append(c.packets, p)
	c.mu.Unlock()
	return nil
}
func (c *c22Conn) Write([]byte) error                { return nil }
func (c *c22Conn) BufferPacket(p proto.Packet) error { return c.WritePacket(p) }
func (c *c22Conn) BufferPayload([]byte) error        { return nil }
func (c *c22Conn) Flush() error                      { return nil }
func (c *c22Conn) Reader() netmc.Reader              { return nil }
func (c *c22Conn) Writer() netmc.Writer              { return nil }
func (c *c22Conn) EnablePlayPacketQueue()            {}
func (c *c22Conn) written() []proto.Packet {
	c.mu.Lock()
	defer c.mu.Unlock()
	return append([]proto.Packet(nil), c.packets...)
}

var _ netmc.MinecraftConn = (*c22Conn)(nil)

// ---------------------------------------------------------------- reference evaluation of a command line

func c22Passes(req string, perms map[string]bool) bool {
	switch {
	case req == "":
		return true
	case req == "console":
		return false
	case strings.HasPrefix(req, "perm:"):
		return perms[strings.TrimPrefix(req, "perm:")]
	}
	panic("c22: bad requirement " + req)
}

type c22Verdict struct {
	// mode: "proxy" (strict: proxy consumes it, backend gets nothing),
	// "backend" (strict: backend gets it exactly once, no callback),
	// "either" (the property text does not decide: proxy XOR backend, at most once each).
	mode     string
	callback string // id of the node whose callback must run exactly once ("" = none)
	class    string
}

// node ids: "<cmd>" | "<cmd>/<sub>" | "<cmd>/@" | "<cmd>/<sub>/@"
func c22Eval(line string, cmds []c22Cmd, perms map[string]bool) c22Verdict {
	if line == "" {
		return c22Verdict{mode: "backend", class: "empty"}
	}
	if strings.HasPrefix(line, " ") || strings.HasSuffix(line, " ") || strings.Contains(line, "  ") {
		return c22Verdict{mode: "either", class: "odd-whitespace"}
	}
	tok := strings.Split(line, " ")
	var root *c22Cmd
	caseVariant := false
	for i := range cmds {
		names := append([]string{cmds[i].Name}, cmds[i].Aliases...)
		for _, n := range names {
			if n == tok[0] {
				root = &cmds[i]
			} else if strings.EqualFold(n, tok[0]) {
				caseVariant = true
			}
		}
	}
	if root == nil {
		if caseVariant {
			return c22Verdict{mode: "either", class: "case-variant"}
		}
		return c22Verdict{mode: "backend", class: "unknown-command"}
	}
	if !c22Passes(root.Req, perms) {
		return c22Verdict{mode: "backend", class: "registered-not-permitted"}
	}
	// literal, then optional argument
	id := root.Name
	exec := root.Exec
	subs := root.Subs
	arg := root.Arg
	i := 1
	for i < len(tok) {
		t := tok[i]
		var lit *c22Sub
		for k := range subs {
			if subs[k].Name == t {
				lit = &subs[k]
			}
		}
		if lit != nil {
			if !c22Passes(lit.Req, perms) {
				if arg != nil {
					return c22Verdict{mode: "either", class: "denied-subcommand-with-argument-sibling"}
				}
				return c22Verdict{mode: "proxy", class: "denied-subcommand"}
			}
			id, exec, subs, arg = id+"/"+lit.Name, lit.Exec, nil, lit.Arg
			i++
			continue
		}
		if arg == nil || !c22Passes(arg.Req, perms) {
			return c22Verdict{mode: "proxy", class: "syntax-error"}
		}
		switch arg.Kind {
		case "word":
			for _, r := range t {
				if !(r >= '0' && r <= '9' || r >= 'A' && r <= 'Z' || r >= 'a' && r <= 'z' || r == '_' || r == '-' || r == '.' || r == '+') {
					return c22Verdict{mode: "either", class: "odd-word"}
				}
			}
			i++
		case "int":
			if _, err := strconv.ParseInt(t, 10, 32); err != nil {
				return c22Verdict{mode: "proxy", class: "syntax-error"}
			}
			i++
		case "greedy":
			i = len(tok)
		}
		id, exec, subs, arg = id+"/@", arg.Exec, nil, nil
	}
	if !exec {
		// brigadier reports "unknown command" for a complete path that ends on a
		// non-executable node; whether that counts as "names a registered proxy
		// command" is not decided by the property text.
		return c22Verdict{mode: "either", class: "non-executable-endpoint"}
	}
	return c22Verdict{mode: "proxy", callback: id, class: "valid"}
}

// ---------------------------------------------------------------- run

type c22Rec struct {
	mu    sync.Mutex
	calls []string
}

func (r *c22Rec) add(id string) {
	r.mu.Lock()
	r.calls = append(r.calls, id)
	r.mu.Unlock()
}

func c22Register(mgr *command.Manager, cmds []c22Cmd, rec *c22Rec, gate <-chan struct{}) {
	req := func(r string) brigodier.RequireFn {
		switch {
		case r == "":
			return nil
		case r == "console":
			return command.Requires(func(rc *command.RequiresContext) bool {
				_, isPlayer := rc.Source.(Player)
				return !isPlayer
			})
		default:
			p := strings.TrimPrefix(r, "perm:")
			return command.Requires(func(rc *command.RequiresContext) bool { return rc.Source.HasPermission(p) })
		}
	}
	run := func(id string) brigodier.Command {
		return command.Command(func(*command.Context) error {
			rec.add(id)
			<-gate // asynchronous completion: released by the harness
			return nil
		})
	}
	argNode := func(id string, a *c22Arg) brigodier.Builder {
		var t brigodier.ArgumentType
		switch a.Kind {
		case "word":
			t = brigodier.StringWord
		case "int":
			t = brigodier.Int
		default:
			t = brigodier.StringPhrase
		}
		b := brigodier.Argument("value", t)
		if r := req(a.Req); r != nil {
			b.Requires(r)
		}
		if a.Exec {
			b.Executes(run(id + "/@"))
		}
		return b
	}
	for _, c := range cmds {
		b := brigodier.Literal(c.Name)
		if r := req(c.Req); r != nil {
			b.Requires(r)
		}
		if c.Exec {
			b.Executes(run(c.Name))
		}
		for _, s := range c.Subs {
			sb := brigodier.Literal(s.Name)
			if r := req(s.Req); r != nil {
				sb.Requires(r)
			}
			if s.Exec {
				sb.Executes(run(c.Name + "/" + s.Name))
			}
			if s.Arg != nil {
				sb.Then(argNode(c.Name+"/"+s.Name, s.Arg))
			}
			b.Then(sb)
		}
		if c.Arg != nil {
			b.Then(argNode(c.Name, c.Arg))
		}
		mgr.RegisterWithAliases(b, c.Aliases...)
	}
}

func c22CommandOf(p proto.Packet) (line string, ok bool) {
	switch x := p.(type) {
	case *chat.LegacyChat:
		if strings.HasPrefix(x.Message, "/") {
			return strings.TrimPrefix(x.Message, "/"), true
		}
		return x.Message, false
	case *chat.KeyedPlayerCommand:
		return x.Command, true
	case *chat.SessionPlayerCommand:
		return x.Command, true
	case *chat.UnsignedPlayerCommand:
		return x.Command, true
	}
	return "", false
}

func c22Run(c c22Case) verifkit.Result {
	protocol := proto.Protocol(c.Protocol)
	perms := map[string]bool{}
	for _, p := range c.Perms {
		perms[p] = true
	}

	mgr := event.New()
	prx := &Proxy{cfg: &config.Config{ForceKeyAuthentication: c.ForceKey}, log: logr.Discard(), event: mgr}
	rec := &c22Rec{}
	gate := make(chan struct{})
	c22Register(&prx.command, c.Cmds, rec, gate)

	var evMu sync.Mutex
	eventsSeen := 0
	if c.Event.Subscribed {
		event.Subscribe(mgr, 0, func(e *CommandExecuteEvent) {
			evMu.Lock()
			eventsSeen++
			evMu.Unlock()
			if c.Event.Modify {
				e.SetCommand(c.Event.NewLine)
			}
			if c.Event.Forward {
				e.SetForward(true)
			}
			if c.Event.Deny {
				e.SetAllowed(false)
			}
		})
	}

	client := c22NewConn(protocol)
	backend := c22NewConn(protocol)
	player := &connectedPlayer{
		MinecraftConn:      client,
		log:                logr.Discard(),
		sessionHandlerDeps: &sessionHandlerDeps{proxy: prx, eventMgr: mgr, configProvider: prx},
		profile:            &profile.GameProfile{ID: uuid.UUID{0xC2, 0x20}, Name: "c22"},
		permFunc: func(p string) permission.TriState {
			if perms[p] {
				return permission.True
			}
			return permission.Undefined
		},
	}
	player.chatQueue = newChatQueue(player)
	sc := &serverConnection{player: player, log: logr.Discard()}
	sc.connection = backend
	player.connectedServer_ = sc
	h := newClientPlaySessionHandler(player)

	ts := time.UnixMilli(1_700_000_000_000)
	var sent proto.Packet
	switch c.Family {
	case "legacy":
		sent = &chat.LegacyChat{Message: "/" + c.Line}
	case "keyed":
		kp := &chat.KeyedPlayerCommand{Unsigned: c.KeyedUnsig, Command: c.Line, Timestamp: ts, Arguments: map[string][]byte{}}
		if !c.KeyedUnsig { // a signed keyed command has a salt and argument signatures
			kp.Salt = 7
			kp.Arguments["value"] = make([]byte, 256)
		}
		sent = kp
	case "session":
		sp := &chat.SessionPlayerCommand{Command: c.Line, Timestamp: ts, LastSeenMessages: chat.LastSeenMessages{Offset: c.Offset}}
		if c.ArgSigs {
			sp.Salt = 99
			sp.ArgumentSignatures.Entries = []chat.ArgumentSignature{{Name: "value", Signature: make([]byte, 256)}}
		}
		sent = sp
	case "unsigned":
		sent = &chat.UnsignedPlayerCommand{SessionPlayerCommand: chat.SessionPlayerCommand{Command: c.Line}}
	default:
		panic("c22: family " + c.Family)
	}
	// The proxy only sees a command if the client's packet is a known serverbound play
	// packet of that protocol (an unknown id is relayed to the backend as raw bytes).
	if reg := state.Play.ServerBound.ProtocolRegistry(proto.Protocol(c.Protocol)); reg != nil {
		if _, ok := reg.PacketID(sent); !ok {
			return verifkit.Fail("command-packet-not-registered:"+c.Family, "protocol %d: %T, the packet a client of this version sends for a command, is not registered serverbound in the play state: its commands bypass the proxy", c.Protocol, sent)
		}
	}
	var sentCopy proto.Packet
	switch x := sent.(type) {
	case *chat.SessionPlayerCommand:
		cp := *x
		sentCopy = &cp
	}

	var once sync.Once
	release := func() { once.Do(func() { close(gate) }) }
	if c.PreRelease {
		release()
	}
	wr := verifkit.Watch(10*time.Second, "proxy.", func() {
		h.HandlePacket(&proto.PacketContext{Direction: proto.ServerBound, Protocol: protocol, Packet: sent})
		release()
		// wait for the tail of the chat queue's future chain
		cq := player.chatQueue
		cq.internalLock.Lock()
		tail := cq.head
		cq.internalLock.Unlock()
		done := make(chan struct{})
		tail.ThenAccept(func(any) { close(done) })
		<-done
	})
	switch wr.Outcome {
	case verifkit.Panicked:
		return verifkit.Fail("panic:command-handling", "%v\n%s", wr.PanicValue, wr.PanicStack)
	case verifkit.Deadlocked:
		release()
		return verifkit.Fail("deadlock:command-handling", "command handling never completed:\n%s", wr.Stack)
	case verifkit.Slow:
		release()
		return verifkit.Result{Inconclusive: true, Labels: []string{"slow"}}
	}
	mgr.Wait()

	// ---------------- oracle
	denied := c.Event.Subscribed && c.Event.Deny
	forward := c.Event.Subscribed && c.Event.Forward
	modified := c.Event.Subscribed && c.Event.Modify && c.Event.NewLine != c.Line
	eff := c.Line
	if c.Event.Subscribed && c.Event.Modify {
		eff = c.Event.NewLine
	}
	var want c22Verdict
	switch {
	case denied:
		want = c22Verdict{mode: "nothing", class: "denied"}
	case forward:
		want = c22Verdict{mode: "backend", class: "forwarded-by-event"}
	default:
		want = c22Eval(eff, c.Cmds, perms)
	}
	labels := []string{"family:" + c.Family, "want:" + want.mode, "class:" + want.class}
	if modified {
		labels = append(labels, "event-modified")
	}
	if c.PreRelease {
		labels = append(labels, "callback-pre-released")
	}
	kicked := client.ctx.Err() != nil
	if kicked {
		labels = append(labels, "player-kicked")
	}

	rec.mu.Lock()
	calls := append([]string(nil), rec.calls...)
	rec.mu.Unlock()
	var cmdPackets []proto.Packet
	for _, p := range backend.written() {
		if _, isAck := p.(*chat.ChatAcknowledgement); isAck {
			continue // acknowledgement packets are not commands
		}
		if _, ok := c22CommandOf(p); !ok {
			return verifkit.Result{V: verifkit.Violationf("unexpected-backend-packet", "backend received %T %+v", p, p), Labels: labels}
		}
		cmdPackets = append(cmdPackets, p)
	}
	fam := c.Family
	fail := func(key, f string, a ...any) verifkit.Result {
		return verifkit.Result{V: verifkit.Violationf(key+":"+fam, "line=%q effective=%q class=%s calls=%v backend=%d: %s", c.Line, eff, want.class, calls, len(cmdPackets), fmt.Sprintf(f, a...)), Labels: labels}
	}
	evMu.Lock()
	seen := eventsSeen
	evMu.Unlock()
	if c.Event.Subscribed && seen != 1 {
		return fail("event-count", "CommandExecuteEvent fired %d times", seen)
	}
	if len(calls) > 1 {
		return fail("executed-twice", "proxy callbacks ran %d times", len(calls))
	}
	if len(cmdPackets) > 1 {
		return fail("forwarded-twice", "backend received the command %d times", len(cmdPackets))
	}
	if len(calls) == 1 && len(cmdPackets) == 1 {
		return fail("executed-and-forwarded", "command ran on the proxy and reached the backend")
	}
	if kicked {
		// The proxy terminated the session (forceKeyAuthentication guard for signed
		// commands); the property does not speak about a kicked player. Only the
		// at-most-once clauses above and "denied never reaches the backend" apply.
		if denied && len(cmdPackets) != 0 {
			return fail("denied-reached-backend", "denied command was forwarded")
		}
		return verifkit.Result{Labels: labels}
	}
	checkContent := func() *verifkit.Result {
		got, _ := c22CommandOf(cmdPackets[0])
		if got != eff {
			r := fail("wrong-line", "backend received %q, want %q", got, eff)
			return &r
		}
		ok := false
		switch cmdPackets[0].(type) {
		case *chat.LegacyChat:
			ok = fam == "legacy"
		case *chat.KeyedPlayerCommand:
			ok = fam == "keyed"
		case *chat.SessionPlayerCommand:
			ok = fam == "session"
		case *chat.UnsignedPlayerCommand:
			ok = fam == "unsigned" || (fam == "session" && c.Protocol >= 766 && modified)
		}
		if !ok {
			r := fail("wrong-packet-type", "backend received %T", cmdPackets[0])
			return &r
		}
		if !modified {
			// unchanged: signatures, salt and timestamp must survive
			switch x := cmdPackets[0].(type) {
			case *chat.SessionPlayerCommand:
				o := sentCopy.(*chat.SessionPlayerCommand)
				if x.Salt != o.Salt || !x.Timestamp.Equal(o.Timestamp) || len(x.ArgumentSignatures.Entries) != len(o.ArgumentSignatures.Entries) || x.LastSeenMessages.Offset != o.LastSeenMessages.Offset {
					r := fail("not-unchanged", "forwarded %+v, sent %+v", x, o)
					return &r
				}
			case *chat.KeyedPlayerCommand:
				if (!c.KeyedUnsig && (x.Salt != 7 || len(x.Arguments) != 1)) || !x.Timestamp.Equal(ts) || x.Unsigned != c.KeyedUnsig {
					r := fail("not-unchanged", "forwarded %+v", x)
					return &r
				}
			}
		}
		return nil
	}
	switch want.mode {
	case "nothing":
		if len(cmdPackets) != 0 {
			return fail("denied-reached-backend", "denied command was forwarded")
		}
		if len(calls) != 0 {
			return fail("denied-executed", "denied command ran on the proxy")
		}
	case "backend":
		if len(calls) != 0 {
			return fail("executed-unexpectedly", "proxy ran %v", calls)
		}
		if len(cmdPackets) != 1 {
			return fail("not-forwarded", "backend did not receive the command")
		}
		if r := checkContent(); r != nil {
			return *r
		}
	case "proxy":
		if len(cmdPackets) != 0 {
			return fail("forwarded-unexpectedly", "backend received a command the proxy owns")
		}
		if want.callback != "" {
			if len(calls) != 1 || calls[0] != want.callback {
				return fail("not-executed", "want callback %q exactly once", want.callback)
			}
		} else if len(calls) != 0 {
			return fail("executed-unexpectedly", "proxy ran %v on an invalid line", calls)
		}
	case "either":
		if len(calls)+len(cmdPackets) > 1 {
			return fail("executed-and-forwarded", "both")
		}
		if len(cmdPackets) == 1 {
			if r := checkContent(); r != nil {
				return *r
			}
		}
	}
	nt := denied || forward || modified || want.class == "registered-not-permitted"
	return verifkit.Result{NonTrivial: nt, Labels: labels}
}

// ---------------------------------------------------------------- generator

var (
	c22Names   = []string{"hub", "server", "glist", "send", "find", "lobby", "party", "msg"}
	c22Subs    = []string{"list", "add", "remove", "info", "all"}
	c22PermSet = []string{"a", "b"}
	c22Protos  = map[string][]int{
		"legacy":   {47, 340, 754, 758},
		"keyed":    {759, 760},
		"session":  {761, 762, 765, 766, 770, 772},
		"unsigned": {766, 767, 770, 772, 776},
	}
)

func c22GenReq(t *rapid.T, label string) string {
	switch rapid.IntRange(0, 5).Draw(t, label) {
	case 0, 1, 2:
		return ""
	case 3:
		return "console"
	default:
		return "perm:" + rapid.SampledFrom(c22PermSet).Draw(t, label+"-perm")
	}
}

func c22GenArg(t *rapid.T, label string) *c22Arg {
	if rapid.IntRange(0, 2).Draw(t, label) == 0 {
		return nil
	}
	a := &c22Arg{Kind: rapid.SampledFrom([]string{"word", "int", "greedy"}).Draw(t, label+"-kind"), Exec: rapid.IntRange(0, 4).Draw(t, label+"-exec") != 0}
	if rapid.IntRange(0, 4).Draw(t, label+"-req") == 0 {
		a.Req = c22GenReq(t, label+"-reqv")
	}
	return a
}

// c22GenLine constructs a command line aimed at the registered tree.
func c22GenLine(t *rapid.T, cmds []c22Cmd, label string) string {
	kind := rapid.IntRange(0, 25).Draw(t, label+"-kind")
	switch kind {
	case 0:
		return "" // "/" alone
	case 1, 6, 7:
		return rapid.SampledFrom([]string{"spawn", "home now", "warp pvp 1", "gamemode creative", "plugins"}).Draw(t, label+"-unknown")
	}
	c := cmds[rapid.IntRange(0, len(cmds)-1).Draw(t, label+"-cmd")]
	names := append([]string{c.Name}, c.Aliases...)
	parts := []string{rapid.SampledFrom(names).Draw(t, label+"-name")}
	argTok := func(a *c22Arg) []string {
		switch a.Kind {
		case "int":
			return []string{rapid.SampledFrom([]string{"5", "-17", "2147483647", "abc", "99999999999"}).Draw(t, label+"-int")}
		case "word":
			return []string{rapid.SampledFrom([]string{"steve", "Alex_2", "x.y-z"}).Draw(t, label+"-word")}
		default:
			return strings.Split(rapid.SampledFrom([]string{"hello", "hello big world", "a b"}).Draw(t, label+"-greedy"), " ")
		}
	}
	depth := rapid.IntRange(0, 3).Draw(t, label+"-depth")
	if depth >= 1 {
		useSub := len(c.Subs) > 0 && (c.Arg == nil || rapid.Bool().Draw(t, label+"-useSub"))
		switch {
		case useSub:
			s := c.Subs[rapid.IntRange(0, len(c.Subs)-1).Draw(t, label+"-sub")]
			parts = append(parts, s.Name)
			if depth >= 2 && s.Arg != nil {
				parts = append(parts, argTok(s.Arg)...)
			} else if depth >= 2 {
				parts = append(parts, "extra")
			}
		case c.Arg != nil:
			parts = append(parts, argTok(c.Arg)...)
		default:
			parts = append(parts, rapid.SampledFrom([]string{"bogus", "extra"}).Draw(t, label+"-bogus"))
		}
		if depth == 3 {
			parts = append(parts, "trailing")
		}
	}
	line := strings.Join(parts, " ")
	switch kind {
	case 2:
		return " " + line
	case 3:
		return line + " "
	case 4:
		return strings.Replace(line, " ", "  ", 1)
	case 5:
		return strings.ToUpper(parts[0]) + strings.TrimPrefix(line, parts[0])
	case 24, 25:
		// the player typed an extra leading slash ("//wand"): exactly one slash is
		// the command prefix, the rest belongs to the command line
		return "/" + line
	}
	return line
}

func c22Gen(t *rapid.T) c22Case {
	c := c22Case{Family: rapid.SampledFrom([]string{"legacy", "keyed", "session", "unsigned"}).Draw(t, "family")}
	c.Protocol = rapid.SampledFrom(c22Protos[c.Family]).Draw(t, "protocol")
	c.ForceKey = rapid.Bool().Draw(t, "forceKey")
	c.PreRelease = rapid.Bool().Draw(t, "preRelease")
	c.Perms = []string{}
	for _, p := range c22PermSet {
		if rapid.Bool().Draw(t, "has-"+p) {
			c.Perms = append(c.Perms, p)
		}
	}
	used := map[string]bool{}
	pick := func(label string) (string, bool) {
		var free []string
		for _, n := range c22Names {
			if !used[n] {
				free = append(free, n)
			}
		}
		if len(free) == 0 {
			return "", false
		}
		n := rapid.SampledFrom(free).Draw(t, label)
		used[n] = true
		return n, true
	}
	n := rapid.IntRange(1, 3).Draw(t, "ncmds")
	for i := 0; i < n; i++ {
		name, _ := pick("cmd")
		cmd := c22Cmd{Name: name, Req: c22GenReq(t, "cmdreq"), Exec: rapid.IntRange(0, 3).Draw(t, "cmdexec") != 0}
		for k := rapid.IntRange(0, 2).Draw(t, "naliases") - 1; k > 0; k-- {
			if a, ok := pick("alias"); ok {
				cmd.Aliases = append(cmd.Aliases, a)
			}
		}
		ns := rapid.IntRange(0, 2).Draw(t, "nsubs")
		su := map[string]bool{}
		for k := 0; k < ns; k++ {
			sn := rapid.SampledFrom(c22Subs).Draw(t, "sub")
			if su[sn] {
				continue
			}
			su[sn] = true
			s := c22Sub{Name: sn, Exec: rapid.IntRange(0, 3).Draw(t, "subexec") != 0, Arg: c22GenArg(t, "subarg")}
			if rapid.IntRange(0, 2).Draw(t, "subHasReq") == 0 {
				s.Req = c22GenReq(t, "subreq")
			}
			cmd.Subs = append(cmd.Subs, s)
		}
		cmd.Arg = c22GenArg(t, "cmdarg")
		c.Cmds = append(c.Cmds, cmd)
	}
	c.Line = c22GenLine(t, c.Cmds, "line")
	switch c.Family {
	case "keyed":
		c.KeyedUnsig = rapid.Bool().Draw(t, "keyedUnsigned")
	case "session":
		c.ArgSigs = rapid.IntRange(0, 3).Draw(t, "argSigs") == 0
		c.Offset = rapid.IntRange(0, 3).Draw(t, "offset")
	}
	switch rapid.IntRange(0, 19).Draw(t, "event") {
	case 0, 1, 2, 3, 4:
		c.Event = c22Event{Subscribed: false}
	case 5, 6:
		c.Event = c22Event{Subscribed: true}
	case 7, 8, 9:
		c.Event = c22Event{Subscribed: true, Deny: true}
	case 10, 11, 12:
		c.Event = c22Event{Subscribed: true, Forward: true}
	case 13, 14, 15, 16:
		c.Event = c22Event{Subscribed: true, Modify: true, NewLine: c22GenLine(t, c.Cmds, "newline")}
	case 17, 18:
		c.Event = c22Event{Subscribed: true, Modify: true, Forward: true, NewLine: c22GenLine(t, c.Cmds, "newline")}
	default:
		c.Event = c22Event{Subscribed: true, Deny: true, Forward: true, Modify: rapid.Bool().Draw(t, "denyModify"), NewLine: "hub"}
	}
	return c
}

func TestVerif_C22(t *testing.T) {
	verifkit.Check(t, "C22", "dispatch",
		"one command packet per case through clientPlaySessionHandler.HandlePacket for 4 protocol families (legacy chat '/', keyed 1.19-1.19.2 signed/unsigned, session 1.19.3+ with/without argument signatures, unsigned 1.20.5+) x generated proxy command trees (1-3 commands, aliases, subcommands, word/int/greedy arguments, per-node requirement none/console/permission) x player permission sets x command lines constructed against the tree (valid paths, unknown, not permitted, bad/missing/trailing arguments, empty, odd whitespace, upper case) x event outcome (none/allow/deny/forward/modify/modify+forward/deny+forward) x forceKeyAuthentication x callback released before/after handling; oracle = independent evaluation of the line over the tree spec; non-trivial = event outcome other than plain allow, or command registered but not permitted",
		c22Gen, c22Run)
}
