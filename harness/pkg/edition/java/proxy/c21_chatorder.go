//go:build verif

package proxy

import (
	"context"
	"errors"
	"fmt"
	"net"
	"runtime"
	"sync"
	"testing"
	"time"

	"github.com/go-logr/logr"
	"github.com/robinbraemer/event"
	"go.minekube.com/brigodier"
	"pgregory.net/rapid"

	"go.minekube.com/gate/pkg/command"
	"go.minekube.com/gate/pkg/edition/java/config"
	"go.minekube.com/gate/pkg/edition/java/netmc"
	"go.minekube.com/gate/pkg/edition/java/profile"
	"go.minekube.com/gate/pkg/edition/java/proto/packet/chat"
	"go.minekube.com/gate/pkg/edition/java/proto/state"
	"go.minekube.com/gate/pkg/edition/java/proxy/phase"
	"go.minekube.com/gate/pkg/gate/proto"
	"go.minekube.com/gate/pkg/internal/verifkit"
	"go.minekube.com/gate/pkg/util/permission"
	"go.minekube.com/gate/pkg/util/uuid"
)

// C21: secure-chat packets of a 1.19.3+ client keep the client's order on the
// backend connection and acknowledgements are conserved:
//   A_b <= A_c, A_c - A_b < 40, A_b == A_c right after a forwarded packet that
//   carries a last-seen update; unsigned commands neither carry nor flush.
//
// One case = a client history (chat / signed command / unsigned command / ack)
// plus a schedule script. The driver goroutine plays the read loop: it calls the
// real clientPlaySessionHandler.HandlePacket for every client packet in order.
// Proxy command callbacks block on per-command gates; the script releases gates
// between sends, inside CommandExecuteEvent subscribers (slow plugin while
// earlier commands complete) or not at all until the end, so later client packets
// are queued behind commands that are still executing. The final verdict is
// taken after all gates are open and the tail of the chat queue's future chain
// has completed; it is a function of the recorded backend packet sequence only.

// ---------------------------------------------------------------- case

type c21Item struct {
	Kind    string `json:"kind"` // "chat" | "scmd" | "ucmd" | "ack"
	Offset  int    `json:"offset"`
	ArgSigs bool   `json:"arg_sigs,omitempty"`
	// Outcome (commands): "unknown" (not a proxy command => backend) | "forward"
	// (event SetForward) | "deny" | "proxy" (registered, runs) | "proxy-error"
	// (registered, callback returns an error) | "rewrite" (event SetCommand to an
	// unknown command) | "rewrite-forward" (SetCommand + SetForward)
	// Outcome (chat): "" (untouched) | "rewrite" (PlayerChatEvent.SetMessage) |
	// "deny" (PlayerChatEvent.SetAllowed(false))
	Outcome string `json:"outcome,omitempty"`
}

type c21Step struct {
	Op     string `json:"op"` // "send" | "release" | "drain" | "yield"
	Item   int    `json:"item"`
	During []int  `json:"during,omitempty"` // send of a command: gates released inside the event subscriber
}

type c21Case struct {
	Protocol int       `json:"protocol"`
	ForceKey bool      `json:"force_key_auth"`
	Sync     bool      `json:"sync"` // every gate pre-released, drain after every send (exact per-item accounting)
	// SlowAcks (async histories only): the backend's socket is slow for forwarded
	// ChatAcknowledgement packets - such a write completes only after the client's
	// next packet has been handed to the proxy. The queue must hold that packet back.
	SlowAcks bool `json:"slow_acks,omitempty"`
	Items    []c21Item `json:"items"`
	Steps    []c21Step `json:"steps"`
}

// ---------------------------------------------------------------- fake conn

type c21Conn struct {
	mu       sync.Mutex
	packets  []proto.Packet
	protocol proto.Protocol
	ctx      context.Context
	cancel   context.CancelFunc
	holdAcks bool            // guarded by mu
	heldAcks []chan struct{} // guarded by mu
}

func c21NewConn(p proto.Protocol) *c21Conn {
	c := &c21Conn{protocol: p}
	c.ctx, c.cancel = context.WithCancel(context.Background())
	return c
}

func (c *c21Conn) Context() context.Context                                      { return c.ctx }
func (c *c21Conn) Close() error                                                  { c.cancel(); return nil }
func (c *c21Conn) State() *state.Registry                                        { return state.Play }
func (c *c21Conn) Protocol() proto.Protocol                                      { return c.protocol }
func (c *c21Conn) RemoteAddr() net.Addr                                          { return &net.TCPAddr{} }
func (c *c21Conn) LocalAddr() net.Addr                                           { return &net.TCPAddr{} }
func (c *c21Conn) Type() phase.ConnectionType                                    { return phase.Vanilla }
func (c *c21Conn) SetType(phase.ConnectionType)                                  {}
func (c *c21Conn) ActiveSessionHandler() netmc.SessionHandler                    { return nil }
func (c *c21Conn) SetActiveSessionHandler(*state.Registry, netmc.SessionHandler) {}
func (c *c21Conn) SwitchSessionHandler(*state.Registry) bool                     { return true }
func (c *c21Conn) AddSessionHandler(*state.Registry, netmc.SessionHandler)       {}
func (c *c21Conn) SetAutoReading(bool)                                           {}
func (c *c21Conn) SetProtocol(proto.Protocol)                                    {}
func (c *c21Conn) SetState(*state.Registry)                                      {}
func (c *c21Conn) SetOutboundState(*state.Registry)                              {}
func (c *c21Conn) SetCompressionThreshold(int) error                             { return nil }
func (c *c21Conn) EnableEncryption([]byte) error                                 { return nil }
func (c *c21Conn) WritePacket(p proto.Packet) error {
	if _, isAck := p.(*chat.ChatAcknowledgement); isAck {
		// a backend whose socket is slow: the write of a forwarded acknowledgement
		// completes only when the harness lets it
		c.mu.Lock()
		hold := c.holdAcks
		var gate chan struct{}
		if hold {
			gate = make(chan struct{})
			c.heldAcks = append(c.heldAcks, gate)
		}
		c.mu.Unlock()
		if gate != nil {
			// (bounded: a caller that writes from the packet handler itself is only delayed)
			select {
			case <-gate:
			case <-time.After(5 * time.Millisecond):
			}
		}
	}
	c.mu.Lock()
	c.packets = append(c.packets, p)
	c.mu.Unlock()
	return nil
}

// releaseAcks lets every held acknowledgement write complete.
func (c *c21Conn) releaseAcks() int {
	c.mu.Lock()
	gates := c.heldAcks
	c.heldAcks = nil
	c.mu.Unlock()
	for _, g := range gates {
		close(g)
	}
	return len(gates)
}
func (c *c21Conn) Write([]byte) error                { return nil }
func (c *c21Conn) BufferPacket(p proto.Packet) error { return c.WritePacket(p) }
func (c *c21Conn) BufferPayload([]byte) error        { return nil }
func (c *c21Conn) Flush() error                      { return nil }
func (c *c21Conn) Reader() netmc.Reader              { return nil }
func (c *c21Conn) Writer() netmc.Writer              { return nil }
func (c *c21Conn) EnablePlayPacketQueue()            {}
func (c *c21Conn) written() []proto.Packet {
	c.mu.Lock()
	defer c.mu.Unlock()
	return append([]proto.Packet(nil), c.packets...)
}

var _ netmc.MinecraftConn = (*c21Conn)(nil)

// ---------------------------------------------------------------- spec helpers

func c21IsCmd(k string) bool { return k == "scmd" || k == "ucmd" }

func c21IsProxy(it c21Item) bool {
	return c21IsCmd(it.Kind) && (it.Outcome == "proxy" || it.Outcome == "proxy-error")
}

// c21Line is the text the client sends for item i (unique per item).
func c21Line(i int, it c21Item) string {
	switch {
	case it.Kind == "chat":
		return fmt.Sprintf("m%d", i)
	case c21IsProxy(it):
		return fmt.Sprintf("p%d", i)
	default:
		return fmt.Sprintf("c%d", i)
	}
}

func c21Rewritten(i int) string { return fmt.Sprintf("r%d", i) }

// c21Kicks: the proxy disconnects the player (forceKeyAuthentication guard) when a
// command with argument signatures is consumed or rewritten.
func c21Kicks(c c21Case, it c21Item) bool {
	if c.ForceKey && it.Kind == "chat" && it.Outcome != "" {
		return true // every generated chat is signed: a plugin may neither change nor cancel it
	}
	if !c.ForceKey || it.Kind != "scmd" || !it.ArgSigs {
		return false
	}
	switch it.Outcome {
	case "deny", "proxy", "rewrite", "rewrite-forward":
		return true
	}
	return false
}

// c21Class names what the proxy does with the acknowledgements an item carries;
// used only to give arithmetic failures a stable root-cause key.
func c21Class(it c21Item, protocol int) string {
	switch it.Kind {
	case "chat":
		switch it.Outcome {
		case "rewrite":
			return "rewritten-chat"
		case "deny":
			return "denied-chat"
		}
		return "chat"
	case "ack":
		return "ack"
	case "ucmd":
		return "unsigned-command"
	}
	switch it.Outcome {
	case "unknown", "forward":
		return "forwarded-command"
	case "rewrite", "rewrite-forward":
		if protocol >= 766 {
			// 1.20.5+: a rewritten command can only be sent as an unsigned command
			// packet, which has no last-seen field (separate root cause).
			return "rewritten-signed-command-1.20.5+"
		}
		return "rewritten-command"
	case "proxy-error":
		return "command-error"
	}
	if it.ArgSigs {
		return "consumed-with-argument-signatures"
	}
	return "consumed-command"
}

// c21Blame picks the first item in (from, to] (1-based item numbers) that may have
// swallowed acknowledgements.
func c21Blame(items []c21Item, from, to int, protocol int) string {
	// A 1.20.5+ rewritten signed command in the window always loses its offset
	// (recorded known finding); every later arithmetic failure of the window
	// follows from it, so it is blamed first to keep the key stable.
	for k := from + 1; k <= to && k <= len(items); k++ {
		if cl := c21Class(items[k-1], protocol); cl == "rewritten-signed-command-1.20.5+" {
			return cl
		}
	}
	for pass := 0; pass < 2; pass++ {
		for k := from + 1; k <= to && k <= len(items); k++ {
			cl := c21Class(items[k-1], protocol)
			switch cl {
			case "rewritten-command", "rewritten-signed-command-1.20.5+", "command-error", "consumed-with-argument-signatures", "rewritten-chat", "denied-chat":
				return cl
			case "consumed-command", "unsigned-command":
				if pass == 1 {
					return cl
				}
			}
		}
	}
	return "unattributed"
}

// ---------------------------------------------------------------- run

func c21ValidScript(c c21Case) bool {
	n := len(c.Items)
	next := 0
	released := map[int]bool{}
	pending := map[int]bool{}
	rel := func(j int) bool {
		if j < 0 || j >= n || !c21IsProxy(c.Items[j]) {
			return false
		}
		released[j] = true
		delete(pending, j)
		return true
	}
	for _, s := range c.Steps {
		switch s.Op {
		case "send":
			if s.Item != next {
				return false
			}
			for _, j := range s.During {
				if !rel(j) {
					return false
				}
			}
			if c21IsProxy(c.Items[next]) && !released[next] {
				pending[next] = true
			}
			next++
		case "release":
			if !rel(s.Item) {
				return false
			}
		case "drain":
			if len(pending) != 0 {
				return false
			}
		case "yield":
		default:
			return false
		}
	}
	return next == n
}

func c21Run(c c21Case) verifkit.Result {
	if c.Protocol < 761 || !c21ValidScript(c) {
		return verifkit.Result{Inconclusive: true, Labels: []string{"invalid-case"}}
	}
	for i, it := range c.Items {
		if it.Offset < 0 || (it.Kind == "ucmd" && c.Protocol < 766) {
			return verifkit.Result{Inconclusive: true, Labels: []string{"invalid-case"}}
		}
		if c21Kicks(c, it) && i != len(c.Items)-1 {
			// a kicked client sends nothing afterwards
			return verifkit.Result{Inconclusive: true, Labels: []string{"invalid-case"}}
		}
	}
	protocol := proto.Protocol(c.Protocol)
	n := len(c.Items)

	mgr := event.New()
	prx := &Proxy{cfg: &config.Config{ForceKeyAuthentication: c.ForceKey}, log: logr.Discard(), event: mgr}

	// gates + proxy commands
	gates := make([]chan struct{}, n)
	onces := make([]sync.Once, n)
	release := func(j int) { onces[j].Do(func() { close(gates[j]) }) }
	var recMu sync.Mutex
	var callbackOrder []int
	byLine := map[string]int{}
	for i, it := range c.Items {
		gates[i] = make(chan struct{})
		if it.Kind == "ack" {
			continue
		}
		byLine[c21Line(i, it)] = i
		if c21IsProxy(it) {
			i, it := i, it
			prx.command.Register(brigodier.Literal(c21Line(i, it)).Executes(command.Command(func(*command.Context) error {
				recMu.Lock()
				callbackOrder = append(callbackOrder, i)
				recMu.Unlock()
				<-gates[i]
				if it.Outcome == "proxy-error" {
					return errors.New("c21: command failed")
				}
				return nil
			})))
		}
	}
	var curDuring []int
	event.Subscribe(mgr, 0, func(e *CommandExecuteEvent) {
		i, ok := byLine[e.Command()]
		if !ok {
			return
		}
		for _, j := range curDuring { // slow plugin: earlier commands complete meanwhile
			release(j)
			runtime.Gosched()
		}
		switch c.Items[i].Outcome {
		case "deny":
			e.SetAllowed(false)
		case "forward":
			e.SetForward(true)
		case "rewrite":
			e.SetCommand(c21Rewritten(i))
		case "rewrite-forward":
			e.SetCommand(c21Rewritten(i))
			e.SetForward(true)
		}
	})

	event.Subscribe(mgr, 0, func(e *PlayerChatEvent) {
		i, ok := byLine[e.Original()]
		if !ok || c.Items[i].Kind != "chat" {
			return
		}
		switch c.Items[i].Outcome {
		case "rewrite":
			e.SetMessage(c21Rewritten(i))
		case "deny":
			e.SetAllowed(false)
		}
	})

	client := c21NewConn(protocol)
	backend := c21NewConn(protocol)
	player := &connectedPlayer{
		MinecraftConn:      client,
		log:                logr.Discard(),
		sessionHandlerDeps: &sessionHandlerDeps{proxy: prx, eventMgr: mgr, configProvider: prx},
		profile:            &profile.GameProfile{ID: uuid.UUID{0xC2, 0x10}, Name: "c21"},
		permFunc:           func(string) permission.TriState { return permission.Undefined },
	}
	player.chatQueue = newChatQueue(player)
	sc := &serverConnection{player: player, log: logr.Discard()}
	sc.connection = backend
	player.connectedServer_ = sc
	h := newClientPlaySessionHandler(player)

	waitTail := func() {
		cq := player.chatQueue
		cq.internalLock.Lock()
		tail := cq.head
		cq.internalLock.Unlock()
		done := make(chan struct{})
		tail.ThenAccept(func(any) { close(done) })
		<-done
	}

	base := time.UnixMilli(1_700_000_000_000)
	mkPacket := func(i int) proto.Packet {
		it := c.Items[i]
		ts := base.Add(time.Duration(i) * time.Millisecond)
		switch it.Kind {
		case "chat":
			return &chat.SessionPlayerChat{Message: c21Line(i, it), Timestamp: ts, Salt: int64(i + 1), Signed: true, Signature: make([]byte, 256),
				LastSeenMessages: chat.LastSeenMessages{Offset: it.Offset}}
		case "scmd":
			p := &chat.SessionPlayerCommand{Command: c21Line(i, it), Timestamp: ts, LastSeenMessages: chat.LastSeenMessages{Offset: it.Offset}}
			if it.ArgSigs {
				p.Salt = int64(i + 1)
				p.ArgumentSignatures.Entries = []chat.ArgumentSignature{{Name: "msg", Signature: make([]byte, 256)}}
			}
			return p
		case "ucmd":
			return &chat.UnsignedPlayerCommand{SessionPlayerCommand: chat.SessionPlayerCommand{Command: c21Line(i, it)}}
		default:
			return &chat.ChatAcknowledgement{Offset: it.Offset}
		}
	}

	snapshot := make([]int, n+1) // sync mode: backend packets written after item k (1-based) was fully processed
	for k := range snapshot {
		snapshot[k] = -1
	}
	overlap := false
	slowAcks := c.SlowAcks && !c.Sync
	heldAck := false
	if slowAcks {
		backend.mu.Lock()
		backend.holdAcks = true
		backend.mu.Unlock()
	}
	wr := verifkit.Watch(15*time.Second, "proxy.", func() {
		sent := 0
		pending := map[int]bool{}
		for _, s := range c.Steps {
			switch s.Op {
			case "send":
				if len(pending) != 0 {
					overlap = true
				}
				curDuring = s.During
				h.HandlePacket(&proto.PacketContext{Direction: proto.ServerBound, Protocol: protocol, Packet: mkPacket(s.Item)})
				curDuring = nil
				if slowAcks {
					// give whatever the proxy started for this packet a chance to run while an
					// earlier acknowledgement is still being written, then let the writes finish
					for y := 0; y < 50; y++ {
						runtime.Gosched()
					}
					time.Sleep(200 * time.Microsecond)
					if backend.releaseAcks() > 0 {
						heldAck = true
					}
				}
				for _, j := range s.During {
					delete(pending, j)
				}
				select {
				case <-gates[s.Item]:
				default:
					if c21IsProxy(c.Items[s.Item]) {
						pending[s.Item] = true
					}
				}
				sent++
			case "release":
				release(s.Item)
				delete(pending, s.Item)
			case "drain":
				backend.releaseAcks()
				waitTail()
				if sent > 0 {
					snapshot[sent] = len(backend.written())
				}
			case "yield":
				runtime.Gosched()
			}
		}
		for j := range gates {
			release(j)
		}
		// (a write may be handed to the backend only now: keep releasing until the tail is done)
		stop := make(chan struct{})
		go func() {
			for {
				select {
				case <-stop:
					return
				default:
					backend.releaseAcks()
					time.Sleep(100 * time.Microsecond)
				}
			}
		}()
		waitTail()
		close(stop)
		backend.releaseAcks()
	})
	switch wr.Outcome {
	case verifkit.Panicked:
		return verifkit.Fail("panic:chat-queue", "%v\n%s", wr.PanicValue, wr.PanicStack)
	case verifkit.Deadlocked:
		for j := range gates {
			release(j)
		}
		return verifkit.Fail("deadlock:chat-queue", "chat queue never drained:\n%s", wr.Stack)
	case verifkit.Slow:
		for j := range gates {
			release(j)
		}
		return verifkit.Result{Inconclusive: true, Labels: []string{"slow"}}
	}
	mgr.Wait()

	// ---------------- oracle over the recorded backend sequence
	B := backend.written()
	kicked := client.ctx.Err() != nil
	labels := []string{fmt.Sprintf("protocol:%d", c.Protocol)}
	if c.Sync {
		labels = append(labels, "sync")
	} else {
		labels = append(labels, "async")
	}
	if overlap {
		labels = append(labels, "send-while-command-running")
	}
	if kicked {
		labels = append(labels, "player-kicked")
	}
	if heldAck {
		labels = append(labels, "ack-write-held-across-next-packet")
	}
	classes := map[string]bool{}
	for _, it := range c.Items {
		classes[c21Class(it, c.Protocol)] = true
	}
	for cl := range map[string]bool{"rewritten-command": true, "rewritten-signed-command-1.20.5+": true, "command-error": true, "consumed-with-argument-signatures": true, "consumed-command": true, "unsigned-command": true, "rewritten-chat": true, "denied-chat": true} {
		if classes[cl] {
			labels = append(labels, "has:"+cl)
		}
	}
	res := func(v *verifkit.Violation) verifkit.Result { return verifkit.Result{V: v, Labels: labels} }

	Ac := make([]int, n+1) // Ac[k] = offsets the client sent in its first k packets
	for i, it := range c.Items {
		Ac[i+1] = Ac[i]
		if it.Kind != "ucmd" {
			Ac[i+1] += it.Offset
		}
	}
	rewrittenOf := map[string]int{}
	for i, it := range c.Items {
		if (c21IsCmd(it.Kind) || it.Kind == "chat") && (it.Outcome == "rewrite" || it.Outcome == "rewrite-forward") {
			rewrittenOf[c21Rewritten(i)] = i
		}
	}
	// identify
	type bp struct {
		item     int // 0-based client item, -1 = proxy-made acknowledgement
		offset   int
		lastSeen bool // carries a last-seen update
	}
	var seq []bp
	seenItem := map[int]bool{}
	for _, p := range B {
		var text string
		e := bp{item: -1}
		switch x := p.(type) {
		case *chat.ChatAcknowledgement:
			e.offset = x.Offset
			seq = append(seq, e)
			continue
		case *chat.SessionPlayerChat:
			text, e.offset, e.lastSeen = x.Message, x.LastSeenMessages.Offset, true
		case *chat.SessionPlayerCommand:
			text, e.offset, e.lastSeen = x.Command, x.LastSeenMessages.Offset, true
		case *chat.UnsignedPlayerCommand:
			text = x.Command
		default:
			return res(verifkit.Violationf("foreign-packet", "backend received %T", p))
		}
		i, ok := byLine[text]
		if !ok {
			i, ok = rewrittenOf[text]
		}
		if !ok {
			return res(verifkit.Violationf("foreign-packet", "backend received %T %q which the client never sent", p, text))
		}
		if seenItem[i] {
			return res(verifkit.Violationf("duplicate-packet", "client packet #%d (%q) reached the backend twice", i+1, text))
		}
		seenItem[i] = true
		e.item = i
		if c.Items[i].Kind == "ucmd" && e.lastSeen {
			return res(verifkit.Violationf("unsigned-carries-lastseen", "unsigned command #%d was forwarded as %T with a last-seen update (offset %d)", i+1, p, e.offset))
		}
		seq = append(seq, e)
	}
	// order
	last := -1
	for _, e := range seq {
		if e.item < 0 {
			continue
		}
		if e.item < last {
			return res(verifkit.Violationf("reordered", "client packet #%d reached the backend after #%d", e.item+1, last+1))
		}
		last = e.item
	}
	// acknowledgement arithmetic
	Ab := 0
	okItem := 0 // 1-based item up to which conservation was verified
	flushCarried := false
	lost := func(detectItem int, why string) verifkit.Result {
		cl := c21Blame(c.Items, okItem, detectItem, c.Protocol)
		return res(verifkit.Violationf("ack-lost:"+cl, "%s (window: client packets #%d..#%d; history %+v; backend %v)", why, okItem+1, detectItem, c.Items, c21Describe(B)))
	}
	for idx, e := range seq {
		Ab += e.offset
		if e.item < 0 {
			// proxy-made acknowledgement: it can only stem from client packets before the next identified one
			bound := n
			for _, f := range seq[idx+1:] {
				if f.item >= 0 {
					bound = f.item // items strictly before f (0-based index == count)
					break
				}
			}
			if Ab > Ac[bound] {
				return res(verifkit.Violationf("ack-exceeds", "backend was told %d acknowledgements but the client had acknowledged only %d by then (backend %v)", Ab, Ac[bound], c21Describe(B)))
			}
			continue
		}
		k := e.item + 1
		if Ab > Ac[k] {
			return res(verifkit.Violationf("ack-exceeds", "after client packet #%d the backend was told %d acknowledgements, client acknowledged %d (backend %v)", k, Ab, Ac[k], c21Describe(B)))
		}
		if e.lastSeen {
			if Ab != Ac[k] {
				return lost(k, fmt.Sprintf("forwarded packet #%d carries a last-seen update but the backend total is %d, client total %d", k, Ab, Ac[k]))
			}
			if e.offset > c.Items[e.item].Offset {
				flushCarried = true
			}
			okItem = k
		} else if Ac[k]-Ab >= 40 {
			if cl := c21Blame(c.Items, okItem, k, c.Protocol); cl != "unattributed" && cl != "unsigned-command" && cl != "consumed-command" {
				return lost(k, fmt.Sprintf("backend lags by %d at client packet #%d", Ac[k]-Ab, k))
			}
			return res(verifkit.Violationf("lag-40", "backend lags the client by %d acknowledgements at client packet #%d", Ac[k]-Ab, k))
		}
	}
	if !kicked && Ac[n]-Ab >= 40 {
		if cl := c21Blame(c.Items, okItem, n, c.Protocol); cl != "unattributed" && cl != "unsigned-command" && cl != "consumed-command" {
			return lost(n, fmt.Sprintf("backend lags by %d at the end", Ac[n]-Ab))
		}
		return res(verifkit.Violationf("lag-40", "backend lags the client by %d acknowledgements after the whole history", Ac[n]-Ab))
	}
	if c.Sync {
		// exact per-item accounting
		prev := 0
		prevAb := 0
		for k := 1; k <= n; k++ {
			if snapshot[k] < 0 {
				continue
			}
			ab := 0
			for _, e := range seq[:min(snapshot[k], len(seq))] {
				ab += e.offset
			}
			it := c.Items[k-1]
			if it.Kind == "ucmd" && prev == k-1 {
				if ab != prevAb {
					return res(verifkit.Violationf("unsigned-flushes-acks", "unsigned command #%d changed the backend's acknowledgement total from %d to %d", k, prevAb, ab))
				}
			}
			if ab > Ac[k] {
				return res(verifkit.Violationf("ack-exceeds", "after client packet #%d: backend %d > client %d", k, ab, Ac[k]))
			}
			if Ac[k]-ab >= 40 && !(kicked && k == n) {
				if cl := c21Blame(c.Items, 0, k, c.Protocol); cl != "unattributed" && cl != "unsigned-command" && cl != "consumed-command" {
					continue // reported (or not) by the conservation clause above with its own key
				}
				return res(verifkit.Violationf("lag-40", "after client packet #%d the backend lags by %d", k, Ac[k]-ab))
			}
			prev, prevAb = k, ab
		}
	}
	if flushCarried {
		labels = append(labels, "held-acks-flushed-by-last-seen-packet")
	}
	for _, e := range seq {
		if e.item < 0 {
			labels = append(labels, "proxy-made-ack")
			break
		}
	}
	return verifkit.Result{NonTrivial: flushCarried || overlap, Labels: labels}
}

func c21Describe(B []proto.Packet) []string {
	var out []string
	for _, p := range B {
		switch x := p.(type) {
		case *chat.ChatAcknowledgement:
			out = append(out, fmt.Sprintf("ack(%d)", x.Offset))
		case *chat.SessionPlayerChat:
			out = append(out, fmt.Sprintf("chat[%s](%d)", x.Message, x.LastSeenMessages.Offset))
		case *chat.SessionPlayerCommand:
			out = append(out, fmt.Sprintf("scmd[%s](%d)", x.Command, x.LastSeenMessages.Offset))
		case *chat.UnsignedPlayerCommand:
			out = append(out, fmt.Sprintf("ucmd[%s]", x.Command))
		default:
			out = append(out, fmt.Sprintf("%T", p))
		}
	}
	return out
}

// ---------------------------------------------------------------- generator

func c21Gen(t *rapid.T) c21Case {
	c := c21Case{
		Protocol: rapid.SampledFrom([]int{761, 765, 766, 770, 772}).Draw(t, "protocol"),
		ForceKey: rapid.Bool().Draw(t, "forceKey"),
		Sync:     rapid.IntRange(0, 3).Draw(t, "sync") == 0,
		SlowAcks: rapid.IntRange(0, 2).Draw(t, "slowAcks") == 0,
	}
	// profile: most histories avoid the outcomes for which findings are already known, so the rest of the space stays explored
	risky := rapid.IntRange(0, 9).Draw(t, "risky") < 3
	n := rapid.IntRange(1, 14).Draw(t, "n")
	genOffset := func(label string, big bool) int {
		if big {
			return rapid.SampledFrom([]int{0, 1, 2, 5, 15, 19, 20, 21, 25, 39, 40, 41, 64}).Draw(t, label)
		}
		return rapid.SampledFrom([]int{0, 0, 1, 1, 2, 3, 5, 9}).Draw(t, label)
	}
	for i := 0; i < n; i++ {
		var it c21Item
		kinds := []string{"chat", "chat", "scmd", "scmd", "ack", "ack", "ack"}
		if c.Protocol >= 766 {
			kinds = append(kinds, "ucmd", "ucmd")
		}
		it.Kind = rapid.SampledFrom(kinds).Draw(t, "kind")
		switch it.Kind {
		case "chat":
			it.Offset = genOffset("offset", false)
			it.Outcome = rapid.SampledFrom([]string{"", "", "", "", "rewrite", "deny"}).Draw(t, "chatOutcome")
		case "ack":
			it.Offset = genOffset("ackOffset", true)
		case "scmd", "ucmd":
			if it.Kind == "scmd" {
				it.Offset = genOffset("offset", false)
			}
			outs := []string{"unknown", "forward", "deny", "proxy", "proxy", "proxy"}
			if risky {
				outs = append(outs, "proxy-error", "rewrite", "rewrite-forward")
			}
			it.Outcome = rapid.SampledFrom(outs).Draw(t, "outcome")
			if it.Kind == "scmd" && (risky || it.Outcome == "unknown" || it.Outcome == "forward") {
				it.ArgSigs = rapid.IntRange(0, 3).Draw(t, "argSigs") == 0
			}
		}
		c.Items = append(c.Items, it)
		if c21Kicks(c, it) {
			break // the proxy kicks the player here; a kicked client sends nothing more
		}
	}
	n = len(c.Items)
	if c.Sync {
		for i, it := range c.Items {
			if c21IsProxy(it) {
				c.Steps = append(c.Steps, c21Step{Op: "release", Item: i})
			}
		}
		for i := range c.Items {
			c.Steps = append(c.Steps, c21Step{Op: "send", Item: i}, c21Step{Op: "drain"})
		}
		return c
	}
	// asynchronous schedule
	var pending []int // sent proxy commands whose gate is still closed
	released := map[int]bool{}
	takeSome := func(label string) []int {
		var out, keep []int
		for _, j := range pending {
			if rapid.Bool().Draw(t, label) {
				out = append(out, j)
				released[j] = true
			} else {
				keep = append(keep, j)
			}
		}
		pending = keep
		return out
	}
	for i, it := range c.Items {
		switch rapid.IntRange(0, 5).Draw(t, "before") {
		case 0:
			for _, j := range takeSome("rel") {
				c.Steps = append(c.Steps, c21Step{Op: "release", Item: j})
			}
		case 1:
			c.Steps = append(c.Steps, c21Step{Op: "yield"})
		case 2:
			if len(pending) == 0 {
				c.Steps = append(c.Steps, c21Step{Op: "drain"})
			}
		}
		if c21IsProxy(it) && rapid.IntRange(0, 3).Draw(t, "prerelease") == 0 {
			c.Steps = append(c.Steps, c21Step{Op: "release", Item: i})
			released[i] = true
		}
		st := c21Step{Op: "send", Item: i}
		if c21IsCmd(it.Kind) && len(pending) > 0 && rapid.IntRange(0, 2).Draw(t, "during") == 0 {
			st.During = takeSome("relDuring")
		}
		c.Steps = append(c.Steps, st)
		if c21IsProxy(it) && !released[i] {
			pending = append(pending, i)
		}
	}
	return c
}

func TestVerif_C21(t *testing.T) {
	verifkit.Check(t, "C21", "history",
		"client histories of 1..14 packets over {signed chat(offset; untouched, rewritten or denied by a PlayerChatEvent subscriber), signed command(offset, with/without argument signatures), unsigned command (1.20.5+), ack(offset incl. 0,19..21,39..41,64)} on protocols 1.19.3/1.20.3/1.20.5/1.21.5/1.21.7, command outcome in {unknown=>backend, event forward, event deny, proxy command, proxy command returning an error, event rewrite, rewrite+forward} (30% of histories contain the last three / consumed commands with argument signatures), forceKeyAuthentication on/off; schedule script: proxy-command callbacks block on gates released between later sends, inside later CommandExecuteEvent subscribers, before the send, or only at the end; a third of the asynchronous histories run against a backend whose writes of forwarded acknowledgements complete only after the client's next packet was handed to the proxy; 25% synchronous histories (drain after every packet) get exact per-packet accounting; verdict from the recorded backend sequence after the future chain's tail completed; non-trivial = a forwarded last-seen packet carried held acknowledgements, or a packet was sent while an earlier command was still executing",
		c21Gen, c21Run)
}
