//go:build verif

package proxy

// C44, sub-check "player-session": the teardown clause for the connections of a
// whole player session. The main C44 check works on one netmc connection; here a
// player joins through the real Proxy.HandleConn (rig of C15), optionally
// exchanges a few packets, the backend goes quiet and the client leaves. The
// proxy must tear the player down exactly once and close the backend connection
// itself: its socket is closed by the proxy, the server's player list is empty and
// the player is no longer registered - also when the backend sends nothing that
// would make its read loop notice.

import (
	"fmt"
	"testing"

	"pgregory.net/rapid"

	"go.minekube.com/gate/pkg/internal/verifkit"
)

type c44sCase struct {
	Protocol   int  `json:"protocol"`
	ClientThr  int  `json:"client_thr"`
	BackendThr int  `json:"backend_thr"`
	Chatter    int  `json:"chatter"` // packets each side sends before the backend goes quiet
	Encrypted  bool `json:"encrypted"`
}

func c44sRun(c c44sCase) verifkit.Result {
	opts := c15RigOpts{
		Protocol: c.Protocol, ClientThr: c.ClientThr, ProxyLevel: -1, ClientLevel: -1, BackendLevel: -1,
		Backends: []c15BackendSpec{{Name: "alpha", Scripts: []c15Script{{Thr: c.BackendThr}}}},
		Try:      []string{"alpha"},
	}
	if c.Encrypted {
		opts.ClientSecret = []byte("0123456789abcdef")
	}
	rig, err := c15NewRig(opts)
	if err != nil {
		return verifkit.Fail("harness:rig", "%v", err)
	}
	rig.start()
	joined := rig.wait(c15Watchdog, func() bool {
		return rig.client.joins > 0 || rig.client.kicked || rig.handleDone || len(rig.harnessErrs) > 0
	})
	rig.mu.Lock()
	ok := joined && rig.client.joins > 0 && !rig.client.kicked && len(rig.harnessErrs) == 0
	herrs := append([]string(nil), rig.harnessErrs...)
	rig.mu.Unlock()
	if !ok {
		_ = rig.close()
		if len(herrs) > 0 {
			return verifkit.Fail("harness:rig", "%v", herrs)
		}
		return verifkit.Result{Inconclusive: true, Labels: []string{"inconclusive:not-joined"}}
	}
	pl := rig.player()
	srv := rig.proxy.Server("alpha")
	// (the relay itself is C15's subject; the chatter only makes sure the session is fully in play)
	unreg := c15UnregisteredIDs(1, rig.proto)
	for i := 0; i < c.Chatter && len(unreg) > 0; i++ {
		rig.client.send(append(verifkit.RefVarInt(int32(unreg[0])), byte(i)))
	}
	// the backend is quiet from here on; the client leaves
	leak := rig.close()
	rig.mu.Lock()
	left := append([]string(nil), rig.backendsLeftOpen...)
	disconnects := rig.countEventsLocked("disconnect")
	rig.mu.Unlock()
	if len(left) > 0 {
		return verifkit.Fail("player-session:backend-connection-left-open", "protocol %d: the client left and HandleConn returned, but 10 s later the proxy still had not closed its backend connection(s) %v (the backend was quiet, so nothing else would end them)", c.Protocol, left)
	}
	if disconnects != 1 {
		return verifkit.Fail("player-session:disconnect-events", "the player's DisconnectEvent fired %d times", disconnects)
	}
	if srv != nil && srv.Players().Len() != 0 {
		return verifkit.Fail("player-session:server-list", "the player left but server alpha still lists %d player(s)", srv.Players().Len())
	}
	if pl != nil && rig.proxy.Player(pl.ID()) != nil {
		return verifkit.Fail("player-session:still-registered", "the player left but is still registered")
	}
	if leak != "" {
		return verifkit.Result{Inconclusive: true, Labels: []string{"goroutines-left-after-close"}}
	}
	return verifkit.Result{NonTrivial: true, Labels: []string{fmt.Sprintf("protocol:%d", c.Protocol), fmt.Sprintf("encrypted:%v", c.Encrypted)}}
}

func TestVerif_C44Session(t *testing.T) {
	verifkit.Check(t, "C44", "player-session",
		"one player session through the real Proxy.HandleConn per case (protocols 1.8..26.2, client/backend compression on or off, client connection encrypted or not, 0-5 packets of chatter), then the backend goes quiet and the client leaves; oracle: one DisconnectEvent, the proxy itself closes the backend connection (observed at the fake backend's socket wrapper, before the harness closes anything), the server's player list is empty and the player is unregistered; every completed case is non-trivial",
		func(t *rapid.T) c44sCase {
			return c44sCase{
				Protocol:   rapid.SampledFrom(c15Protocols).Draw(t, "protocol"),
				ClientThr:  rapid.SampledFrom([]int{-1, 256}).Draw(t, "clientThr"),
				BackendThr: rapid.SampledFrom([]int{-1, 256}).Draw(t, "backendThr"),
				Chatter:    rapid.IntRange(0, 5).Draw(t, "chatter"),
				Encrypted:  rapid.IntRange(0, 2).Draw(t, "encrypted") == 0,
			}
		}, c44sRun)
}
