//go:build verif

package proxy

import (
	"context"
	"crypto/md5"
	"fmt"
	"net"
	"testing"

	"github.com/robinbraemer/event"
	"go.minekube.com/gate/pkg/edition/java/auth"
	"go.minekube.com/gate/pkg/edition/java/config"
	"go.minekube.com/gate/pkg/edition/java/netmc"
	"go.minekube.com/gate/pkg/edition/java/proto/packet"
	"go.minekube.com/gate/pkg/edition/java/proto/state"
	"go.minekube.com/gate/pkg/edition/java/proto/version"
	"go.minekube.com/gate/pkg/edition/java/proxy/phase"
	"go.minekube.com/gate/pkg/gate/proto"
	"go.minekube.com/gate/pkg/internal/verifkit"
	"pgregory.net/rapid"
)

// C10 (part 2): the login username check and the offline identity handed on.
//
// The real initialLoginSessionHandler.handleServerLogin is driven with a
// ServerLogin packet on a recording connection (offline mode, forwarding
// "none"). Observed: disconnect ("invalid format") vs. hand-over to the auth
// session handler with the offline profile. For protocols >= 1.20.2 the auth
// handler is then activated for real (player registration stubbed) up to the
// LoginSuccess packet, whose UUID/name - the same connectedPlayer.ID()/Username()
// the backend ServerLogin is built from - are compared with the reference.
//
// Reference predicate (from the property text): 2..16 characters, each of
// A-Z a-z 0-9 '_'. Reference UUID: MD5("OfflinePlayer:"+name) with version-3 /
// RFC 4122 bits (the MD5 itself is cross-checked against an RFC 1321
// implementation in the pkg/util/uuid unit of this property).

func c10RefValidUsername(s string) bool {
	if len(s) < 2 || len(s) > 16 {
		return false
	}
	for i := 0; i < len(s); i++ {
		b := s[i]
		switch {
		case 'A' <= b && b <= 'Z', 'a' <= b && b <= 'z', '0' <= b && b <= '9', b == '_':
		default:
			return false
		}
	}
	return true
}

func c10RefUUID(name string) [16]byte {
	sum := md5.Sum([]byte("OfflinePlayer:" + name))
	sum[6] = sum[6]&0x0f | 0x30
	sum[8] = sum[8]&0x3f | 0x80
	return sum
}

// c10Conn is a recording netmc.MinecraftConn. Methods that the exercised code
// does not use stay nil (embedded interface) and would panic -> kit reports it.
type c10Conn struct {
	forge bool
	netmc.MinecraftConn
	ctx      context.Context
	cancel   context.CancelFunc
	protocol proto.Protocol
	st       *state.Registry
	written  []proto.Packet
	handlers []netmc.SessionHandler
	handler  netmc.SessionHandler
	closed   int
}

func (c *c10Conn) Context() context.Context { return c.ctx }
func (c *c10Conn) Close() error {
	c.closed++
	c.cancel()
	return nil
}
func (c *c10Conn) State() *state.Registry   { return c.st }
func (c *c10Conn) Protocol() proto.Protocol { return c.protocol }
func (c *c10Conn) RemoteAddr() net.Addr     { return &net.TCPAddr{IP: net.IPv4(192, 0, 2, 7), Port: 50000} }
func (c *c10Conn) LocalAddr() net.Addr      { return &net.TCPAddr{IP: net.IPv4(127, 0, 0, 1), Port: 25565} }
func (c *c10Conn) Type() phase.ConnectionType {
	if c.forge {
		return phase.LegacyForge
	}
	return phase.Vanilla
}
func (c *c10Conn) SetType(phase.ConnectionType) {}
func (c *c10Conn) ActiveSessionHandler() netmc.SessionHandler {
	return c.handler
}
func (c *c10Conn) SetActiveSessionHandler(r *state.Registry, h netmc.SessionHandler) {
	// recorded only; the harness activates the handler explicitly
	c.st = r
	c.handler = h
	c.handlers = append(c.handlers, h)
}
func (c *c10Conn) WritePacket(p proto.Packet) error {
	if c.ctx.Err() != nil {
		return netmc.ErrClosedConn
	}
	c.written = append(c.written, p)
	return nil
}
func (c *c10Conn) BufferPacket(p proto.Packet) error { return c.WritePacket(p) }
func (c *c10Conn) Flush() error                      { return nil }
func (c *c10Conn) SetState(r *state.Registry)        { c.st = r }
func (c *c10Conn) SetOutboundState(*state.Registry)  {}
func (c *c10Conn) SetProtocol(p proto.Protocol)      { c.protocol = p }
func (c *c10Conn) SetAutoReading(bool)               {}
func (c *c10Conn) EnablePlayPacketQueue()            {}
func (c *c10Conn) SetCompressionThreshold(int) error { return nil }

type c10Cfg struct{ c *config.Config }

func (c c10Cfg) config() *config.Config { return c.c }

type c10Registrar struct{ registered []*connectedPlayer }

func (r *c10Registrar) canRegisterConnection(*connectedPlayer) bool { return true }
func (r *c10Registrar) registerConnection(p *connectedPlayer) bool {
	r.registered = append(r.registered, p)
	return true
}
func (r *c10Registrar) unregisterConnection(*connectedPlayer) bool { return true }

type c10LoginCase struct {
	Username []byte `json:"username"` // bytes so that any string survives JSON
	Protocol int    `json:"protocol"`
	// Online: the proxy runs in online mode (the production default). The username
	// check is the same in both modes; in online mode an accepted name is answered
	// with an EncryptionRequest instead of the hand-over to the auth session.
	Online bool `json:"online,omitempty"`
	// Holder: the profile id the client announces in its login start (1.19.1+; the
	// field is mandatory from 1.20.2): nil = none, otherwise 16 bytes. A client may
	// put any value there; an offline-mode identity never depends on it.
	Holder []byte `json:"holder,omitempty"`
	// Forge: a legacy Forge client (pre-1.13) behind legacy forwarding: the
	// connection type adds a marker property to the profile before LoginSuccess;
	// the identity (name, offline UUID) must come through that unchanged.
	Forge bool `json:"forge,omitempty"`
}

var c10Auth = func() auth.Authenticator {
	a, err := auth.New(auth.Options{})
	if err != nil {
		panic(err)
	}
	return a
}()

var c10Protocols = []proto.Protocol{
	version.Minecraft_1_7_2.Protocol, version.Minecraft_1_8.Protocol, version.Minecraft_1_16_4.Protocol,
	version.Minecraft_1_19_3.Protocol, version.Minecraft_1_20.Protocol,
	// >= 1.20.2: the auth handler is activated up to LoginSuccess
	version.Minecraft_1_20_2.Protocol, version.Minecraft_1_20_3.Protocol, version.Minecraft_1_21.Protocol, version.Minecraft_1_21_4.Protocol, version.Minecraft_26_1.Protocol,
}

func c10LoginRun(c c10LoginCase) verifkit.Result {
	name := string(c.Username)
	protocol := proto.Protocol(c.Protocol)

	cfg := config.DefaultConfig
	cfg.OnlineMode = c.Online
	cfg.Forwarding.Mode = config.NoneForwardingMode
	forge := c.Forge && protocol.Lower(version.Minecraft_1_13)
	if forge {
		cfg.Forwarding.Mode = config.LegacyForwardingMode
	}
	cfg.Compression.Threshold = -1
	cfg.ForceKeyAuthentication = false
	deps := &sessionHandlerDeps{
		registrar:      &c10Registrar{},
		eventMgr:       event.Nop,
		configProvider: c10Cfg{&cfg},
		authenticator:  c10Auth,
	}
	ctx, cancel := context.WithCancel(context.Background())
	defer cancel()
	conn := &c10Conn{ctx: ctx, cancel: cancel, protocol: protocol, st: state.Login, forge: forge}
	inbound := newLoginInboundConn(newInitialInbound(conn, &net.TCPAddr{IP: net.IPv4(127, 0, 0, 1), Port: 25565}, packet.HandshakeIntent(2)))
	h := newInitialLoginSessionHandler(conn, inbound, deps).(*initialLoginSessionHandler)

	login := &packet.ServerLogin{Username: name}
	holderLabel := "holder-none"
	if len(c.Holder) == 16 && protocol.GreaterEqual(version.Minecraft_1_19_1) {
		copy(login.HolderID[:], c.Holder)
		if ref := c10RefUUID(name); [16]byte(login.HolderID) == ref {
			holderLabel = "holder-is-offline-uuid"
		} else {
			holderLabel = "holder-is-foreign-uuid"
		}
	}
	h.handleServerLogin(login)

	want := c10RefValidUsername(name)
	labels := []string{holderLabel}
	if want {
		labels = append(labels, "accept")
	} else {
		labels = append(labels, "deny")
	}
	nt := c10NearBoundary(name, &labels)
	if want && holderLabel == "holder-is-foreign-uuid" {
		nt = true
	}

	if c.Online {
		// online mode: an accepted name gets an EncryptionRequest and the connection
		// stays open; a rejected one is disconnected without any EncryptionRequest.
		labels = append(labels, "online-mode")
		encReq := 0
		for _, p := range conn.written {
			if _, ok := p.(*packet.EncryptionRequest); ok {
				encReq++
			}
		}
		switch {
		case want && (conn.closed > 0 || encReq != 1):
			return verifkit.Fail("login:valid-denied", "online mode: username %q (2..16 of [A-Za-z0-9_]) was not answered with one EncryptionRequest (closed=%d requests=%d written=%s)", name, conn.closed, encReq, c10Types(conn.written))
		case !want && (conn.closed == 0 || encReq != 0 || len(conn.handlers) != 0):
			return verifkit.Fail("login:invalid-accepted", "online mode: username %q passed the login username check (closed=%d encryption requests=%d handlers=%d)", name, conn.closed, encReq, len(conn.handlers))
		}
		return verifkit.Result{NonTrivial: nt, Labels: labels}
	}

	accepted := len(conn.handlers) == 1 && conn.closed == 0
	denied := len(conn.handlers) == 0 && conn.closed > 0
	if accepted == denied {
		return verifkit.Fail("login:no-decision", "username %q: neither a clean hand-over nor a disconnect (handlers=%d closed=%d written=%d)", name, len(conn.handlers), conn.closed, len(conn.written))
	}
	if want && !accepted {
		return verifkit.Fail("login:valid-denied", "username %q (2..16 of [A-Za-z0-9_]) was disconnected at login", name)
	}
	if !want && accepted {
		return verifkit.Fail("login:invalid-accepted", "username %q passed the login username check", name)
	}
	if !want {
		// (how the client is told is not part of the property; recorded only)
		if len(conn.written) == 1 {
			if _, ok := conn.written[0].(*packet.Disconnect); ok {
				labels = append(labels, "deny-with-disconnect-packet")
			}
		}
		return verifkit.Result{NonTrivial: nt, Labels: labels}
	}

	// accepted: offline identity handed to the auth session
	auth, ok := conn.handlers[0].(*authSessionHandler)
	if !ok {
		return verifkit.Fail("login:handler-type", "username %q: offline login handed over to %T", name, conn.handlers[0])
	}
	ref := c10RefUUID(name)
	if auth.onlineMode {
		return verifkit.Fail("login:online-flag", "offline login marked as online mode")
	}
	if auth.profile == nil || auth.profile.Name != name || [16]byte(auth.profile.ID) != ref {
		return verifkit.Fail("offline-profile:mismatch", "username %q: offline profile %v, want name %q uuid %x", name, auth.profile, name, ref)
	}

	if forge {
		// pre-1.20.2: Activated runs on into the play phase, for which this fixture has
		// no servers; what matters here is written before that (LoginSuccess), so the
		// rest may fail in whatever way it likes.
		labels = append(labels, "legacy-forge-login-success-checked")
		func() {
			defer func() { _ = recover() }()
			auth.Activated()
		}()
		var ls *packet.ServerLoginSuccess
		for _, p := range conn.written {
			if x, ok := p.(*packet.ServerLoginSuccess); ok && ls == nil {
				ls = x
			}
		}
		if ls == nil {
			return verifkit.Fail("login-success:missing", "legacy Forge client %q protocol %d: no LoginSuccess written (written=%s closed=%d)", name, protocol, c10Types(conn.written), conn.closed)
		}
		if ls.Username != name || [16]byte(ls.UUID) != ref {
			return verifkit.Fail("login-success:identity", "legacy Forge client %q behind legacy forwarding: LoginSuccess carries name %q uuid %s, want uuid %x", name, ls.Username, ls.UUID, ref)
		}
		return verifkit.Result{NonTrivial: true, Labels: labels}
	}
	if protocol.GreaterEqual(version.Minecraft_1_20_2) && protocol.Lower(version.Minecraft_26_2) {
		labels = append(labels, "login-success-checked")
		auth.Activated()
		var ls *packet.ServerLoginSuccess
		for _, p := range conn.written {
			if x, ok := p.(*packet.ServerLoginSuccess); ok {
				if ls != nil {
					return verifkit.Fail("login-success:twice", "username %q: two LoginSuccess packets", name)
				}
				ls = x
			}
		}
		if ls == nil {
			return verifkit.Fail("login-success:missing", "username %q protocol %d: no LoginSuccess written (written=%s closed=%d)", name, protocol, c10Types(conn.written), conn.closed)
		}
		if ls.Username != name || [16]byte(ls.UUID) != ref {
			return verifkit.Fail("login-success:identity", "username %q: LoginSuccess carries name %q uuid %s, want uuid %x", name, ls.Username, ls.UUID, ref)
		}
		reg := deps.registrar.(*c10Registrar)
		if len(reg.registered) != 1 {
			return verifkit.Fail("login-success:registration", "username %q: %d players registered", name, len(reg.registered))
		}
		// what the backend login (ServerLogin.Username / HolderID) is built from
		if p := reg.registered[0]; p.Username() != name || [16]byte(p.ID()) != ref {
			return verifkit.Fail("backend-identity:mismatch", "username %q: player identity for backends is %q/%s, want uuid %x", name, p.Username(), p.ID(), ref)
		}
	}
	return verifkit.Result{NonTrivial: nt, Labels: labels}
}

func c10Types(ps []proto.Packet) string {
	s := ""
	for _, p := range ps {
		s += fmt.Sprintf("%T ", p)
	}
	return s
}

// c10NearBoundary: is the name within one (rune) edit of the accept boundary?
// valid names of boundary length 2 or 16, or invalid names one
// insertion/deletion/substitution away from a valid one.
func c10NearBoundary(name string, labels *[]string) bool {
	add := func(l string) { *labels = append(*labels, l) }
	n, bad, nonASCII, lastBad := 0, 0, false, false
	for _, r := range name {
		n++
		ok := r < 0x80 && c10RefValidUsername("a"+string(rune(r)))
		lastBad = !ok
		if !ok {
			bad++
		}
		if r >= 0x80 {
			nonASCII = true
		}
	}
	switch n {
	case 0, 1, 2, 16, 17:
		add(fmt.Sprintf("len-%d", n))
	}
	if bad == 1 {
		add("one-bad-rune")
		if lastBad {
			add("bad-last-rune")
		}
	}
	if nonASCII {
		add("non-ascii")
	}
	if c10RefValidUsername(name) {
		return n == 2 || n == 16
	}
	return (bad == 0 && (n == 1 || n == 17)) || (bad == 1 && n >= 2 && n <= 17)
}

var c10Alphabet = []byte("ABCDEFGHIJKLMNOPQRSTUVWXYZabcdefghijklmnopqrstuvwxyz0123456789_")

// bytes adjacent to the class boundaries and other classics
var c10BadPieces = []string{"@", "[", "`", "{", "/", ":", " ", "-", ".", "\x00", "\n", "\r", "\t", "$", "^", "\\", "*", "+", "?", "é", "Ａ", "٣", "ａ", "０", "＿", "\xff", "\x80", "ß", "İ", "ſ", "K"}

func c10GenUsername(t *rapid.T) []byte {
	valid := func(label string, min, max int) []byte {
		n := rapid.IntRange(min, max).Draw(t, label+"N")
		if n == 0 {
			return []byte{}
		}
		return rapid.SliceOfN(rapid.SampledFrom(c10Alphabet), n, n).Draw(t, label)
	}
	switch rapid.IntRange(0, 9).Draw(t, "kind") {
	case 0: // valid, any length
		return valid("valid", 2, 16)
	case 1: // valid alphabet, boundary lengths
		n := rapid.SampledFrom([]int{0, 1, 2, 3, 15, 16, 17, 18, 32}).Draw(t, "blen")
		return valid("bvalid", n, n)
	case 2, 3: // one substitution by a bad piece
		b := valid("base", 2, 16)
		i := rapid.IntRange(0, len(b)-1).Draw(t, "subAt")
		piece := rapid.SampledFrom(c10BadPieces).Draw(t, "piece")
		return append(append(append([]byte{}, b[:i]...), piece...), b[i+1:]...)
	case 4: // one insertion (also at the very end: "name\n")
		b := valid("ibase", 1, 16)
		i := rapid.IntRange(0, len(b)).Draw(t, "insAt")
		if rapid.Bool().Draw(t, "atEnd") {
			i = len(b)
		}
		piece := rapid.SampledFrom(c10BadPieces).Draw(t, "ipiece")
		return append(append(append([]byte{}, b[:i]...), piece...), b[i:]...)
	case 5: // bad pieces only
		n := rapid.IntRange(1, 6).Draw(t, "np")
		var out []byte
		for i := 0; i < n; i++ {
			out = append(out, rapid.SampledFrom(c10BadPieces).Draw(t, "bp")...)
		}
		return out
	case 6: // full byte alphabet, length 0..20
		b := rapid.SliceOfN(rapid.Byte(), 0, 20).Draw(t, "bytes")
		if b == nil {
			b = []byte{}
		}
		return b
	case 7: // printable ASCII, length 0..20
		b := rapid.SliceOfN(rapid.ByteRange(0x20, 0x7e), 0, 20).Draw(t, "ascii")
		if b == nil {
			b = []byte{}
		}
		return b
	case 8: // unicode letters / digits that look valid
		return []byte(rapid.SampledFrom([]string{"Ａlice", "Bob٣", "ｓｔｅｖｅ", "Стив", "名前", "áb", "ab​", "Kelvin", "ſteve", "İstanbul", "steve "}).Draw(t, "lookalike"))
	default: // multi-line tricks for an unanchored / multi-line regex
		return []byte(rapid.SampledFrom([]string{"ab\n", "\nab", "ab\ncd", "ab\r\n", "!!\nvalid_name\n!!", "valid_name\n!!", "ab\x00cd", "ab cd", "ab\n\n"}).Draw(t, "multiline"))
	}
}

func TestVerif_C10(t *testing.T) {
	verifkit.Check(t, "C10", "login",
		"usernames: valid names, valid alphabet at lengths 0/1/2/3/15/16/17/18/32, one substitution or insertion of a byte adjacent to the class boundaries / whitespace / NUL / newline / look-alike Unicode / invalid UTF-8, multi-line tricks, full-byte-alphabet and printable strings of 0..20; x 10 protocol versions 1.7.2..26.1 x legacy Forge connection type behind legacy forwarding for pre-1.13 clients (a quarter; LoginSuccess identity checked) x profile id announced in the login start (none / random / a real online id / the offline id of another name; 1.19.1+); the real handleServerLogin (offline mode in 2/3 of the cases, online mode in 1/3: accepted = exactly one EncryptionRequest and the connection open; forwarding none) must accept iff 2..16 bytes of [A-Za-z0-9_]; the offline profile, and for >=1.20.2 the LoginSuccess packet and the registered player identity, must carry the reference MD5 v3 UUID and the unchanged name; non-trivial = name within one edit of the accept boundary",
		func(t *rapid.T) c10LoginCase {
			return c10LoginCase{
				Username: c10GenUsername(t),
				Protocol: int(rapid.SampledFrom(c10Protocols).Draw(t, "protocol")),
				Online:   rapid.IntRange(0, 2).Draw(t, "online") == 0,
				Forge:    rapid.IntRange(0, 3).Draw(t, "forge") == 0,
				Holder: rapid.OneOf(
					rapid.Just([]byte(nil)),
					rapid.SliceOfN(rapid.Byte(), 16, 16),
					rapid.Just([]byte{0x06, 0x9a, 0x79, 0xf4, 0x44, 0xe9, 0x47, 0x26, 0xa5, 0xbe, 0xfc, 0xa9, 0x0e, 0x38, 0xaa, 0xf5}), // a real online-mode id (Notch)
					rapid.Custom(func(t *rapid.T) []byte { // the offline id of another valid name
						r := c10RefUUID(rapid.SampledFrom([]string{"Alice", "Notch", "bob_123"}).Draw(t, "otherName"))
						return r[:]
					}),
				).Draw(t, "holder"),
			}
		}, c10LoginRun)
}
