//go:build verif

package proxy

// C27, sub-check "backend-request": the last clause of the property - "responses
// to backend-originated packs are reported to the backend, responses to
// proxy-originated packs are not" - at the place where a pack gets its origin.
// The main C27 check drives the three resource-pack handlers with packs whose
// origin the harness sets; in gate the origin of a backend pack is stamped by
// handleResourcePacketRequest (backend play/config session handlers), after a
// ServerResourcePackSendEvent subscriber may have edited or replaced the pack.
// This sub-check runs that function and the real client play session handler on
// a real connectedPlayer with recording connections.

import (
	"encoding/hex"
	"fmt"
	"net"
	"sync"
	"testing"

	"github.com/go-logr/logr"
	"github.com/robinbraemer/event"
	"pgregory.net/rapid"

	"go.minekube.com/gate/pkg/edition/java/config"
	"go.minekube.com/gate/pkg/edition/java/profile"
	"go.minekube.com/gate/pkg/edition/java/proto/packet"
	"go.minekube.com/gate/pkg/edition/java/proxy/phase"
	"go.minekube.com/gate/pkg/gate/proto"
	"go.minekube.com/gate/pkg/internal/verifkit"
	"go.minekube.com/gate/pkg/util/uuid"
)

type c27bCase struct {
	Protocol int  `json:"protocol"`
	InFlight bool `json:"in_flight"` // the asking backend is the connection in flight (config phase / switch); else the connected server
	// Source: "backend" (a backend ResourcePackRequest) | "proxy" (a plugin calls Player.SendResourcePack)
	Source string `json:"source"`
	// Plugin (backend packs): "" no subscriber | "edit" (copy of the received pack with another URL) |
	// "replace" (a freshly built ResourcePackInfo pointing at a mirror) | "deny"
	Plugin   string `json:"plugin,omitempty"`
	Hash     bool   `json:"hash"`
	Required bool   `json:"required"`
	Statuses []int  `json:"statuses"` // the client's answers, in order
}

// c27bConn records packets and raw payloads.
type c27bConn struct {
	*c21Conn
	mu   sync.Mutex
	raws [][]byte
}

func (c *c27bConn) Write(b []byte) error {
	c.mu.Lock()
	c.raws = append(c.raws, append([]byte(nil), b...))
	c.mu.Unlock()
	return nil
}

func c27bRun(c c27bCase) verifkit.Result {
	protocol := proto.Protocol(c.Protocol)
	mgr := event.New()
	prx := &Proxy{cfg: &config.Config{}, log: logr.Discard(), event: mgr}
	deps := &sessionHandlerDeps{proxy: prx, configProvider: prx, eventMgr: mgr}
	client := &c27bConn{c21Conn: c21NewConn(protocol)}
	backend := &c27bConn{c21Conn: c21NewConn(protocol)}
	defer client.cancel()
	defer backend.cancel()
	player := newConnectedPlayer(client, &profile.GameProfile{ID: uuid.UUID{0xC2, 0x7B}, Name: "c27b"},
		&net.TCPAddr{IP: net.IPv4(127, 0, 0, 1), Port: 25565}, packet.LoginHandshakeIntent, false, nil, deps)
	sc := &serverConnection{player: player, log: logr.Discard(), connPhase: phase.VanillaBackendPhase}
	sc.connection = backend
	player.mu.Lock()
	if c.InFlight {
		player.connInFlight = sc
	} else {
		player.connectedServer_ = sc
	}
	player.mu.Unlock()
	h := newClientPlaySessionHandler(player)

	const askedURL, mirrorURL = "https://backend.example/pack.zip", "https://mirror.example/pack.zip"
	id := uuid.UUID{0x27, 0xB0, 1}
	hash := ""
	if c.Hash {
		hash = hex.EncodeToString([]byte("c27b-sha1-of-the-pack"[:20]))
	}
	event.Subscribe(mgr, 0, func(e *ServerResourcePackSendEvent) {
		switch c.Plugin {
		case "edit":
			info := e.ReceivedResourcePack()
			info.URL = mirrorURL
			e.SetProvidedResourcePack(info)
		case "replace":
			fresh := ResourcePackInfo{ID: id, URL: mirrorURL, ShouldForce: c.Required}
			if c.Hash {
				fresh.Hash, _ = hex.DecodeString(hash)
			}
			e.SetProvidedResourcePack(fresh)
		case "deny":
			e.SetAllowed(false)
		}
	})

	labels := []string{fmt.Sprintf("protocol:%d", c.Protocol), "source:" + c.Source}
	if c.Plugin != "" {
		labels = append(labels, "plugin:"+c.Plugin)
	}
	if c.InFlight {
		labels = append(labels, "backend-in-flight")
	}
	var panicked any
	wr := verifkit.Watch(10e9, "proxy.", func() {
		defer func() { panicked = recover() }()
		if c.Source == "backend" {
			handleResourcePacketRequest(&packet.ResourcePackRequest{ID: id, URL: askedURL, Hash: hash, Required: c.Required}, sc, mgr, logr.Discard())
		} else {
			info := ResourcePackInfo{ID: id, URL: askedURL, ShouldForce: c.Required}
			if c.Hash {
				info.Hash, _ = hex.DecodeString(hash)
			}
			_ = player.SendResourcePack(info)
		}
	})
	if wr.Outcome == verifkit.Deadlocked {
		return verifkit.Fail("backend-request:deadlock", "queuing the pack never returned:\n%s", wr.Stack)
	}
	if panicked != nil {
		return verifkit.Fail("backend-request:panic", "queuing the pack panicked: %v", panicked)
	}
	if wr.Outcome != verifkit.Returned {
		return verifkit.Result{Inconclusive: true, Labels: []string{"slow"}}
	}
	// what the client was asked
	var asked []*packet.ResourcePackRequest
	for _, p := range client.written() {
		if r, ok := p.(*packet.ResourcePackRequest); ok {
			asked = append(asked, r)
		}
	}
	denied := c.Source == "backend" && c.Plugin == "deny"
	if denied {
		if len(asked) != 0 {
			return verifkit.Fail("backend-request:denied-pack-prompted", "a ServerResourcePackSendEvent subscriber denied the pack, the client was prompted anyway: %+v", asked[0])
		}
		return verifkit.Result{Labels: labels}
	}
	wantURL := askedURL
	if c.Source == "backend" && (c.Plugin == "edit" || c.Plugin == "replace") {
		wantURL = mirrorURL
	}
	if len(asked) != 1 || asked[0].URL != wantURL {
		return verifkit.Fail("backend-request:prompt", "want exactly one prompt for %s at the client, got %d (%+v)", wantURL, len(asked), asked)
	}
	// the client answers
	before := len(backend.written())
	for i, st := range c.Statuses {
		resp := &packet.ResourcePackResponse{ID: asked[0].ID, Hash: asked[0].Hash, Status: packet.ResponseStatus(st)}
		marker := []byte{0xC2, 0x7B, byte(i), byte(st)}
		panicked = nil
		wr := verifkit.Watch(10e9, "proxy.", func() {
			defer func() { panicked = recover() }()
			h.HandlePacket(&proto.PacketContext{Direction: proto.ServerBound, Protocol: protocol, Packet: resp, Payload: marker})
		})
		if wr.Outcome == verifkit.Deadlocked {
			return verifkit.Fail("backend-request:deadlock", "handling the client's response %d never returned:\n%s", st, wr.Stack)
		}
		if panicked != nil {
			return verifkit.Fail("backend-request:panic", "handling the client's response %d panicked: %v", st, panicked)
		}
		if wr.Outcome != verifkit.Returned {
			return verifkit.Result{Inconclusive: true, Labels: []string{"slow"}}
		}
	}
	mgr.Wait()
	// reports that reached the asking backend: response packets written to it, or the
	// client's own packet passed through
	reports := map[int]int{}
	for _, p := range backend.written()[before:] {
		if r, ok := p.(*packet.ResourcePackResponse); ok {
			reports[int(r.Status)]++
		}
	}
	backend.mu.Lock()
	for _, raw := range backend.raws {
		if len(raw) == 4 && raw[0] == 0xC2 && raw[1] == 0x7B {
			reports[int(raw[3])]++
		}
	}
	backend.mu.Unlock()
	sent := map[int]int{}
	for _, st := range c.Statuses {
		sent[st]++
	}
	if c.Source == "proxy" {
		for st, n := range reports {
			if n > 0 {
				return verifkit.Fail("backend-request:proxy-pack-reported", "the pack was sent by a plugin on the proxy, yet the backend was told status %d %d time(s) (client answered %v, protocol %d)", st, n, c.Statuses, c.Protocol)
			}
		}
		return verifkit.Result{Labels: labels, NonTrivial: len(c.Statuses) > 0}
	}
	for st, n := range sent {
		if reports[st] != n {
			return verifkit.Fail("backend-request:response-not-reported",
				"the backend asked for the pack (plugin: %q, in flight: %v, protocol %d); the client answered %v but the backend was told status %d %d time(s), want %d (all reports: %v)",
				c.Plugin, c.InFlight, c.Protocol, c.Statuses, st, reports[st], n, reports)
		}
	}
	for st, n := range reports {
		if sent[st] == 0 && n > 0 {
			return verifkit.Fail("backend-request:invented-report", "the backend was told status %d which the client never sent (client answered %v)", st, c.Statuses)
		}
	}
	return verifkit.Result{Labels: labels, NonTrivial: len(c.Statuses) > 0 && c.Plugin != ""}
}

func c27bGen(t *rapid.T) c27bCase {
	c := c27bCase{
		Protocol: rapid.SampledFrom([]int{47, 340, 754, 756, 763, 765, 767, 772}).Draw(t, "protocol"),
		InFlight: rapid.Bool().Draw(t, "inFlight"),
		Source:   rapid.SampledFrom([]string{"backend", "backend", "backend", "proxy"}).Draw(t, "source"),
		Hash:     rapid.Bool().Draw(t, "hash"),
		Required: rapid.Bool().Draw(t, "required"),
	}
	if c.Source == "backend" {
		c.Plugin = rapid.SampledFrom([]string{"", "edit", "replace", "replace", "deny"}).Draw(t, "plugin")
	}
	// answers a vanilla client gives to one prompt
	const (
		successful = 0
		declined   = 1
		failedDL   = 2
		accepted   = 3
		downloaded = 4
	)
	seqs := [][]int{{declined}, {accepted, successful}, {accepted, failedDL}, {accepted}}
	if c.Protocol >= 765 {
		seqs = append(seqs, []int{accepted, downloaded, successful}, []int{accepted, downloaded})
	}
	c.Statuses = rapid.SampledFrom(seqs).Draw(t, "answers")
	return c
}

func TestVerif_C27Backend(t *testing.T) {
	verifkit.Check(t, "C27", "backend-request",
		"one resource pack per case on a real connectedPlayer (protocols 1.8, 1.12.2, 1.16.5, 1.17.1, 1.20.1, 1.20.3, 1.21, 1.21.7): asked for by the backend through the real handleResourcePacketRequest (the asking backend is the connected server or the connection in flight; a ServerResourcePackSendEvent subscriber leaves the pack alone, edits a copy, replaces it with a freshly built ResourcePackInfo pointing at a mirror, or denies it) or sent by a plugin through Player.SendResourcePack; then a vanilla answer sequence {declined | accepted, successful | accepted, failed download | accepted | with downloaded on 1.20.3+} through the real client play session handler; oracle: the client is prompted once with the provided URL (never when denied); every answer to a backend pack reaches the asking backend exactly once (response packet written to it or the client's packet passed through) and nothing else, no answer to a proxy pack reaches it; every call under the deadlock sensor; non-trivial = a plugin touched a backend pack and the client answered",
		c27bGen, c27bRun)
}
