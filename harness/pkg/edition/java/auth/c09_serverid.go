//go:build verif

package auth

import (
	"bytes"
	"crypto/sha1"
	"math/big"
	"testing"

	"go.minekube.com/gate/pkg/internal/verifkit"
	"pgregory.net/rapid"
)

// C09: server id == Java `new BigInteger(sha1(secret ‖ key)).toString(16)`.

type c09Case struct {
	Secret []byte `json:"secret"`
	Key    []byte `json:"key"`
}

// c09RefDigest is the independent reference: interpret the digest as a signed
// big-endian two's-complement integer and print base 16 (math/big prints a
// leading '-' for negatives and no leading zeros, exactly like BigInteger).
func c09RefSigned(digest []byte) string {
	n := new(big.Int).SetBytes(digest)
	if len(digest) > 0 && digest[0]&0x80 != 0 {
		mod := new(big.Int).Lsh(big.NewInt(1), uint(8*len(digest)))
		n.Sub(n, mod)
	}
	return n.Text(16)
}

func c09Classes(digest []byte) (labels []string, nontrivial bool) {
	neg := digest[0]&0x80 != 0
	if neg {
		labels = append(labels, "negative")
		nontrivial = true
	} else {
		labels = append(labels, "positive")
	}
	ref := c09RefSigned(digest)
	mag := ref
	if neg {
		mag = ref[1:]
	}
	switch lz := 40 - len(mag); {
	case lz == 0:
	case lz == 1:
		labels = append(labels, "lead-zero-nibble-1")
		nontrivial = true
	default:
		labels = append(labels, "lead-zero-nibble-2+")
		nontrivial = true
	}
	if digest[len(digest)-1] == 0 {
		labels = append(labels, "trailing-zero-byte")
		if neg {
			labels = append(labels, "carry-chain")
		}
	}
	return
}

func c09Run(c c09Case) verifkit.Result {
	a := &authenticator{public: c.Key}
	got, err := a.GenerateServerID(bytes.Clone(c.Secret))
	if err != nil {
		return verifkit.Fail("serverid:error", "GenerateServerID error: %v", err)
	}
	h := sha1.New()
	h.Write(c.Secret)
	h.Write(c.Key)
	digest := h.Sum(nil)
	want := c09RefSigned(digest)
	labels, nt := c09Classes(digest)
	if got != want {
		return verifkit.Fail("serverid:mismatch", "secret=%x key=%x digest=%x: got %q want %q", c.Secret, c.Key, digest, got, want)
	}
	return verifkit.Result{NonTrivial: nt, Labels: labels}
}

type c09TCCase struct {
	Digest []byte `json:"digest"`
}

// c09RunTC drives twosComplement directly with arbitrary 20-byte values (carry
// chains that SHA-1 search cannot reach) against big-integer negation mod 2^160.
func c09RunTC(c c09TCCase) verifkit.Result {
	in := bytes.Clone(c.Digest)
	got := twosComplement(bytes.Clone(in))
	mod := new(big.Int).Lsh(big.NewInt(1), uint(8*len(in)))
	n := new(big.Int).SetBytes(in)
	n.Sub(mod, n)
	n.Mod(n, mod)
	want := n.FillBytes(make([]byte, len(in)))
	tz := 0
	for i := len(in) - 1; i >= 0 && in[i] == 0; i-- {
		tz++
	}
	labels := []string{"tc"}
	if tz > 0 {
		labels = append(labels, "tc-carry-chain")
	}
	if tz >= 2 {
		labels = append(labels, "tc-carry-chain-2+")
	}
	if !bytes.Equal(got, want) {
		return verifkit.Fail("serverid:twosComplement", "in=%x got=%x want=%x", in, got, want)
	}
	return verifkit.Result{NonTrivial: tz > 0 || in[0]&0x80 != 0, Labels: labels}
}

func TestVerif_C09(t *testing.T) {
	verifkit.Check(t, "C09", "serverid",
		"secret 0..64 B (random / all-zero / all-0xff / short) x key bytes 0..300 B; compared with math/big signed hex of sha1(secret||key); non-trivial = digest negative or with a leading zero nibble",
		func(t *rapid.T) c09Case {
			secret := rapid.OneOf(
				rapid.SliceOfN(rapid.Byte(), 0, 64),
				rapid.SliceOfN(rapid.Byte(), 16, 16),
				rapid.SliceOfN(rapid.Just(byte(0)), 0, 32),
				rapid.SliceOfN(rapid.Just(byte(0xff)), 0, 32),
			).Draw(t, "secret")
			key := rapid.OneOf(
				rapid.SliceOfN(rapid.Byte(), 0, 32),
				rapid.SliceOfN(rapid.Byte(), 162, 162),
				rapid.SliceOfN(rapid.Byte(), 290, 300),
			).Draw(t, "key")
			return c09Case{Secret: secret, Key: key}
		}, c09Run)

	verifkit.Check(t, "C09", "twosComplement",
		"arbitrary 20-byte values with generated runs of trailing zero / 0xff bytes, compared with (2^160 - x) mod 2^160; non-trivial = sign bit set or trailing zero byte (carry chain)",
		func(t *rapid.T) c09TCCase {
			d := rapid.SliceOfN(rapid.Byte(), 20, 20).Draw(t, "digest")
			tz := rapid.IntRange(0, 20).Draw(t, "trailingZeros")
			if rapid.Bool().Draw(t, "forceTail") {
				fill := rapid.SampledFrom([]byte{0x00, 0xff, 0x80, 0x01}).Draw(t, "fill")
				for i := 0; i < tz; i++ {
					d[19-i] = fill
				}
			}
			if rapid.Bool().Draw(t, "forceHead") {
				d[0] = rapid.SampledFrom([]byte{0x80, 0xff, 0x00, 0x7f, 0x81}).Draw(t, "head")
			}
			return c09TCCase{Digest: d}
		}, c09RunTC)
}
