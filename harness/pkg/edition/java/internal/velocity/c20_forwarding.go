//go:build verif

package velocity

import (
	"bytes"
	"crypto/hmac"
	"crypto/rsa"
	"crypto/sha256"
	"errors"
	"fmt"
	"net/netip"
	"os"
	"testing"
	"time"
	"unicode/utf16"
	"unicode/utf8"

	"go.minekube.com/gate/pkg/edition/java/profile"
	"go.minekube.com/gate/pkg/edition/java/proto/version"
	"go.minekube.com/gate/pkg/edition/java/proxy/crypto"
	"go.minekube.com/gate/pkg/edition/java/proxy/crypto/keyrevision"
	"go.minekube.com/gate/pkg/gate/proto"
	"go.minekube.com/gate/pkg/internal/verifkit"
	"go.minekube.com/gate/pkg/util/uuid"
	"pgregory.net/rapid"
)

// C20 (package part): CreateForwardingData is authenticated with HMAC-SHA256
// and parses, the way Paper's VelocityProxy parses it, to exactly the player's
// data; findForwardingVersion equals Velocity's decision table.
//
// Reference 1 (c20RefPaper*): Paper's com.destroystokyo.paper.proxy.VelocityProxy
// checkIntegrity / readAddress / createProfile plus the key-data reads of
// ServerLoginPacketListenerImpl (1.19.1/1.19.2 Paper, the only servers that
// consume forwarding versions 2 and 3), re-implemented on verifkit.RefReader.
//
// Reference 2 (c20RefVersion): Velocity's PlayerDataForwarding.findForwardingVersion
// (MODERN_DEFAULT=1, WITH_KEY=2, WITH_KEY_V2=3, LAZY_SESSION=4), written from
// the Velocity source as a table over (requested, client protocol number, key
// revision). Only requested values 0..127 are asserted here: for these the
// byte a backend sends and the int the function receives are the same number
// in Velocity (signed readByte) and in Gate (unsigned p.Data[0]). The byte
// range 128..255 is adjudicated end to end in the proxy package part of C20.

// ---------------------------------------------------------------- case types

type c20Prop struct {
	Name      string `json:"name"`
	Value     string `json:"value"`
	Signature string `json:"signature"`
}

type c20KeyCase struct {
	Revision int    `json:"revision"` // 1 GenericV1, 2 LinkedV2
	ExpiryMs int64  `json:"expiry_ms"`
	PubKey   []byte `json:"pub_key"`
	Sig      []byte `json:"sig"`
	Holder   []byte `json:"holder"` // 16 bytes or empty (no holder)
}

type c20Case struct {
	Secret    []byte      `json:"secret"`
	Address   string      `json:"address"`
	UUID      []byte      `json:"uuid"` // 16 bytes
	Name      string      `json:"name"`
	Props     []c20Prop   `json:"props"`
	Protocol  int         `json:"protocol"`
	Key       *c20KeyCase `json:"key"`
	Requested int         `json:"requested"`
}

// ---------------------------------------------------------------- fakes (inputs)

type c20Key struct {
	c c20KeyCase
}

var _ crypto.IdentifiedKey = (*c20Key)(nil)

func (k *c20Key) Signer() *rsa.PublicKey                     { return nil }
func (k *c20Key) ExpiryTemporal() time.Time                  { return time.UnixMilli(k.c.ExpiryMs).UTC() }
func (k *c20Key) Expired() bool                              { return false }
func (k *c20Key) Signature() []byte                          { return bytes.Clone(k.c.Sig) }
func (k *c20Key) SignatureValid() bool                       { return true }
func (k *c20Key) Salt() []byte                               { return nil }
func (k *c20Key) SignedPublicKey() *rsa.PublicKey            { return nil }
func (k *c20Key) SignedPublicKeyBytes() []byte               { return bytes.Clone(k.c.PubKey) }
func (k *c20Key) VerifyDataSignature([]byte, ...[]byte) bool { return false }
func (k *c20Key) SignatureHolder() uuid.UUID {
	var u uuid.UUID
	if len(k.c.Holder) == 16 {
		copy(u[:], k.c.Holder)
	}
	return u
}
func (k *c20Key) KeyRevision() keyrevision.Revision {
	if k.c.Revision == 1 {
		return keyrevision.GenericV1
	}
	return keyrevision.LinkedV2
}

type c20Player struct {
	id    uuid.UUID
	prof  profile.GameProfile
	proto proto.Protocol
	key   crypto.IdentifiedKey
}

func (p *c20Player) ID() uuid.UUID                       { return p.id }
func (p *c20Player) Username() string                    { return p.prof.Name }
func (p *c20Player) GameProfile() profile.GameProfile    { return p.prof }
func (p *c20Player) Protocol() proto.Protocol            { return p.proto }
func (p *c20Player) IdentifiedKey() crypto.IdentifiedKey { return p.key }

func c20MakePlayer(c c20Case) *c20Player {
	var id uuid.UUID
	copy(id[:], c.UUID)
	props := make([]profile.Property, len(c.Props))
	for i, p := range c.Props {
		props[i] = profile.Property{Name: p.Name, Value: p.Value, Signature: p.Signature}
	}
	if len(props) == 0 {
		props = nil
	}
	pl := &c20Player{id: id, proto: proto.Protocol(c.Protocol),
		prof: profile.GameProfile{ID: id, Name: c.Name, Properties: props}}
	if c.Key != nil {
		pl.key = &c20Key{c: *c.Key} // assign only when non-nil: a typed nil would not be == nil
	}
	return pl
}

// ---------------------------------------------------------------- reference: Velocity negotiation

// c20RefVersion is Velocity's findForwardingVersion. protocol is the numeric
// client protocol; 761 is 1.19.3. keyRevision: 0 no key, 1 GENERIC_V1, 2 LINKED_V2.
func c20RefVersion(requested int, protocol int, keyRevision int) int {
	const (
		def, withKey, withKeyV2, lazy = 1, 2, 3, 4
	)
	if requested > lazy {
		requested = lazy
	}
	if requested > def {
		if protocol >= 761 {
			if requested >= lazy {
				return lazy
			}
			return def
		}
		switch keyRevision {
		case 1:
			return withKey
		case 2:
			if requested >= withKeyV2 {
				return withKeyV2
			}
			return def
		}
		return def
	}
	return def
}

// ---------------------------------------------------------------- reference: Paper parser

type c20Parsed struct {
	Version   int
	Address   string
	UUID      [16]byte
	Name      string
	Props     []c20Prop
	HasSig    []bool
	HasKey    bool
	ExpiryMs  int64
	PubKey    []byte
	Sig       []byte
	HasHolder bool
	Holder    [16]byte
	Trailing  int
}

// c20RefUtf is FriendlyByteBuf.readUtf(maxChars): VarInt byte length, at most
// maxChars*3 bytes, valid UTF-8, at most maxChars UTF-16 units.
func c20RefUtf(r *verifkit.RefReader, maxChars int) (string, error) {
	n, err := r.VarInt()
	if err != nil {
		return "", err
	}
	if n < 0 || int(n) > maxChars*3 {
		return "", fmt.Errorf("encoded string length %d out of range (max %d)", n, maxChars*3)
	}
	b, err := r.Take(int(n))
	if err != nil {
		return "", err
	}
	if !utf8.Valid(b) {
		return "", errors.New("invalid UTF-8 in string")
	}
	s := string(b)
	if len(utf16.Encode([]rune(s))) > maxChars {
		return "", fmt.Errorf("string longer than %d chars", maxChars)
	}
	return s, nil
}

func c20RefByteArray(r *verifkit.RefReader, max int) ([]byte, error) {
	n, err := r.VarInt()
	if err != nil {
		return nil, err
	}
	if n < 0 || int(n) > max {
		return nil, fmt.Errorf("byte array length %d out of range (max %d)", n, max)
	}
	return r.Take(int(n))
}

// c20RefPaperParse is the Paper side. It returns ("mac", err) when the
// integrity check fails and ("parse", err) when the authenticated body cannot
// be read.
func c20RefPaperParse(secret, data []byte) (*c20Parsed, string, error) {
	if len(data) < 32 {
		return nil, "mac", errors.New("payload shorter than the 32-byte signature")
	}
	sig, body := data[:32], data[32:]
	m := hmac.New(sha256.New, secret)
	m.Write(body)
	if !hmac.Equal(sig, m.Sum(nil)) {
		return nil, "mac", errors.New("HMAC-SHA256 over the bytes after the signature does not match under the configured secret")
	}
	r := verifkit.NewRefReader(body)
	out := &c20Parsed{}
	v, err := r.VarInt()
	if err != nil {
		return nil, "parse", fmt.Errorf("version: %w", err)
	}
	out.Version = int(v)
	if v > 4 || v < 1 {
		return out, "parse", fmt.Errorf("unsupported forwarding version %d", v)
	}
	if out.Address, err = c20RefUtf(r, 32767); err != nil {
		return out, "parse", fmt.Errorf("address: %w", err)
	}
	if _, err := netip.ParseAddr(out.Address); err != nil {
		return out, "parse", fmt.Errorf("address %q is not an IP literal: %w", out.Address, err)
	}
	if out.UUID, err = r.UUID(); err != nil {
		return out, "parse", fmt.Errorf("uuid: %w", err)
	}
	if out.Name, err = c20RefUtf(r, 16); err != nil {
		return out, "parse", fmt.Errorf("name: %w", err)
	}
	n, err := r.VarInt()
	if err != nil {
		return out, "parse", fmt.Errorf("property count: %w", err)
	}
	for i := 0; i < int(n); i++ {
		var p c20Prop
		if p.Name, err = c20RefUtf(r, 32767); err != nil {
			return out, "parse", fmt.Errorf("property %d name: %w", i, err)
		}
		if p.Value, err = c20RefUtf(r, 32767); err != nil {
			return out, "parse", fmt.Errorf("property %d value: %w", i, err)
		}
		has, err := r.Bool()
		if err != nil {
			return out, "parse", fmt.Errorf("property %d signature flag: %w", i, err)
		}
		if has {
			if p.Signature, err = c20RefUtf(r, 32767); err != nil {
				return out, "parse", fmt.Errorf("property %d signature: %w", i, err)
			}
		}
		out.Props = append(out.Props, p)
		out.HasSig = append(out.HasSig, has)
	}
	if out.Version == 2 || out.Version == 3 {
		out.HasKey = true
		e, err := r.U64()
		if err != nil {
			return out, "parse", fmt.Errorf("key expiry: %w", err)
		}
		out.ExpiryMs = int64(e)
		if out.PubKey, err = c20RefByteArray(r, 512); err != nil {
			return out, "parse", fmt.Errorf("public key: %w", err)
		}
		if out.Sig, err = c20RefByteArray(r, 4096); err != nil {
			return out, "parse", fmt.Errorf("key signature: %w", err)
		}
		if out.Version == 3 {
			if out.HasHolder, err = r.Bool(); err != nil {
				return out, "parse", fmt.Errorf("holder flag: %w", err)
			}
			if out.HasHolder {
				if out.Holder, err = r.UUID(); err != nil {
					return out, "parse", fmt.Errorf("holder uuid: %w", err)
				}
			}
		}
	}
	out.Trailing = r.Remaining()
	return out, "", nil
}

// c20Compare checks the parsed payload against the player of the case.
func c20Compare(c c20Case, p *c20Parsed) *verifkit.Violation {
	if p.Address != c.Address {
		return verifkit.Violationf("payload:address", "address parsed %q want %q", p.Address, c.Address)
	}
	if !bytes.Equal(p.UUID[:], c.UUID) {
		return verifkit.Violationf("payload:uuid", "uuid parsed %x want %x", p.UUID, c.UUID)
	}
	if p.Name != c.Name {
		return verifkit.Violationf("payload:name", "name parsed %q want %q", p.Name, c.Name)
	}
	if len(p.Props) != len(c.Props) {
		return verifkit.Violationf("payload:properties", "parsed %d properties want %d", len(p.Props), len(c.Props))
	}
	for i := range c.Props {
		if p.Props[i] != c.Props[i] {
			return verifkit.Violationf("payload:properties", "property %d parsed %+v want %+v", i, p.Props[i], c.Props[i])
		}
		if p.HasSig[i] != (c.Props[i].Signature != "") {
			return verifkit.Violationf("payload:properties", "property %d signature flag %v but signature %q", i, p.HasSig[i], c.Props[i].Signature)
		}
	}
	if p.HasKey {
		if c.Key == nil {
			return verifkit.Violationf("payload:key", "version %d carries key data but the player has no key", p.Version)
		}
		if p.ExpiryMs != c.Key.ExpiryMs || !bytes.Equal(p.PubKey, c.Key.PubKey) || !bytes.Equal(p.Sig, c.Key.Sig) {
			return verifkit.Violationf("payload:key", "key data parsed (expiry %d, key %x, sig %x) differs from the player's key (expiry %d, key %x, sig %x)",
				p.ExpiryMs, p.PubKey, p.Sig, c.Key.ExpiryMs, c.Key.PubKey, c.Key.Sig)
		}
		if p.Version == 3 {
			wantHolder := len(c.Key.Holder) == 16 && !bytes.Equal(c.Key.Holder, make([]byte, 16))
			if p.HasHolder != wantHolder || (wantHolder && !bytes.Equal(p.Holder[:], c.Key.Holder)) {
				return verifkit.Violationf("payload:key-holder", "holder parsed (%v,%x) want (%v,%x)", p.HasHolder, p.Holder, wantHolder, c.Key.Holder)
			}
		}
	}
	return nil
}

func c20KeyRev(k *c20KeyCase) int {
	if k == nil {
		return 0
	}
	return k.Revision
}

// ---------------------------------------------------------------- run: payload

func c20Run(c c20Case) verifkit.Result {
	pl := c20MakePlayer(c)
	data, err := CreateForwardingData(bytes.Clone(c.Secret), c.Address, pl, c.Requested)
	if err != nil {
		return verifkit.Fail("payload:error", "CreateForwardingData error: %v", err)
	}
	parsed, stage, err := c20RefPaperParse(c.Secret, data)
	if err != nil {
		return verifkit.Fail("payload:"+stage, "Paper-side %s failure: %v (payload %x)", stage, err, data)
	}
	if v := c20Compare(c, parsed); v != nil {
		return verifkit.Result{V: v}
	}
	want := c20RefVersion(c.Requested, c.Protocol, c20KeyRev(c.Key))
	if parsed.Version != want {
		return verifkit.Fail("negotiation:payload-version", "requested %d protocol %d key revision %d: payload carries version %d, Velocity chooses %d",
			c.Requested, c.Protocol, c20KeyRev(c.Key), parsed.Version, want)
	}
	// a different secret must not authenticate (guards a constant / ignored key)
	other := append(bytes.Clone(c.Secret), 'x')
	if _, stage, err := c20RefPaperParse(other, data); err == nil || stage != "mac" {
		return verifkit.Fail("payload:mac-not-keyed", "payload authenticates under a different secret %x", other)
	}

	labels := []string{fmt.Sprintf("version-%d", parsed.Version), fmt.Sprintf("keyrev-%d", c20KeyRev(c.Key))}
	switch n := len(c.Props); {
	case n == 0:
		labels = append(labels, "props-0")
	case n == 1:
		labels = append(labels, "props-1")
	default:
		labels = append(labels, "props-2+")
	}
	signed, unsigned := false, false
	for _, p := range c.Props {
		if p.Signature != "" {
			signed = true
		} else {
			unsigned = true
		}
		if len(p.Value) >= 128 {
			labels = append(labels, "prop-value>=128B")
			break
		}
	}
	total := 0
	for _, p := range c.Props {
		total += len(p.Name) + len(p.Value) + len(p.Signature)
	}
	switch {
	case total > 4096:
		labels = append(labels, "props-total>4KiB")
	case total > 2048:
		labels = append(labels, "props-total>2KiB")
	}
	if signed {
		labels = append(labels, "prop-signed")
	}
	if unsigned {
		labels = append(labels, "prop-unsigned")
	}
	switch n := len(c.Secret); {
	case n == 0:
		labels = append(labels, "secret-empty")
	case n > 64:
		labels = append(labels, "secret>64B")
	}
	if a, err := netip.ParseAddr(c.Address); err == nil && a.Is6() {
		labels = append(labels, "ipv6")
	}
	if c.Requested >= 2 {
		labels = append(labels, "requested>=2")
	}
	if parsed.Trailing != 0 {
		labels = append(labels, "trailing-bytes")
	}
	if parsed.Version == 3 && parsed.HasHolder {
		labels = append(labels, "holder")
	}
	return verifkit.Result{NonTrivial: c.Requested >= 2 || len(c.Props) > 0, Labels: labels}
}

// ---------------------------------------------------------------- run: negotiation table

type c20NegCase struct {
	Requested int `json:"requested"`
	Protocol  int `json:"protocol"`
	KeyRev    int `json:"key_rev"` // 0 none, 1 GenericV1, 2 LinkedV2
}

func c20RunNeg(c c20NegCase) verifkit.Result {
	pl := &c20Player{proto: proto.Protocol(c.Protocol)}
	if c.KeyRev != 0 {
		pl.key = &c20Key{c: c20KeyCase{Revision: c.KeyRev, PubKey: []byte{1}, Sig: []byte{2}}}
	}
	got := findForwardingVersion(c.Requested, pl)
	want := c20RefVersion(c.Requested, c.Protocol, c.KeyRev)
	labels := []string{fmt.Sprintf("chosen-%d", want)}
	// combinations the login path can produce: a key only exists for 1.19 (V1) and 1.19.1/2 (V2) clients
	real := c.KeyRev == 0 || (c.KeyRev == 1 && c.Protocol == 759) || (c.KeyRev == 2 && c.Protocol == 760)
	if real {
		labels = append(labels, "combo-reachable")
	} else {
		labels = append(labels, "combo-synthetic")
	}
	if got != want {
		return verifkit.Fail("negotiation:table", "requested %d protocol %d key revision %d: findForwardingVersion=%d, Velocity chooses %d",
			c.Requested, c.Protocol, c.KeyRev, got, want)
	}
	return verifkit.Result{NonTrivial: c.Requested >= 2, Labels: labels}
}

// ---------------------------------------------------------------- generators

var c20Alnum = []rune("abcdefghijklmnopqrstuvwxyzABCDEFGHIJKLMNOPQRSTUVWXYZ0123456789_")
var c20B64 = []rune("abcdefghijklmnopqrstuvwxyzABCDEFGHIJKLMNOPQRSTUVWXYZ0123456789+/=")

func c20GenName(t *rapid.T) string {
	return rapid.OneOf(
		rapid.StringOfN(rapid.SampledFrom(c20Alnum), 1, 16, -1),
		rapid.StringOfN(rapid.SampledFrom(c20Alnum), 16, 16, -1),
		rapid.Map(rapid.StringOfN(rapid.SampledFrom(c20Alnum), 1, 15, -1), func(s string) string { return "." + s }), // Floodgate prefix
		rapid.StringOfN(rapid.SampledFrom([]rune("aÄ名_é")), 1, 16, -1),
	).Draw(t, "name")
}

func c20GenText(max int) *rapid.Generator[string] {
	return rapid.OneOf(
		rapid.StringOfN(rapid.SampledFrom(c20B64), 0, max, -1),
		rapid.StringOfN(rapid.Rune(), 0, 40, -1),
		rapid.SampledFrom([]string{"", "textures", "\x00", "{\"a\":\"b\"}", "é名\U0001F600"}),
	)
}

func c20GenProps(t *rapid.T) []c20Prop {
	n := rapid.SampledFrom([]int{0, 0, 1, 1, 2, 3, 8}).Draw(t, "nprops")
	out := make([]c20Prop, 0, n)
	for i := 0; i < n; i++ {
		p := c20Prop{
			Name:  rapid.OneOf(rapid.SampledFrom([]string{"textures", "textures", "forgeClient", "extraData", ""}), c20GenText(20)).Draw(t, "pname"),
			Value: rapid.OneOf(c20GenText(64), c20GenText(64), c20GenText(3000)).Draw(t, "pvalue"),
		}
		if rapid.Bool().Draw(t, "signed") {
			p.Signature = rapid.OneOf(c20GenText(700), rapid.StringOfN(rapid.SampledFrom(c20B64), 1, 8, -1)).Draw(t, "psig")
		}
		if rapid.IntRange(0, 2).Draw(t, "realisticSkin") == 0 {
			// what a real Mojang-signed skin looks like: a base64 value of several
			// hundred to a few thousand characters and a 684 character signature, so
			// that whole payloads cross the 2 KiB / 4 KiB buffer sizes
			p.Name = "textures"
			p.Value = rapid.StringOfN(rapid.SampledFrom(c20B64), 400, 2600, -1).Draw(t, "skinValue")
			p.Signature = rapid.StringOfN(rapid.SampledFrom(c20B64), 684, 684, -1).Draw(t, "skinSig")
		}
		out = append(out, p)
	}
	return out
}

func c20GenAddr(t *rapid.T) string {
	if rapid.Bool().Draw(t, "v6") {
		b := rapid.SliceOfN(rapid.Byte(), 16, 16).Draw(t, "ip6")
		switch rapid.IntRange(0, 3).Draw(t, "ip6kind") {
		case 0:
			return "::1"
		case 1: // long zero run -> "::" compression
			for i := 2; i < 14; i++ {
				b[i] = 0
			}
		}
		a := netip.AddrFrom16([16]byte(b))
		if a.Is4In6() { // net.IP.String would print these dotted; keep plain v6 literals
			return "2001:db8::1"
		}
		return a.String()
	}
	b := rapid.SliceOfN(rapid.Byte(), 4, 4).Draw(t, "ip4")
	return netip.AddrFrom4([4]byte(b)).String()
}

func c20GenKey(t *rapid.T, rev int) *c20KeyCase {
	k := &c20KeyCase{Revision: rev}
	k.ExpiryMs = rapid.OneOf(rapid.Int64Range(1_600_000_000_000, 1_900_000_000_000), rapid.Int64Range(-5, 5), rapid.Int64()).Draw(t, "expiry")
	k.PubKey = rapid.OneOf(rapid.SliceOfN(rapid.Byte(), 294, 294), rapid.SliceOfN(rapid.Byte(), 1, 512)).Draw(t, "pubkey")
	k.Sig = rapid.OneOf(rapid.SliceOfN(rapid.Byte(), 256, 256), rapid.SliceOfN(rapid.Byte(), 512, 512), rapid.SliceOfN(rapid.Byte(), 0, 64)).Draw(t, "keysig")
	if rev == 2 && rapid.Bool().Draw(t, "holder") {
		k.Holder = rapid.SliceOfN(rapid.Byte(), 16, 16).Draw(t, "holderid")
		k.Holder[0] |= 1 // never the nil UUID (that is the "no holder" encoding)
	}
	return k
}

func c20Protocols() []int {
	var out []int
	for _, v := range version.SupportedVersions {
		out = append(out, int(v.Protocol))
	}
	return out
}

func c20Gen(t *rapid.T) c20Case {
	c := c20Case{}
	c.Secret = rapid.OneOf(
		rapid.SliceOfN(rapid.Byte(), 0, 64),
		rapid.SliceOfN(rapid.ByteRange('!', '~'), 12, 12), // generated secrets are 12 printable chars
		rapid.SliceOfN(rapid.Byte(), 65, 200),
	).Draw(t, "secret")
	c.Address = c20GenAddr(t)
	c.UUID = rapid.SliceOfN(rapid.Byte(), 16, 16).Draw(t, "uuid")
	c.Name = c20GenName(t)
	c.Props = c20GenProps(t)
	c.Requested = rapid.OneOf(rapid.IntRange(0, 6), rapid.IntRange(0, 6), rapid.IntRange(0, 127)).Draw(t, "requested")
	switch rapid.IntRange(0, 7).Draw(t, "combo") {
	case 0, 1: // 1.19 with / without GenericV1 key
		c.Protocol = 759
		if rapid.IntRange(0, 3).Draw(t, "haskey") > 0 {
			c.Key = c20GenKey(t, 1)
		}
	case 2, 3: // 1.19.1/2 with / without LinkedV2 key
		c.Protocol = 760
		if rapid.IntRange(0, 3).Draw(t, "haskey") > 0 {
			c.Key = c20GenKey(t, 2)
		}
	case 6, 7: // >= 1.19.3 client (no key exists there); lazy-session territory
		c.Protocol = rapid.SampledFrom(c20Protocols()).Draw(t, "protocol")
		if c.Protocol < 761 {
			c.Protocol = 761 + c.Protocol%16
		}
	case 4: // any protocol, no key
		c.Protocol = rapid.SampledFrom(c20Protocols()).Draw(t, "protocol")
	default: // any protocol, any key (synthetic combinations Velocity's table is also defined on)
		c.Protocol = rapid.SampledFrom(c20Protocols()).Draw(t, "protocol")
		if r := rapid.IntRange(0, 2).Draw(t, "rev"); r > 0 {
			c.Key = c20GenKey(t, r)
		}
	}
	return c
}

// ---------------------------------------------------------------- entry point

func TestVerif_C20(t *testing.T) {
	const negRule = "exhaustive: requested 0..127 x every supported client protocol x key in {none, GenericV1, LinkedV2}; findForwardingVersion compared with a transcription of Velocity's findForwardingVersion table; non-trivial = requested >= 2"
	if os.Getenv("VERIF_REPLAY") == "" {
		for _, p := range c20Protocols() {
			for rev := 0; rev <= 2; rev++ {
				for req := 0; req <= 127; req++ {
					verifkit.CheckCase(t, "C20", "negotiation", negRule, c20NegCase{Requested: req, Protocol: p, KeyRev: rev}, c20RunNeg)
				}
			}
		}
		verifkit.Flush()
	}
	// same sub-check through rapid: gives the enumeration a replay entry (and samples the table again)
	verifkit.Check(t, "C20", "negotiation", negRule,
		func(t *rapid.T) c20NegCase {
			return c20NegCase{Requested: rapid.IntRange(0, 127).Draw(t, "req"), Protocol: rapid.SampledFrom(c20Protocols()).Draw(t, "p"), KeyRev: rapid.IntRange(0, 2).Draw(t, "rev")}
		}, c20RunNeg)

	verifkit.Check(t, "C20", "payload",
		"secrets 0..200 B x IPv4/IPv6 literals x names <=16 chars x 0..8 properties (signed/unsigned, values up to 3000 chars, arbitrary unicode) x client protocol/key combos x requested 0..127; CreateForwardingData output verified and parsed by a re-implementation of Paper's VelocityProxy (HMAC-SHA256, VarInt version, address, UUID, name, properties, key data for v2/v3) and compared field by field; version compared with Velocity's table; non-trivial = requested >= 2 or properties non-empty",
		c20Gen, c20Run)
}
