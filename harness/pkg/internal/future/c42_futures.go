//go:build verif

package future

// C42: a future's value is fixed by its first completion; every callback
// registered before or after completion runs exactly once with that value; a
// chain of composed futures completes in chain order - for any interleaving of
// ThenAccept / ThenCompose / Complete across goroutines.
//
// A case is a generated scenario: k base futures, up to two ThenCompose chains
// (built the way chatQueue.queueTask builds them: head = ThenCompose(head, task)
// under a per-chain lock, the task returning a future that is completed inside the
// task or later by another goroutine), 1..8 actors each with a program of
// operations, and a schedule script ("order"): the first ops of the actors named
// in the script run strictly in script order (token passing), every other op
// runs free after the common start barrier. The scenario is repeated Reps times
// with varying Gosched noise and goroutine start order.
//
// Oracle (independent model, computed from the case only):
//   - which futures end up completed, hence which callbacks must have run (once)
//     and which must not have run;
//   - the set of admissible winning values per future: a completion is excluded
//     if another completion of the same future is known (from the script) to have
//     finished before it started;
//   - all callbacks of one future, including one registered after everything
//     else returned, saw the same value, and it is admissible;
//   - chain: task n runs once, after task n-1 and after the future returned by
//     task n-1 was completed, with the value of output n-1; output n carries the
//     value of the future returned by task n.
//
// Harness synchronisation is kept off the paths under test (per-callback atomic
// slots, no global log lock) so that the race detector still sees unsynchronised
// accesses inside the package.

import (
	"fmt"
	"runtime"
	"sort"
	"strings"
	"sync"
	"sync/atomic"
	"testing"
	"time"

	"go.minekube.com/gate/pkg/internal/verifkit"
	"pgregory.net/rapid"
)

type c42Nested struct {
	Kind string `json:"kind"` // "accept" | "complete"
	Fut  int    `json:"fut"`  // base future index, always > the parent's future index
	Val  int    `json:"val,omitempty"`
}

type c42Op struct {
	Kind   string      `json:"kind"` // "accept" | "complete" | "compose" | "inner"
	Fut    int         `json:"fut,omitempty"`
	Val    int         `json:"val,omitempty"`
	Chain  int         `json:"chain,omitempty"`
	Link   int         `json:"link,omitempty"` // 1-based link whose returned future an "inner" op completes
	Nested []c42Nested `json:"nested,omitempty"`
	Yield  int         `json:"yield,omitempty"`
}

type c42Chain struct {
	Base  int      `json:"base"`
	Inner []string `json:"inner"` // per link: "pre" (task completes the future it returns) | "async" (completed by "inner" ops)
}

type c42Case struct {
	Futures int        `json:"futures"`
	Chains  []c42Chain `json:"chains,omitempty"`
	Actors  [][]c42Op  `json:"actors"`
	// Order: actor indices; the i-th occurrence of actor a refers to a's i-th op.
	// Ops referred to run one after the other in this order; all others run free.
	Order []int `json:"order,omitempty"`
	Reps  int   `json:"reps"`
}

const c42Inf = 1 << 30

type c42Ival struct{ lo, hi int }

type c42Ev struct {
	val int
	iv  c42Ival
}

func c42Max(a, b int) int {
	if a > b {
		return a
	}
	return b
}

// c42Model is everything the oracle expects, derived from the case alone.
type c42Model struct {
	pos        [][]int           // pos[a][i] = script position of op i of actor a, or -1
	gates      int               // number of scripted ops
	expect     map[string]int    // slot key -> expected invocation count (0/1)
	slotFut    map[string]string // slot key -> future name
	completes  map[string]bool   // future name -> ends up completed
	candidates map[string][]int  // future name -> admissible values (base and async inner futures)
	links      []int             // links built per chain
	labels     []string
	nontrivial bool
}

func c42BaseName(i int) string     { return fmt.Sprintf("f%d", i) }
func c42OutName(c, n int) string   { return fmt.Sprintf("c%d.out%d", c, n) }
func c42InnerName(c, n int) string { return fmt.Sprintf("c%d.in%d", c, n) }
func c42OpKey(a, i int) string     { return fmt.Sprintf("a%d.%d", a, i) }
func c42NestKey(a, i, k int) string {
	return fmt.Sprintf("a%d.%d.n%d", a, i, k)
}
func c42TaskKey(c, n int) string { return fmt.Sprintf("c%d.task%d", c, n) }
func c42ObsKey(c, n int) string  { return fmt.Sprintf("c%d.obs%d", c, n) }
func c42LateKey(f string) string { return "late." + f }

// c42Valid reports whether the case is inside the generated domain (replay files
// could be edited by hand).
func c42Valid(c c42Case) error {
	if c.Futures < 1 || c.Futures > 8 || len(c.Actors) < 1 || len(c.Actors) > 8 || c.Reps < 1 || c.Reps > 1000 {
		return fmt.Errorf("sizes out of domain")
	}
	composes := make([]int, len(c.Chains))
	for ci, ch := range c.Chains {
		if ch.Base < 0 || ch.Base >= c.Futures || len(ch.Inner) < 1 || len(ch.Inner) > 5 {
			return fmt.Errorf("chain %d out of domain", ci)
		}
		for _, m := range ch.Inner {
			if m != "pre" && m != "async" {
				return fmt.Errorf("chain %d: inner mode %q", ci, m)
			}
		}
	}
	for a, ops := range c.Actors {
		for i, op := range ops {
			switch op.Kind {
			case "accept":
				if op.Fut < 0 || op.Fut >= c.Futures {
					return fmt.Errorf("op %d.%d: future", a, i)
				}
				for _, n := range op.Nested {
					if (n.Kind != "accept" && n.Kind != "complete") || n.Fut <= op.Fut || n.Fut >= c.Futures {
						return fmt.Errorf("op %d.%d: nested action outside the acyclic domain", a, i)
					}
				}
			case "complete":
				if op.Fut < 0 || op.Fut >= c.Futures {
					return fmt.Errorf("op %d.%d: future", a, i)
				}
			case "compose":
				if op.Chain < 0 || op.Chain >= len(c.Chains) {
					return fmt.Errorf("op %d.%d: chain", a, i)
				}
				composes[op.Chain]++
				if composes[op.Chain] > len(c.Chains[op.Chain].Inner) {
					return fmt.Errorf("op %d.%d: more compose ops than links", a, i)
				}
			case "inner":
				if op.Chain < 0 || op.Chain >= len(c.Chains) || op.Link < 1 || op.Link > len(c.Chains[op.Chain].Inner) ||
					c.Chains[op.Chain].Inner[op.Link-1] != "async" {
					return fmt.Errorf("op %d.%d: inner target", a, i)
				}
			default:
				return fmt.Errorf("op %d.%d: kind %q", a, i, op.Kind)
			}
		}
	}
	used := make([]int, len(c.Actors))
	for _, a := range c.Order {
		if a < 0 || a >= len(c.Actors) {
			return fmt.Errorf("order: actor %d", a)
		}
		used[a]++
		if used[a] > len(c.Actors[a]) {
			return fmt.Errorf("order: actor %d has no op %d", a, used[a])
		}
	}
	return nil
}

func c42Candidates(evs []c42Ev) []int {
	var out []int
	for i, e := range evs {
		dominated := false
		for j, o := range evs {
			if i != j && o.iv.hi < e.iv.lo {
				dominated = true
				break
			}
		}
		if !dominated {
			out = append(out, e.val)
		}
	}
	sort.Ints(out)
	return out
}

func c42Completion(evs []c42Ev) c42Ival {
	t := c42Ival{c42Inf, c42Inf}
	for _, e := range evs {
		if e.iv.lo < t.lo {
			t.lo = e.iv.lo
		}
		if e.iv.hi < t.hi {
			t.hi = e.iv.hi
		}
	}
	return t
}

func c42BuildModel(c c42Case) *c42Model {
	m := &c42Model{expect: map[string]int{}, slotFut: map[string]string{}, completes: map[string]bool{}, candidates: map[string][]int{}}
	// script positions
	m.pos = make([][]int, len(c.Actors))
	lastGated := make([]int, len(c.Actors))
	for a := range c.Actors {
		m.pos[a] = make([]int, len(c.Actors[a]))
		for i := range m.pos[a] {
			m.pos[a][i] = -1
		}
		lastGated[a] = -1
	}
	next := make([]int, len(c.Actors))
	for p, a := range c.Order {
		m.pos[a][next[a]] = p
		next[a]++
		lastGated[a] = p
	}
	m.gates = len(c.Order)
	opIv := func(a, i int) c42Ival {
		if p := m.pos[a][i]; p >= 0 {
			return c42Ival{p, p}
		}
		return c42Ival{lastGated[a], c42Inf}
	}

	// base futures in index order (nested actions only point upwards)
	type reg struct {
		a, i int
		iv   c42Ival
	}
	evs := make([][]c42Ev, c.Futures)
	regs := make([][]reg, c.Futures)
	for a, ops := range c.Actors {
		for i, op := range ops {
			switch op.Kind {
			case "complete":
				evs[op.Fut] = append(evs[op.Fut], c42Ev{op.Val, opIv(a, i)})
			case "accept":
				regs[op.Fut] = append(regs[op.Fut], reg{a, i, opIv(a, i)})
			}
		}
	}
	multi, nested := false, false
	regActors := make([]map[int]bool, c.Futures)  // actors registering on future (incl. compose on the base)
	compActors := make([]map[int]bool, c.Futures) // actors completing future at top level
	freeTouch := make([]bool, c.Futures)          // some reg/complete op on the future is unscripted
	for i := range regActors {
		regActors[i], compActors[i] = map[int]bool{}, map[int]bool{}
	}
	for i := 0; i < c.Futures; i++ {
		name := c42BaseName(i)
		done := len(evs[i]) > 0
		m.completes[name] = done
		if done {
			m.candidates[name] = c42Candidates(evs[i])
		}
		if len(evs[i]) > 1 {
			multi = true
		}
		t := c42Completion(evs[i])
		for _, r := range regs[i] {
			key := c42OpKey(r.a, r.i)
			m.slotFut[key] = name
			if done {
				m.expect[key] = 1
			} else {
				m.expect[key] = 0
			}
			for k, n := range c.Actors[r.a][r.i].Nested {
				nested = true
				if n.Kind == "accept" {
					// expectation filled in when future n.Fut is processed
					continue
				}
				if done {
					iv := c42Ival{c42Max(r.iv.lo, t.lo), c42Max(r.iv.hi, t.hi)}
					evs[n.Fut] = append(evs[n.Fut], c42Ev{n.Val, iv})
				}
				_ = k
			}
		}
	}
	// nested accept expectations (need both futures' completion)
	for i := 0; i < c.Futures; i++ {
		for _, r := range regs[i] {
			for k, n := range c.Actors[r.a][r.i].Nested {
				if n.Kind != "accept" {
					continue
				}
				key := c42NestKey(r.a, r.i, k)
				m.slotFut[key] = c42BaseName(n.Fut)
				if m.completes[c42BaseName(i)] && m.completes[c42BaseName(n.Fut)] {
					m.expect[key] = 1
				} else {
					m.expect[key] = 0
				}
			}
		}
	}
	for i := 0; i < c.Futures; i++ {
		k := c42LateKey(c42BaseName(i))
		m.slotFut[k] = c42BaseName(i)
		if m.completes[c42BaseName(i)] {
			m.expect[k] = 1
		} else {
			m.expect[k] = 0
		}
	}

	// chains
	m.links = make([]int, len(c.Chains))
	innerEvs := map[string][]c42Ev{}
	innerActors := map[string]map[int]bool{}
	innerFree := map[string]bool{}
	composeActors := make([]map[int]bool, len(c.Chains))
	composeFree := make([]bool, len(c.Chains))
	for ci := range c.Chains {
		composeActors[ci] = map[int]bool{}
	}
	for a, ops := range c.Actors {
		for i, op := range ops {
			switch op.Kind {
			case "compose":
				m.links[op.Chain]++
				composeActors[op.Chain][a] = true
				regActors[c.Chains[op.Chain].Base][a] = true
				if m.pos[a][i] < 0 {
					composeFree[op.Chain] = true
					freeTouch[c.Chains[op.Chain].Base] = true
				}
			case "inner":
				n := c42InnerName(op.Chain, op.Link)
				innerEvs[n] = append(innerEvs[n], c42Ev{op.Val, opIv(a, i)})
				if innerActors[n] == nil {
					innerActors[n] = map[int]bool{}
				}
				innerActors[n][a] = true
				if m.pos[a][i] < 0 {
					innerFree[n] = true
				}
			case "accept":
				regActors[op.Fut][a] = true
				if m.pos[a][i] < 0 {
					freeTouch[op.Fut] = true
				}
			case "complete":
				compActors[op.Fut][a] = true
				if m.pos[a][i] < 0 {
					freeTouch[op.Fut] = true
				}
			}
		}
	}
	chainAsync := false
	for ci, ch := range c.Chains {
		prevDone := m.completes[c42BaseName(ch.Base)]
		for n := 1; n <= len(ch.Inner); n++ {
			in := c42InnerName(ci, n)
			built := n <= m.links[ci]
			taskRuns := built && prevDone
			var innerDone bool
			if ch.Inner[n-1] == "pre" {
				innerDone = taskRuns
			} else {
				innerDone = len(innerEvs[in]) > 0
				if innerDone {
					m.candidates[in] = c42Candidates(innerEvs[in])
				}
				if len(innerEvs[in]) > 1 {
					multi = true
				}
				if built {
					chainAsync = true
				}
			}
			m.completes[in] = innerDone
			lk := c42LateKey(in)
			m.slotFut[lk] = in
			m.expect[lk] = c42B2I(innerDone)
			if !built {
				continue
			}
			out := c42OutName(ci, n)
			outDone := taskRuns && innerDone
			m.completes[out] = outDone
			prevName := c42BaseName(ch.Base)
			if n > 1 {
				prevName = c42OutName(ci, n-1)
			}
			m.slotFut[c42TaskKey(ci, n)] = prevName
			m.expect[c42TaskKey(ci, n)] = c42B2I(taskRuns)
			m.slotFut[c42ObsKey(ci, n)] = out
			m.expect[c42ObsKey(ci, n)] = c42B2I(outDone)
			m.slotFut[c42LateKey(out)] = out
			m.expect[c42LateKey(out)] = c42B2I(outDone)
			prevDone = outDone
		}
	}

	// labels / non-trivial rule: a registration and a completion of the same
	// future are issued by different actors and at least one of them is unscripted
	// (so they can really overlap).
	overlap := false
	for i := 0; i < c.Futures; i++ {
		if !freeTouch[i] {
			continue
		}
		for ra := range regActors[i] {
			for ca := range compActors[i] {
				if ra != ca {
					overlap = true
				}
			}
		}
	}
	for ci, ch := range c.Chains {
		// the task of link n registers on the inner future from whichever goroutine
		// completes output n-1; an "inner" op from another actor can overlap it.
		for n := 1; n <= m.links[ci] && n <= len(ch.Inner); n++ {
			in := c42InnerName(ci, n)
			if ch.Inner[n-1] == "async" && len(innerEvs[in]) > 0 && (innerFree[in] || composeFree[ci]) {
				for ia := range innerActors[in] {
					for ca := range composeActors[ci] {
						if ia != ca {
							overlap = true
						}
					}
				}
			}
		}
	}
	m.nontrivial = overlap
	switch {
	case len(c.Order) == 0:
		m.labels = append(m.labels, "mode:free")
	case len(c.Order) == c42TotalOps(c):
		m.labels = append(m.labels, "mode:serial")
	default:
		m.labels = append(m.labels, "mode:partial")
	}
	if overlap {
		m.labels = append(m.labels, "reg-complete-overlap-possible")
	}
	if multi {
		m.labels = append(m.labels, "multi-complete")
	}
	if nested {
		m.labels = append(m.labels, "nested-callback-actions")
	}
	maxLinks := 0
	for _, l := range m.links {
		if l > maxLinks {
			maxLinks = l
		}
	}
	if maxLinks > 0 {
		m.labels = append(m.labels, "chain")
	}
	if maxLinks >= 3 {
		m.labels = append(m.labels, "chain-len>=3")
	}
	if chainAsync {
		m.labels = append(m.labels, "chain-async-inner")
	}
	never := false
	for _, d := range m.completes {
		if !d {
			never = true
		}
	}
	if never {
		m.labels = append(m.labels, "some-future-never-completed")
	}
	m.labels = append(m.labels, fmt.Sprintf("actors:%d", len(c.Actors)))
	return m
}

func c42B2I(b bool) int {
	if b {
		return 1
	}
	return 0
}

func c42TotalOps(c c42Case) int {
	n := 0
	for _, ops := range c.Actors {
		n += len(ops)
	}
	return n
}

// ---- execution

type c42Slot struct {
	count atomic.Int32
	first atomic.Int64
	last  atomic.Int64
}

func (s *c42Slot) hit(v int) {
	if s.count.Add(1) == 1 {
		s.first.Store(int64(v))
	}
	s.last.Store(int64(v))
}

type c42Env struct {
	c     c42Case
	m     *c42Model
	rep   int
	base  []*Future[int]
	inner [][]*Future[int]
	outs  [][]*Future[int] // outs[c][n-1], guarded by chainMu[c] while actors run
	// per chain: harness lock playing the role of chatQueue.internalLock
	chainMu    []sync.Mutex
	stage      []atomic.Int32  // number of the last task that ran, per chain
	innerBegun [][]atomic.Bool // a completion of inner n was started
	slots      map[string]*c42Slot
	start      chan struct{}
	gate       []chan struct{}
	wg         sync.WaitGroup
	flagged    atomic.Pointer[verifkit.Violation]
}

func (e *c42Env) flag(key, format string, args ...any) {
	e.flagged.CompareAndSwap(nil, verifkit.Violationf(key, format, args...))
}

func c42NewEnv(c c42Case, m *c42Model, rep int) *c42Env {
	e := &c42Env{c: c, m: m, rep: rep, slots: map[string]*c42Slot{}, start: make(chan struct{})}
	for i := 0; i < c.Futures; i++ {
		e.base = append(e.base, New[int]())
	}
	e.inner = make([][]*Future[int], len(c.Chains))
	e.outs = make([][]*Future[int], len(c.Chains))
	e.chainMu = make([]sync.Mutex, len(c.Chains))
	e.stage = make([]atomic.Int32, len(c.Chains))
	e.innerBegun = make([][]atomic.Bool, len(c.Chains))
	for ci, ch := range c.Chains {
		e.innerBegun[ci] = make([]atomic.Bool, len(ch.Inner))
		for range ch.Inner {
			e.inner[ci] = append(e.inner[ci], New[int]())
		}
	}
	for k := range m.expect {
		e.slots[k] = &c42Slot{}
	}
	e.gate = make([]chan struct{}, m.gates+1)
	for i := range e.gate {
		e.gate[i] = make(chan struct{})
	}
	close(e.gate[0])
	return e
}

func (e *c42Env) c42Actor(a int) {
	defer e.wg.Done()
	<-e.start
	for i, op := range e.c.Actors[a] {
		p := e.m.pos[a][i]
		if p >= 0 {
			<-e.gate[p]
		}
		for y := (op.Yield + e.rep + a) % 4; y > 0; y-- {
			runtime.Gosched()
		}
		e.c42Exec(a, i, op)
		if p >= 0 {
			close(e.gate[p+1])
		}
	}
}

func (e *c42Env) c42Exec(a, i int, op c42Op) {
	switch op.Kind {
	case "accept":
		f := e.base[op.Fut]
		slot := e.slots[c42OpKey(a, i)]
		nested := op.Nested
		ret := f.ThenAccept(func(v int) {
			slot.hit(v)
			for k, n := range nested {
				switch n.Kind {
				case "accept":
					ns := e.slots[c42NestKey(a, i, k)]
					e.base[n.Fut].ThenAccept(func(v int) { ns.hit(v) })
				case "complete":
					e.base[n.Fut].Complete(n.Val)
				}
			}
		})
		if ret != f {
			e.flag("return-value:ThenAccept", "ThenAccept returned a different future")
		}
	case "complete":
		f := e.base[op.Fut]
		if ret := f.Complete(op.Val); ret != f {
			e.flag("return-value:Complete", "Complete returned a different future")
		}
	case "inner":
		e.innerBegun[op.Chain][op.Link-1].Store(true)
		e.inner[op.Chain][op.Link-1].Complete(op.Val)
	case "compose":
		ci := op.Chain
		e.chainMu[ci].Lock()
		n := len(e.outs[ci]) + 1
		prev := e.base[e.c.Chains[ci].Base]
		if n > 1 {
			prev = e.outs[ci][n-2]
		}
		out := ThenCompose(prev, func(v int) *Future[int] { return e.c42Task(ci, n, v) })
		obs := e.slots[c42ObsKey(ci, n)]
		out.ThenAccept(func(v int) {
			obs.hit(v)
			if st := int(e.stage[ci].Load()); st < n {
				e.flag("chain-order:ThenCompose", "chain %d: output %d completed while only %d task(s) had run", ci, n, st)
			}
		})
		e.outs[ci] = append(e.outs[ci], out)
		e.chainMu[ci].Unlock()
	}
}

// c42Task is the function composed as link n of chain ci.
func (e *c42Env) c42Task(ci, n, v int) *Future[int] {
	e.slots[c42TaskKey(ci, n)].hit(v)
	if !e.stage[ci].CompareAndSwap(int32(n-1), int32(n)) {
		e.flag("chain-order:ThenCompose", "chain %d: task %d ran when the last task that had run was %d (tasks must run once each, in chain order)", ci, n, e.stage[ci].Load())
	}
	if n > 1 && !e.innerBegun[ci][n-2].Load() {
		e.flag("chain-order:ThenCompose", "chain %d: task %d ran before the future returned by task %d was completed", ci, n, n-1)
	}
	in := e.inner[ci][n-1]
	if e.c.Chains[ci].Inner[n-1] == "pre" {
		e.innerBegun[ci][n-1].Store(true)
		in.Complete(c42PreValue(v, n))
	}
	return in
}

func c42PreValue(arg, n int) int { return arg*7 + n }

// c42RunOnce executes one repetition and judges it.
func c42RunOnce(c c42Case, m *c42Model, rep int) (v *verifkit.Violation, inconclusive bool) {
	e := c42NewEnv(c, m, rep)
	var finished atomic.Bool
	w := verifkit.Watch(5*time.Second, "", func() {
		e.wg.Add(len(c.Actors))
		for k := range c.Actors {
			a := (k + rep) % len(c.Actors) // rotate goroutine start order
			go e.c42Actor(a)
		}
		close(e.start)
		e.wg.Wait()
		// registrations after everything else returned
		for i, f := range e.base {
			s := e.slots[c42LateKey(c42BaseName(i))]
			f.ThenAccept(func(v int) { s.hit(v) })
		}
		for ci := range c.Chains {
			for n, f := range e.inner[ci] {
				s := e.slots[c42LateKey(c42InnerName(ci, n+1))]
				f.ThenAccept(func(v int) { s.hit(v) })
			}
			for n, f := range e.outs[ci] {
				s := e.slots[c42LateKey(c42OutName(ci, n+1))]
				f.ThenAccept(func(v int) { s.hit(v) })
			}
		}
		finished.Store(true)
	})
	switch w.Outcome {
	case verifkit.Panicked:
		return verifkit.Violationf("panic:future", "panic in scenario: %v\n%s", w.PanicValue, w.PanicStack), false
	case verifkit.Deadlocked, verifkit.Slow:
		if finished.Load() {
			break
		}
		if ok, why := c42ConfirmDeadlock(); ok {
			return verifkit.Violationf("deadlock:Future", "operations did not return (acyclic scenario): %s", why), false
		}
		return nil, true
	}
	if fv := e.flagged.Load(); fv != nil {
		return fv, false
	}
	return c42Judge(e), false
}

// c42ConfirmDeadlock: every remaining actor goroutine is parked (mutex / gate /
// barrier) and at least one is parked in sync.(*Mutex).Lock below a Future method.
func c42ConfirmDeadlock() (bool, string) {
	buf := make([]byte, 4<<20)
	buf = buf[:runtime.Stack(buf, true)]
	inFuture := ""
	actors := 0
	for _, sec := range strings.Split(string(buf), "\n\n") {
		if !strings.Contains(sec, ").c42Actor") {
			continue
		}
		actors++
		head := sec
		if i := strings.IndexByte(sec, '\n'); i >= 0 {
			head = sec[:i]
		}
		parked := strings.Contains(head, "sync.Mutex.Lock") || strings.Contains(head, "semacquire") ||
			strings.Contains(head, "chan receive") || strings.Contains(head, "sync.WaitGroup.Wait")
		if !parked {
			return false, ""
		}
		if strings.Contains(sec, "sync.(*Mutex).Lock") && strings.Contains(sec, "internal/future.(*Future") {
			inFuture = sec
		}
	}
	if actors == 0 || inFuture == "" {
		return false, ""
	}
	return true, inFuture
}

func c42Judge(e *c42Env) *verifkit.Violation {
	m := e.m
	keys := make([]string, 0, len(m.expect))
	for k := range m.expect {
		keys = append(keys, k)
	}
	sort.Strings(keys)
	site := func(k string) string {
		switch {
		case strings.HasPrefix(k, "late."):
			return "ThenAccept-after-completion"
		case strings.Contains(k, ".task"):
			return "ThenCompose"
		case strings.Contains(k, ".obs"):
			return "composed-output"
		case strings.Contains(k, ".n"):
			return "ThenAccept-from-callback"
		}
		return "ThenAccept"
	}
	// exactly once
	for _, k := range keys {
		got := int(e.slots[k].count.Load())
		want := m.expect[k]
		switch {
		case got == want:
		case want == 1 && got == 0:
			return verifkit.Violationf("callback-lost:"+site(k), "callback %s on future %s never ran although the future was completed (rep %d)", k, m.slotFut[k], e.rep)
		case want == 0:
			return verifkit.Violationf("callback-spurious:"+site(k), "callback %s on future %s ran %d time(s) although the future is never completed (rep %d)", k, m.slotFut[k], got, e.rep)
		default:
			return verifkit.Violationf("callback-repeated:"+site(k), "callback %s on future %s ran %d times (rep %d)", k, m.slotFut[k], got, e.rep)
		}
	}
	// one value per future, the one seen by a registration made after all ops returned
	final := map[string]int{}
	for _, k := range keys {
		if strings.HasPrefix(k, "late.") && m.expect[k] == 1 {
			final[m.slotFut[k]] = int(e.slots[k].first.Load())
		}
	}
	for _, k := range keys {
		if m.expect[k] != 1 {
			continue
		}
		f := m.slotFut[k]
		s := e.slots[k]
		if int(s.first.Load()) != final[f] || int(s.last.Load()) != final[f] {
			return verifkit.Violationf("value-changed:"+site(k), "callback %s saw value %d of future %s, a later registration saw %d (rep %d)", k, s.first.Load(), f, final[f], e.rep)
		}
	}
	// first completion wins
	fnames := make([]string, 0, len(m.candidates))
	for f := range m.candidates {
		fnames = append(fnames, f)
	}
	sort.Strings(fnames)
	for _, f := range fnames {
		if !m.completes[f] {
			continue
		}
		got, ok := final[f]
		if !ok {
			continue // pre-created inner future of a link that was never built: no late slot mismatch possible
		}
		found := false
		for _, v := range m.candidates[f] {
			if v == got {
				found = true
			}
		}
		if !found {
			return verifkit.Violationf("value-not-first-completion", "future %s ended with value %d; admissible first completions: %v (rep %d)", f, got, m.candidates[f], e.rep)
		}
	}
	// chain values
	for ci, ch := range e.c.Chains {
		for n := 1; n <= m.links[ci]; n++ {
			prev := c42BaseName(ch.Base)
			if n > 1 {
				prev = c42OutName(ci, n-1)
			}
			if m.expect[c42TaskKey(ci, n)] != 1 {
				break
			}
			arg := int(e.slots[c42TaskKey(ci, n)].first.Load())
			if arg != final[prev] {
				return verifkit.Violationf("chain-value:ThenCompose", "chain %d task %d received %d, its input future %s holds %d (rep %d)", ci, n, arg, prev, final[prev], e.rep)
			}
			in := c42InnerName(ci, n)
			if !m.completes[in] {
				break
			}
			if ch.Inner[n-1] == "pre" && final[in] != c42PreValue(arg, n) {
				return verifkit.Violationf("chain-value:ThenCompose", "chain %d: future returned by task %d holds %d, completed with %d (rep %d)", ci, n, final[in], c42PreValue(arg, n), e.rep)
			}
			if out := c42OutName(ci, n); final[out] != final[in] {
				return verifkit.Violationf("chain-value:ThenCompose", "chain %d output %d holds %d, the future returned by its task holds %d (rep %d)", ci, n, final[out], final[in], e.rep)
			}
		}
	}
	return nil
}

func c42Run(c c42Case) verifkit.Result {
	if err := c42Valid(c); err != nil {
		return verifkit.Result{Labels: []string{"invalid-case"}}
	}
	m := c42BuildModel(c)
	inconclusive := false
	done := 0
	for rep := 0; rep < c.Reps; rep++ {
		v, inc := c42RunOnce(c, m, rep)
		done++
		if v != nil {
			verifkit.AddNote("C42", "schedules", "schedules", int64(done))
			return verifkit.Result{V: v}
		}
		if inc {
			inconclusive = true
			break // goroutines may be stuck; do not pile up more
		}
	}
	verifkit.AddNote("C42", "schedules", "schedules", int64(done))
	return verifkit.Result{NonTrivial: m.nontrivial, Labels: m.labels, Inconclusive: inconclusive}
}

// ---- generator

func c42Gen(t *rapid.T) c42Case {
	var c c42Case
	c.Futures = rapid.IntRange(1, 4).Draw(t, "futures")
	nActors := rapid.SampledFrom([]int{1, 2, 2, 3, 3, 4, 4, 6, 8}).Draw(t, "actors")
	nChains := rapid.SampledFrom([]int{0, 0, 1, 1, 2}).Draw(t, "chains")
	asyncLinks := [][2]int{}
	for ci := 0; ci < nChains; ci++ {
		ch := c42Chain{Base: rapid.IntRange(0, c.Futures-1).Draw(t, "chainBase")}
		ch.Inner = rapid.SliceOfN(rapid.SampledFrom([]string{"pre", "async"}), 1, 5).Draw(t, "inner")
		for n, mode := range ch.Inner {
			if mode == "async" {
				asyncLinks = append(asyncLinks, [2]int{ci, n + 1})
			}
		}
		c.Chains = append(c.Chains, ch)
	}
	kinds := []string{"accept", "accept", "accept", "complete", "complete", "complete"}
	if nChains > 0 {
		kinds = append(kinds, "compose", "compose", "compose")
	}
	if len(asyncLinks) > 0 {
		kinds = append(kinds, "inner", "inner")
	}
	composes := make([]int, nChains)
	for a := 0; a < nActors; a++ {
		nOps := rapid.IntRange(1, 6).Draw(t, "nOps")
		var ops []c42Op
		for i := 0; i < nOps; i++ {
			op := c42Op{Kind: rapid.SampledFrom(kinds).Draw(t, "kind"), Yield: rapid.IntRange(0, 3).Draw(t, "yield")}
			converted := false
			if op.Kind == "compose" {
				op.Chain = rapid.IntRange(0, nChains-1).Draw(t, "chain")
				if composes[op.Chain] >= len(c.Chains[op.Chain].Inner) {
					// chain is full: complete its base instead
					op.Kind, op.Fut, op.Chain, converted = "complete", c.Chains[op.Chain].Base, 0, true
				} else {
					composes[op.Chain]++
				}
			}
			val := 1000*(a+1) + 10*i
			switch op.Kind {
			case "accept":
				op.Fut = rapid.IntRange(0, c.Futures-1).Draw(t, "fut")
				if op.Fut < c.Futures-1 {
					nn := rapid.SampledFrom([]int{0, 0, 1, 2}).Draw(t, "nNested")
					for k := 0; k < nn; k++ {
						op.Nested = append(op.Nested, c42Nested{
							Kind: rapid.SampledFrom([]string{"accept", "complete"}).Draw(t, "nestedKind"),
							Fut:  rapid.IntRange(op.Fut+1, c.Futures-1).Draw(t, "nestedFut"),
						})
						if op.Nested[k].Kind == "complete" {
							op.Nested[k].Val = val + k + 1
						}
					}
				}
			case "complete":
				if !converted {
					op.Fut = rapid.IntRange(0, c.Futures-1).Draw(t, "fut")
				}
				op.Val = val
			case "inner":
				l := rapid.SampledFrom(asyncLinks).Draw(t, "innerTarget")
				op.Chain, op.Link, op.Val = l[0], l[1], val
			}
			ops = append(ops, op)
		}
		c.Actors = append(c.Actors, ops)
	}
	total := c42TotalOps(c)
	mode := rapid.SampledFrom([]string{"free", "free", "partial", "serial"}).Draw(t, "mode")
	scripted := 0
	switch mode {
	case "serial":
		scripted = total
	case "partial":
		if total > 1 {
			scripted = rapid.IntRange(1, total-1).Draw(t, "scripted")
		}
	}
	remaining := make([]int, nActors)
	for a := range remaining {
		remaining[a] = len(c.Actors[a])
	}
	for len(c.Order) < scripted {
		var avail []int
		for a, r := range remaining {
			if r > 0 {
				avail = append(avail, a)
			}
		}
		a := avail[rapid.IntRange(0, len(avail)-1).Draw(t, "next")]
		remaining[a]--
		c.Order = append(c.Order, a)
	}
	switch {
	case mode == "serial" || nActors == 1:
		c.Reps = 2
	case verifkit.Thorough():
		c.Reps = 50
	default:
		c.Reps = 20
	}
	return c
}

func TestVerif_C42(t *testing.T) {
	verifkit.Check(t, "C42", "schedules",
		"scenario = 1-4 base futures, 0-2 ThenCompose chains (<=5 links; the composed task returns a future completed in the task or later by another goroutine), 1-8 actors x 1-6 ops over {ThenAccept (callback may register on / complete higher-numbered futures), Complete (repeated, distinct values), compose next link, complete a task's future}; schedule = script prefix run in exact order + free-running rest from a common barrier (serial / partial / free), repeated Reps times with Gosched noise and rotated start order; oracle = model of completed futures, exactly-once per callback incl. a registration after all ops returned, single value per future that is an admissible first completion, chain order and chain values; non-trivial = a registration and a completion of one future come from different actors with at least one of them unscripted (they can overlap)",
		c42Gen, c42Run)
}
