//go:build verif

package packetlimiter

import (
	"fmt"
	"math/big"
	"math/bits"
	"testing"
	"time"

	"go.minekube.com/gate/pkg/internal/verifkit"
	"pgregory.net/rapid"
)

// C34 (packet limiter part).
//
// Sub-check "window": the ring-buffer sliding-window `counter` is driven directly
// with generated timestamps (the production caller passes time.Now().UnixNano(),
// a monotone clock) and compared after every step with a naive list-based
// sliding-window sum. Window membership follows the doc comment of counter
// ("expiring entries older than the interval"): an entry is dropped iff
// now - t > interval.
//
// Sub-check "nonmonotone": arbitrary timestamps; only crash-freedom is asserted
// (a sliding window is defined on a clock).
//
// Sub-check "limiter" (separate test function, fewer cases): Limiter.Account reads
// the wall clock, so only clock-independent regimes are judged, see c34LimRun.

type c34Step struct {
	// Delta is the (non-negative) advance of the clock before this step.
	Delta int64 `json:"d"`
	// Count is the amount recorded (ignored for query steps).
	Count int64 `json:"c"`
	// Query: only expire(now) is called (a read of the window at a later time).
	Query bool `json:"q,omitempty"`
}

type c34WinCase struct {
	IntervalNs int64     `json:"interval_ns"`
	Start      int64     `json:"start"`
	Steps      []c34Step `json:"steps"`
}

type c34RefEntry struct {
	off   uint64
	count int64
}

func c34WinRun(c c34WinCase) verifkit.Result {
	if c.IntervalNs <= 0 {
		return verifkit.Result{Labels: []string{"out-of-domain"}}
	}
	ctr := newCounter(time.Duration(c.IntervalNs))
	var ref []c34RefEntry // every event ever recorded, in time order
	var off uint64
	var (
		resizes, wrappedResizes int
		expiredSteps            int
		boundaryEq              bool
		boundaryPlus1           bool
		signWrap                bool
		maxLive                 int
	)
	prevLive := 0
	for i, s := range c.Steps {
		if s.Delta < 0 || s.Count < 0 {
			return verifkit.Result{Labels: []string{"out-of-domain"}}
		}
		off += uint64(s.Delta)
		if off >= 1<<62 {
			return verifkit.Result{Labels: []string{"out-of-domain"}}
		}
		now := c.Start + int64(off) // wraps like a real int64 nanosecond clock would
		if (now < 0) != (c.Start < 0) {
			signWrap = true
		}
		preLen := len(ctr.times)
		preWrapped := ctr.tail < ctr.head
		if s.Query {
			ctr.expire(now)
		} else {
			ctr.updateAndAdd(s.Count, now)
			ref = append(ref, c34RefEntry{off: off, count: s.Count})
		}
		if len(ctr.times) != preLen {
			resizes++
			if preWrapped {
				wrappedResizes++
			}
		}
		// reference: naive sum over all events whose age is at most the interval
		var want int64
		live := 0
		for _, e := range ref {
			age := off - e.off
			if age <= uint64(c.IntervalNs) {
				want += e.count
				live++
				if age == uint64(c.IntervalNs) {
					boundaryEq = true
				}
			} else if age == uint64(c.IntervalNs)+1 {
				boundaryPlus1 = true
			}
		}
		expect := prevLive
		if !s.Query {
			expect++
		}
		if live < expect {
			expiredSteps++
		}
		prevLive = live
		if live > maxLive {
			maxLive = live
		}
		if got := ctr.sum(); got != want {
			return verifkit.Fail("window:sum-mismatch",
				"step %d (query=%v now=%d off=%d interval=%d): counter.sum()=%d, naive sliding-window sum=%d (live entries %d, ring len %d head %d tail %d)",
				i, s.Query, now, off, c.IntervalNs, got, want, live, len(ctr.times), ctr.head, ctr.tail)
		}
	}
	labels := []string{"window"}
	if expiredSteps > 0 {
		labels = append(labels, "expired")
	}
	if resizes >= 1 {
		labels = append(labels, "resize>=1")
	}
	if resizes >= 3 {
		labels = append(labels, "resize>=3")
	}
	if wrappedResizes > 0 {
		labels = append(labels, "resize-wrapped")
	}
	if boundaryEq {
		labels = append(labels, "age==interval")
	}
	if boundaryPlus1 {
		labels = append(labels, "age==interval+1")
	}
	if signWrap {
		labels = append(labels, "int64-wrap")
	}
	if expiredSteps > 0 && resizes > 0 && boundaryEq {
		labels = append(labels, "expired+resize+boundary")
	}
	return verifkit.Result{NonTrivial: expiredSteps > 0 && resizes > 0, Labels: labels}
}

func c34GenWin(t *rapid.T) c34WinCase {
	interval := rapid.OneOf(
		rapid.SampledFrom([]int64{1, 2, 3, 7, 10, 1000, int64(time.Second), int64(7 * time.Second), int64(time.Hour)}),
		rapid.Int64Range(1, 64),
		rapid.Int64Range(1, int64(10*time.Second)),
	).Draw(t, "interval")
	start := rapid.OneOf(
		rapid.Just(int64(0)),
		rapid.Int64Range(1_600_000_000_000_000_000, 1_900_000_000_000_000_000), // realistic UnixNano
		rapid.Int64Range(-1000, 1000),
		rapid.Int64Range(1<<63-1-int64(1<<20), 1<<63-1), // about to wrap
		rapid.Int64Range(-1<<63, -1<<63+int64(1<<20)),
		rapid.Int64(),
	).Draw(t, "start")

	var steps []c34Step
	var offs []uint64 // offsets of recorded events
	var off uint64
	push := func(delta int64, count int64, query bool) {
		if delta < 0 {
			delta = 0
		}
		if off+uint64(delta) >= 1<<61 {
			delta = 0
		}
		off += uint64(delta)
		steps = append(steps, c34Step{Delta: delta, Count: count, Query: query})
		if !query {
			offs = append(offs, off)
		}
	}
	count := func() int64 {
		return rapid.OneOf(
			rapid.Just(int64(1)),
			rapid.Int64Range(0, 3),
			rapid.Int64Range(0, 2<<20),
			rapid.Int64Range(0, 1<<31),
		).Draw(t, "count")
	}
	nseg := rapid.IntRange(1, 10).Draw(t, "nseg")
	for s := 0; s < nseg && len(steps) < 220; s++ {
		switch rapid.SampledFrom([]string{"burst", "burst", "spread", "boundary", "align", "align", "gap", "query"}).Draw(t, "seg") {
		case "burst":
			n := rapid.SampledFrom([]int{1, 3, 7, 8, 9, 15, 16, 17, 31, 33, 40, 70}).Draw(t, "n")
			d := rapid.SampledFrom([]int64{0, 0, 1}).Draw(t, "bd")
			if d*int64(n) > interval {
				d = 0
			}
			for i := 0; i < n; i++ {
				push(d, count(), false)
			}
		case "spread":
			n := rapid.IntRange(1, 20).Draw(t, "n")
			for i := 0; i < n; i++ {
				push(rapid.Int64Range(0, interval).Draw(t, "sd"), count(), false)
			}
		case "boundary":
			push(interval+rapid.Int64Range(-1, 1).Draw(t, "b"), count(), false)
		case "align":
			// put the clock exactly interval-1 / interval / interval+1 after an earlier event
			if len(offs) == 0 {
				push(0, count(), false)
				break
			}
			j := rapid.IntRange(0, len(offs)-1).Draw(t, "j")
			target := int64(offs[j]) + interval + rapid.Int64Range(-1, 1).Draw(t, "b")
			delta := target - int64(off)
			if delta < 0 {
				// the aligned instant is already in the past; align to the newest event instead
				delta = int64(offs[len(offs)-1]) + interval + rapid.Int64Range(-1, 1).Draw(t, "b2") - int64(off)
			}
			push(delta, count(), rapid.Bool().Draw(t, "asQuery"))
		case "gap":
			push(rapid.OneOf(
				rapid.Just(2*interval),
				rapid.Int64Range(interval+1, 3*interval+3),
				rapid.Just(int64(1)<<50),
			).Draw(t, "g"), count(), false)
		case "query":
			push(rapid.Int64Range(0, 2*interval).Draw(t, "qd"), 0, true)
		}
	}
	return c34WinCase{IntervalNs: interval, Start: start, Steps: steps}
}

// ---- non-monotone timestamps: crash-freedom only -------------------------------

type c34NMCase struct {
	IntervalNs int64   `json:"interval_ns"`
	Nows       []int64 `json:"nows"`
	Counts     []int64 `json:"counts"`
}

func c34NMRun(c c34NMCase) (res verifkit.Result) {
	if c.IntervalNs <= 0 {
		return verifkit.Result{Labels: []string{"out-of-domain"}}
	}
	defer func() {
		if p := recover(); p != nil {
			res = verifkit.Fail("panic:counter-nonmonotone", "counter panicked on a non-monotone timestamp sequence: %v", p)
		}
	}()
	ctr := newCounter(time.Duration(c.IntervalNs))
	back := false
	for i, now := range c.Nows {
		if i > 0 && now-c.Nows[i-1] < 0 {
			back = true
		}
		cnt := int64(1)
		if i < len(c.Counts) {
			cnt = c.Counts[i]
		}
		ctr.updateAndAdd(cnt, now)
		_ = ctr.sum()
		_ = ctr.rate()
	}
	return verifkit.Result{NonTrivial: back, Labels: []string{fmt.Sprintf("backwards=%v", back)}}
}

// ---- Limiter.Account in clock-independent regimes --------------------------------

type c34Run struct {
	N    int `json:"n"`
	Size int `json:"size"`
}

type c34LimCase struct {
	PPS      int      `json:"pps"`
	BPS      int      `json:"bps"`
	WindowNs int64    `json:"window_ns"`
	Runs     []c34Run `json:"runs"`
}

const c34LongWindow = int64(30 * time.Minute)

// c34Cmp compares total*1e9 with perSecond*windowNs exactly (128-bit products).
// All arguments are non-negative in the domain.
func c34Cmp(total int64, perSecond int, windowNs int64) int {
	lh, ll := bits.Mul64(uint64(total), 1_000_000_000)
	rh, rl := bits.Mul64(uint64(perSecond), uint64(windowNs))
	switch {
	case lh != rh:
		if lh > rh {
			return 1
		}
		return -1
	case ll != rl:
		if ll > rl {
			return 1
		}
		return -1
	}
	return 0
}

// c34Exceeds reports total > perSecond * window (exactly, in integers).
func c34Exceeds(total int64, perSecond int, windowNs int64) bool {
	return c34Cmp(total, perSecond, windowNs) > 0
}

func c34Equals(total int64, perSecond int, windowNs int64) bool {
	return c34Cmp(total, perSecond, windowNs) == 0
}

// c34LimRun judges Limiter.Account without ever depending on how fast the case
// runs:
//
//   - window >= 30 min: no event can leave the window during a case (a case that
//     ran that long is killed by the driver's budget first), so the trailing-window
//     count equals the count of all events: Account must return false exactly at
//     the first event where packets > pps*window or bytes > bps*window.
//   - any other window: the trailing-window count lies between "this event alone"
//     and "all events so far". If this event alone exceeds a limit Account must
//     return false; if all events so far do not exceed any limit it must return
//     true; otherwise nothing is asserted.
//
// The connection is dropped at the first false (netmc read loop), so the history
// ends there.
func c34LimRun(c c34LimCase) verifkit.Result {
	for _, r := range c.Runs {
		if r.N < 0 || r.Size < 0 {
			return verifkit.Result{Labels: []string{"out-of-domain"}}
		}
	}
	l := New(c.PPS, c.BPS, time.Duration(c.WindowNs))
	disabled := c.WindowNs <= 0 || (c.PPS <= 0 && c.BPS <= 0)
	if disabled != (l == nil) {
		return verifkit.Fail("limiter:disabled-mismatch", "New(%d,%d,%d) nil=%v, documented disabled=%v", c.PPS, c.BPS, c.WindowNs, l == nil, disabled)
	}
	long := c.WindowNs >= c34LongWindow
	var cnt, bytes int64
	var closedBy string
	atThreshold := false
	unasserted := 0
	step := 0
outer:
	for _, r := range c.Runs {
		for k := 0; k < r.N; k++ {
			step++
			got := l.Account(r.Size)
			cnt++
			bytes += int64(r.Size)
			if disabled {
				if !got {
					return verifkit.Fail("limiter:disabled-closes", "disabled limiter (pps=%d bps=%d window=%d) returned false at event %d", c.PPS, c.BPS, c.WindowNs, step)
				}
				continue
			}
			allP := c.PPS > 0 && c34Exceeds(cnt, c.PPS, c.WindowNs)
			allB := c.BPS > 0 && c34Exceeds(bytes, c.BPS, c.WindowNs)
			selfP := c.PPS > 0 && c34Exceeds(1, c.PPS, c.WindowNs)
			selfB := c.BPS > 0 && c34Exceeds(int64(r.Size), c.BPS, c.WindowNs)
			if (c.PPS > 0 && c34Equals(cnt, c.PPS, c.WindowNs)) || (c.BPS > 0 && c34Equals(bytes, c.BPS, c.WindowNs)) {
				atThreshold = true
			}
			var mustClose, mustAllow bool
			if long {
				mustClose = allP || allB
				mustAllow = !mustClose
			} else {
				mustClose = selfP || selfB
				mustAllow = !allP && !allB
			}
			switch {
			case mustClose && got:
				return verifkit.Fail("limiter:not-closed",
					"pps=%d bps=%d window=%dns: event %d (size %d) brings packets=%d bytes=%d in the window, above rate*window, but Account returned true",
					c.PPS, c.BPS, c.WindowNs, step, r.Size, cnt, bytes)
			case mustAllow && !got:
				return verifkit.Fail("limiter:closed-early",
					"pps=%d bps=%d window=%dns: event %d (size %d): at most packets=%d bytes=%d in the window, not above rate*window, but Account returned false",
					c.PPS, c.BPS, c.WindowNs, step, r.Size, cnt, bytes)
			case !mustClose && !mustAllow:
				unasserted++
			}
			if !got {
				switch {
				case allP && allB:
					closedBy = "closed-by-both"
				case allP:
					closedBy = "closed-by-packets"
				default:
					closedBy = "closed-by-bytes"
				}
				break outer
			}
		}
	}
	labels := []string{}
	switch {
	case disabled:
		labels = append(labels, "disabled")
	case long:
		labels = append(labels, "long-window")
	default:
		labels = append(labels, "short-window")
	}
	if closedBy != "" {
		labels = append(labels, closedBy)
		if step == 1 {
			labels = append(labels, "closed-at-first-event")
		}
	} else if !disabled {
		labels = append(labels, "never-closed")
	}
	if atThreshold {
		labels = append(labels, "exactly-at-threshold")
	}
	if unasserted > 0 {
		labels = append(labels, "has-unasserted-steps")
	}
	nt := !disabled && long && closedBy != "" && step > 1
	if nt && atThreshold {
		labels = append(labels, "threshold-then-closed")
	}
	return verifkit.Result{NonTrivial: nt, Labels: labels}
}

const c34MaxEvents = 12000

func c34GenLim(t *rapid.T) c34LimCase {
	regime := rapid.SampledFrom([]string{"long", "long", "long", "long", "short", "disabled"}).Draw(t, "regime")
	var c c34LimCase
	switch regime {
	case "disabled":
		c.PPS = rapid.SampledFrom([]int{-1, 0, 5}).Draw(t, "pps")
		c.BPS = rapid.SampledFrom([]int{-1, 0, 5}).Draw(t, "bps")
		if c.PPS > 0 || c.BPS > 0 {
			c.WindowNs = rapid.SampledFrom([]int64{0, -1, -int64(time.Second)}).Draw(t, "w")
		} else {
			c.WindowNs = rapid.SampledFrom([]int64{0, -1, int64(7 * time.Second)}).Draw(t, "w")
		}
		c.Runs = []c34Run{{N: rapid.IntRange(1, 200).Draw(t, "n"), Size: rapid.IntRange(0, 2<<20).Draw(t, "size")}}
		return c
	case "short":
		c.WindowNs = rapid.SampledFrom([]int64{1, 2, 10, 100, 1000}).Draw(t, "w")
		c.PPS = rapid.SampledFrom([]int{-1, 0, 1, 500, 10_000_000, 999_999_999, 1_000_000_000, 1_000_000_001, 2_000_000_000}).Draw(t, "pps")
		c.BPS = rapid.SampledFrom([]int{-1, 0, 1, 1000, 1_000_000_000, 2_000_000_000}).Draw(t, "bps")
		n := rapid.IntRange(1, 4).Draw(t, "nruns")
		for i := 0; i < n; i++ {
			c.Runs = append(c.Runs, c34Run{N: rapid.IntRange(1, 50).Draw(t, "n"), Size: rapid.SampledFrom([]int{0, 1, 2, 10, 1000, 2 << 20}).Draw(t, "size")})
		}
		return c
	}
	c.WindowNs = rapid.SampledFrom([]int64{
		int64(30 * time.Minute), int64(time.Hour), int64(time.Hour) + int64(500*time.Millisecond),
		int64(time.Hour) - int64(500*time.Millisecond), int64(time.Hour) + 1, int64(2 * time.Hour), int64(24 * time.Hour),
	}).Draw(t, "w")
	target := rapid.SampledFrom([]string{"packets", "bytes", "bytes", "both", "free"}).Draw(t, "target")
	switch target {
	case "packets":
		c.PPS = rapid.IntRange(1, 3).Draw(t, "pps")
		c.BPS = rapid.SampledFrom([]int{-1, 0, 2_000_000_000}).Draw(t, "bps")
	case "bytes":
		c.PPS = rapid.SampledFrom([]int{-1, 0, 1000}).Draw(t, "pps")
		c.BPS = rapid.OneOf(rapid.IntRange(1, 10), rapid.IntRange(1, 3000)).Draw(t, "bps")
	default:
		c.PPS = rapid.IntRange(1, 3).Draw(t, "pps")
		c.BPS = rapid.OneOf(rapid.IntRange(1, 10), rapid.IntRange(1, 3000)).Draw(t, "bps")
	}
	maxP := int64(-1) // largest packet count that is still allowed; -1 = unlimited
	if c.PPS > 0 {
		maxP = int64(c.PPS) * c.WindowNs / 1_000_000_000
	}
	maxB := int64(-1)
	if c.BPS > 0 {
		maxB = new(big.Int).Div(new(big.Int).Mul(big.NewInt(int64(c.BPS)), big.NewInt(c.WindowNs)), big.NewInt(1_000_000_000)).Int64()
	}
	var n, b int64
	add := func(cnt int64, size int64) {
		if cnt <= 0 || size < 0 || size > 8<<20 {
			return
		}
		if n+cnt > c34MaxEvents {
			cnt = c34MaxEvents - n
			if cnt <= 0 {
				return
			}
		}
		c.Runs = append(c.Runs, c34Run{N: int(cnt), Size: int(size)})
		n += cnt
		b += cnt * size
	}
	// free-form prefix
	for i, k := 0, rapid.IntRange(0, 3).Draw(t, "prefix"); i < k; i++ {
		add(int64(rapid.IntRange(1, 2000).Draw(t, "n")), int64(rapid.SampledFrom([]int{0, 1, 7, 100, 1500, 32767, 2 << 20}).Draw(t, "size")))
	}
	// landing: walk up to exactly the allowed maximum of the targeted dimension, then step over it
	if (target == "bytes" || target == "both") && maxB >= 0 && b <= maxB {
		rem := maxB - b
		room := int64(c34MaxEvents) - n - 3
		if maxP >= 0 && maxP-n-1 < room && target == "bytes" {
			room = maxP - n - 1
		}
		if room > 0 && rem > 0 {
			k := rapid.Int64Range(1, min(room, 4000)).Draw(t, "landN")
			sz := rem / k
			if sz > 2<<20 {
				sz = 2 << 20
			}
			add(k, sz)
			rem = maxB - b
			if rem > 0 && rem <= 2<<20 {
				add(1, rem) // bytes == floor(bps*window): still allowed
			}
		}
		add(1, rapid.SampledFrom([]int64{0, 1, 1, 2, 1000}).Draw(t, "over"))
		add(int64(rapid.IntRange(0, 3).Draw(t, "tail")), 1)
	}
	if (target == "packets" || target == "both") && maxP >= 0 && n <= maxP {
		fill := maxP - n
		sz := int64(rapid.SampledFrom([]int{0, 1}).Draw(t, "psize"))
		if target == "both" {
			sz = 0
		}
		add(fill, sz)    // packets == floor(pps*window): still allowed
		add(1, sz)       // one more
		add(2, 1)        // not reached if closed
	}
	if target == "free" {
		add(int64(rapid.IntRange(1, c34MaxEvents).Draw(t, "n")), int64(rapid.SampledFrom([]int{0, 1, 300, 1500}).Draw(t, "size")))
	}
	if len(c.Runs) == 0 {
		add(1, 1)
	}
	return c
}

func TestVerif_C34(t *testing.T) {
	verifkit.Check(t, "C34", "window",
		"counter driven with generated monotone timestamp sequences (bursts at equal times, gaps > window, clock aligned to exactly interval-1/interval/interval+1 after earlier events, runs forcing up to 4 ring resizes incl. wrapped rings, start times next to the int64 wrap) and compared with a naive list-based sliding-window sum after every step; non-trivial = an expiring step and a ring resize both occurred",
		c34GenWin, c34WinRun)

	verifkit.Check(t, "C34", "nonmonotone",
		"arbitrary (also backwards) timestamps: crash-freedom only; non-trivial = the clock went backwards at least once",
		func(t *rapid.T) c34NMCase {
			n := rapid.IntRange(1, 60).Draw(t, "n")
			base := rapid.Int64().Draw(t, "base")
			interval := rapid.Int64Range(1, int64(10*time.Second)).Draw(t, "interval")
			c := c34NMCase{IntervalNs: interval}
			for i := 0; i < n; i++ {
				c.Nows = append(c.Nows, rapid.OneOf(
					rapid.Int64(),
					rapid.Map(rapid.Int64Range(-3*interval, 3*interval), func(d int64) int64 { return base + d }),
				).Draw(t, "now"))
				c.Counts = append(c.Counts, rapid.Int64Range(0, 1<<31).Draw(t, "count"))
			}
			return c
		}, c34NMRun)
}

func TestVerif_C34L(t *testing.T) {
	verifkit.Check(t, "C34", "limiter",
		"Limiter.Account in clock-independent regimes: window >= 30 min (nothing can expire: must close exactly at the first event where packets > pps*window or bytes > bps*window, integer arithmetic reference), windows of 1..1000 ns (sandwich: event alone exceeds => closed; all events together do not exceed => allowed), disabled configurations; generated runs walk up to exactly the allowed maximum and then one past it; non-trivial = long window and closed after more than one event",
		c34GenLim, c34LimRun)
}
