//go:build verif

package addrquota

import (
	"fmt"
	"net"
	"net/netip"
	"testing"
	"time"

	"go.minekube.com/gate/pkg/internal/verifkit"
	"go.minekube.com/gate/pkg/util/netutil"
	"pgregory.net/rapid"
)

// C34 (quota part): addresses are grouped by IPv4 /24 (incl. IPv4-mapped IPv6) and
// IPv6 /64; each group is allowed at most burst + rate*elapsed events.
//
// rate.Limiter reads the wall clock, so only statements that hold for every
// possible elapsed time are asserted:
//
//   - sub-check "bucketing": eps is so small (<= 1e-6/s, one token per >= 11 days)
//     that no token can be refilled during a case. Then, in any token bucket that
//     starts full, exactly the first `burst` events of a group pass and every later
//     one is blocked. The group of an address is computed by an independent
//     net/netip reference (Unmap, then first 3 resp. 8 bytes).
//   - sub-check "rate": moderate eps, many calls; asserted are only (a) the first
//     `burst` events of a group pass and (b) allowed(group) <= burst + eps*elapsed + 1
//     with elapsed measured around the whole case (an over-estimate).
//   - sub-check "zoned": the same zoned link-local address repeated; it must be
//     blocked after burst events like any other IPv6 address.
//
// The number of distinct groups per case never exceeds maxEntries (LRU eviction of
// a group's state is documented behaviour and out of the domain).

type c34QCase struct {
	EPS        float32  `json:"eps"`
	Burst      int      `json:"burst"`
	MaxEntries int      `json:"max_entries"`
	Addrs      []string `json:"addrs"`
	Calls      []int    `json:"calls"`
	// ViaTCPAddr: the string is produced the way the proxy does it,
	// netutil.Host(&net.TCPAddr{...}), instead of being passed as is.
	ViaTCPAddr bool `json:"via_tcpaddr"`
}

// c34RefGroup is the reference bucketing: "" for non-IP strings.
func c34RefGroup(s string) (group string, fam string) {
	a, err := netip.ParseAddr(s)
	if err != nil {
		return "", "non-ip"
	}
	zoned := a.Zone() != ""
	a = a.WithZone("")
	mapped := a.Is4In6()
	a = a.Unmap()
	if a.Is4() {
		b := a.As4()
		fam = "v4"
		if mapped {
			fam = "v4-mapped"
		}
		return fmt.Sprintf("4:%d.%d.%d", b[0], b[1], b[2]), fam
	}
	b := a.As16()
	fam = "v6"
	if zoned {
		fam = "v6-zoned"
	}
	return fmt.Sprintf("6:%x", b[:8]), fam
}

// c34CallerString renders the address the way proxy.HandleConn / the handshake
// handler do: netutil.Host(conn.RemoteAddr()) for a TCP peer.
func c34CallerString(s string, via bool) string {
	if !via {
		return s
	}
	a, err := netip.ParseAddr(s)
	if err != nil {
		return s
	}
	tcp := &net.TCPAddr{IP: net.IP(a.AsSlice()), Port: 25565, Zone: a.Zone()}
	return netutil.Host(tcp)
}

func c34QRun(c c34QCase) verifkit.Result {
	if c.Burst < 1 || c.EPS <= 0 || c.EPS > 1e-6 {
		return verifkit.Result{Labels: []string{"out-of-domain"}}
	}
	groups := map[string]bool{}
	fams := map[string]bool{}
	strs := make([]string, len(c.Addrs))
	grp := make([]string, len(c.Addrs))
	for i, a := range c.Addrs {
		strs[i] = c34CallerString(a, c.ViaTCPAddr)
		g, fam := c34RefGroup(strs[i])
		if fam == "v6-zoned" {
			return verifkit.Result{Labels: []string{"out-of-domain"}} // judged by sub-check "zoned"
		}
		grp[i] = g
		fams[fam] = true
		if g != "" {
			groups[g] = true
		}
	}
	if c.MaxEntries != 0 && c.MaxEntries < len(groups) {
		return verifkit.Result{Labels: []string{"out-of-domain"}}
	}
	q := NewQuota(c.EPS, c.Burst, c.MaxEntries)
	allowed := map[string]int{}
	sharedExhaust := false // an address was blocked although it had itself never been seen: its group was exhausted by siblings
	distinctNeighbour := false
	seenAddr := map[int]bool{}
	for k, idx := range c.Calls {
		if idx < 0 || idx >= len(strs) {
			return verifkit.Result{Labels: []string{"out-of-domain"}}
		}
		got := q.Blocked(strs[idx])
		g := grp[idx]
		if g == "" {
			// not an IP address: nothing documented; crash-freedom only
			continue
		}
		want := allowed[g] >= c.Burst
		if got && !want {
			return verifkit.Fail("quota:blocked-early",
				"call %d addr %q (reference group %s): blocked after only %d allowed events of that group, burst=%d (another group's events were charged to it)",
				k, strs[idx], g, allowed[g], c.Burst)
		}
		if !got && want {
			return verifkit.Fail("quota:over-allowed",
				"call %d addr %q (reference group %s): allowed although the group already had %d allowed events, burst=%d eps=%g (no refill possible)",
				k, strs[idx], g, allowed[g], c.Burst, c.EPS)
		}
		if !got {
			allowed[g]++
		} else if !seenAddr[idx] {
			sharedExhaust = true
		}
		if !got && !seenAddr[idx] {
			for g2, n := range allowed {
				if g2 != g && n >= c.Burst {
					distinctNeighbour = true // another group is exhausted, this one is not affected
				}
			}
		}
		seenAddr[idx] = true
	}
	labels := []string{}
	for f := range fams {
		labels = append(labels, "fam:"+f)
	}
	if sharedExhaust {
		labels = append(labels, "blocked-by-sibling")
	}
	if distinctNeighbour {
		labels = append(labels, "neighbour-group-unaffected")
	}
	if fams["v4-mapped"] && fams["v4"] {
		labels = append(labels, "mapped+plain")
	}
	if c.ViaTCPAddr {
		labels = append(labels, "via-tcpaddr")
	}
	c34SortStrings(labels)
	return verifkit.Result{NonTrivial: sharedExhaust || distinctNeighbour, Labels: labels}
}

func c34SortStrings(s []string) { // tiny insertion sort; keeps imports minimal and labels deterministic
	for i := 1; i < len(s); i++ {
		for j := i; j > 0 && s[j] < s[j-1]; j-- {
			s[j], s[j-1] = s[j-1], s[j]
		}
	}
}

// c34GenAddrFamily draws a base address and siblings that differ from it in one
// generated bit, concentrated next to the bucket boundary.
func c34GenAddrs(t *rapid.T, allowNonIP bool) []string {
	var out []string
	nBases := rapid.IntRange(1, 3).Draw(t, "nBases")
	for b := 0; b < nBases; b++ {
		kind := rapid.SampledFrom([]string{"v4", "v4", "v6", "v6", "mapped", "almost-mapped"}).Draw(t, "kind")
		switch kind {
		case "v4", "mapped":
			var raw [4]byte
			copy(raw[:], rapid.SliceOfN(rapid.Byte(), 4, 4).Draw(t, "v4"))
			render := func(x [4]byte, form string) string {
				a := netip.AddrFrom4(x)
				switch form {
				case "mapped-dotted":
					return netip.AddrFrom16(a.As16()).String() // ::ffff:a.b.c.d
				case "mapped-hex":
					return fmt.Sprintf("::ffff:%02x%02x:%02x%02x", x[0], x[1], x[2], x[3])
				default:
					return a.String()
				}
			}
			forms := []string{"plain", "mapped-dotted", "mapped-hex"}
			first := "plain"
			if kind == "mapped" {
				first = rapid.SampledFrom(forms[1:]).Draw(t, "form0")
			}
			out = append(out, render(raw, first))
			nSib := rapid.IntRange(1, 4).Draw(t, "nSib")
			for i := 0; i < nSib; i++ {
				bit := rapid.OneOf(rapid.SampledFrom([]int{22, 23, 24, 25, 31, 0, 15, 16}), rapid.IntRange(0, 31)).Draw(t, "bit")
				x := raw
				x[bit/8] ^= 0x80 >> (bit % 8)
				if rapid.Bool().Draw(t, "alsoLow") {
					x[3] = rapid.Byte().Draw(t, "low")
				}
				out = append(out, render(x, rapid.SampledFrom(forms).Draw(t, "form")))
			}
		default:
			var raw [16]byte
			copy(raw[:], rapid.SliceOfN(rapid.Byte(), 16, 16).Draw(t, "v6"))
			if kind == "almost-mapped" {
				// ::fffe:a.b.c.d, ::1:ffff:a.b.c.d, 0:0:0:0:0:ffff with a non-zero byte in front: real IPv6, not mapped
				for i := 0; i < 10; i++ {
					raw[i] = 0
				}
				raw[10], raw[11] = 0xff, 0xff
				switch rapid.IntRange(0, 2).Draw(t, "am") {
				case 0:
					raw[11] = 0xfe
				case 1:
					raw[9] = 1
				case 2:
					raw[0] = 0x20
				}
			} else if rapid.Bool().Draw(t, "global") {
				raw[0], raw[1] = 0x20, 0x01
			}
			out = append(out, netip.AddrFrom16(raw).String())
			nSib := rapid.IntRange(1, 4).Draw(t, "nSib")
			for i := 0; i < nSib; i++ {
				bit := rapid.OneOf(rapid.SampledFrom([]int{62, 63, 64, 65, 119, 120, 127, 0, 47, 48, 56}), rapid.IntRange(0, 127)).Draw(t, "bit")
				x := raw
				x[bit/8] ^= 0x80 >> (bit % 8)
				if rapid.Bool().Draw(t, "alsoLow") {
					copy(x[8:], rapid.SliceOfN(rapid.Byte(), 8, 8).Draw(t, "low"))
				}
				out = append(out, netip.AddrFrom16(x).String())
			}
		}
	}
	if allowNonIP && rapid.IntRange(0, 9).Draw(t, "nonip") == 0 {
		out = append(out, rapid.SampledFrom([]string{"", "pipe", "localhost", "/run/gate.sock", "1.2.3", "1.2.3.4.5", "::g", "@"}).Draw(t, "nonipstr"))
	}
	return out
}

func c34GenQ(t *rapid.T) c34QCase {
	c := c34QCase{
		EPS:        rapid.SampledFrom([]float32{1e-6, 1e-7, 1e-9}).Draw(t, "eps"),
		Burst:      rapid.IntRange(1, 4).Draw(t, "burst"),
		ViaTCPAddr: rapid.Bool().Draw(t, "via"),
	}
	c.Addrs = c34GenAddrs(t, true)
	c.MaxEntries = rapid.SampledFrom([]int{0, len(c.Addrs), len(c.Addrs) + 1, 1000}).Draw(t, "maxEntries")
	// scenario: exhaust some addresses, then probe the others, then everything again
	order := rapid.Permutation(c34Iota(len(c.Addrs))).Draw(t, "order")
	for _, i := range order {
		reps := rapid.SampledFrom([]int{1, c.Burst, c.Burst + 1, c.Burst + 2}).Draw(t, "reps")
		for r := 0; r < reps; r++ {
			c.Calls = append(c.Calls, i)
		}
	}
	extra := rapid.SliceOfN(rapid.IntRange(0, len(c.Addrs)-1), 0, 12).Draw(t, "extra")
	c.Calls = append(c.Calls, extra...)
	return c
}

func c34Iota(n int) []int {
	s := make([]int, n)
	for i := range s {
		s[i] = i
	}
	return s
}

// ---- moderate rate: robust bounds only -------------------------------------------

type c34RCase struct {
	EPS   float32  `json:"eps"`
	Burst int      `json:"burst"`
	Addrs []string `json:"addrs"`
	Reps  int      `json:"reps"`
}

func c34RRun(c c34RCase) verifkit.Result {
	if c.Burst < 1 || c.EPS <= 0 || c.Reps < 1 || len(c.Addrs) == 0 {
		return verifkit.Result{Labels: []string{"out-of-domain"}}
	}
	grp := make([]string, len(c.Addrs))
	for i, a := range c.Addrs {
		g, fam := c34RefGroup(a)
		if g == "" || fam == "v6-zoned" {
			return verifkit.Result{Labels: []string{"out-of-domain"}}
		}
		grp[i] = g
	}
	q := NewQuota(c.EPS, c.Burst, 0)
	allowed := map[string]int{}
	start := time.Now()
	for r := 0; r < c.Reps; r++ {
		for i, a := range c.Addrs {
			g := grp[i]
			got := q.Blocked(a)
			if got && allowed[g] < c.Burst {
				return verifkit.Fail("quota:blocked-early",
					"round %d addr %q (reference group %s): blocked after only %d allowed events of that group, burst=%d", r, a, g, allowed[g], c.Burst)
			}
			if !got {
				allowed[g]++
			}
		}
	}
	elapsed := time.Since(start).Seconds()
	bound := float64(c.Burst) + float64(c.EPS)*elapsed + 1
	total := c.Reps * len(c.Addrs)
	saturated := false
	for g, n := range allowed {
		if float64(n) > bound {
			return verifkit.Fail("quota:rate-exceeded",
				"group %s: %d events allowed within %.6fs, bound burst+eps*elapsed+1 = %.3f (burst=%d eps=%g)", g, n, elapsed, bound, c.Burst, c.EPS)
		}
		if n < total/len(allowed) {
			saturated = true
		}
	}
	labels := []string{fmt.Sprintf("groups=%d", len(allowed))}
	if saturated {
		labels = append(labels, "some-blocked")
	}
	return verifkit.Result{NonTrivial: len(allowed) >= 1 && total > 4*c.Burst, Labels: labels}
}

// ---- zoned link-local peers ----------------------------------------------------------

type c34ZCase struct {
	Addr  string `json:"addr"` // zoned IPv6 literal, e.g. fe80::1%eth0
	Burst int    `json:"burst"`
	Reps  int    `json:"reps"`
}

func c34ZRun(c c34ZCase) verifkit.Result {
	a, err := netip.ParseAddr(c.Addr)
	if err != nil || a.Zone() == "" || !a.Is6() || a.Is4In6() || c.Burst < 1 || c.Reps <= c.Burst {
		return verifkit.Result{Labels: []string{"out-of-domain"}}
	}
	// exactly what the proxy passes for a TCP peer with a scoped address
	host := netutil.Host(&net.TCPAddr{IP: net.IP(a.AsSlice()), Port: 25565, Zone: a.Zone()})
	q := NewQuota(1e-9, c.Burst, 0)
	allowed := 0
	for i := 0; i < c.Reps; i++ {
		if !q.Blocked(host) {
			allowed++
		}
	}
	if allowed > c.Burst {
		return verifkit.Fail("quota:zoned-not-limited",
			"peer %q (netutil.Host of a TCPAddr with zone %q): %d of %d events allowed, burst=%d eps=1e-9: scoped IPv6 peers are never limited",
			host, a.Zone(), allowed, c.Reps, c.Burst)
	}
	return verifkit.Result{NonTrivial: true, Labels: []string{"zoned"}}
}

func TestVerif_C34(t *testing.T) {
	verifkit.Check(t, "C34", "bucketing",
		"1-3 base addresses (v4, textual v4-mapped in dotted and hex form, v6, almost-mapped v6) with siblings differing in one generated bit next to the /24 resp. /64 boundary; eps <= 1e-6/s so no refill can happen; every Blocked verdict compared with a per-group counter over net/netip reference groups (exactly the first burst events of a group pass); non-trivial = an address was blocked purely by its siblings' events, or a neighbouring group stayed unaffected",
		c34GenQ, c34QRun)

	verifkit.Check(t, "C34", "rate",
		"moderate eps (10..1000/s), 200-3000 calls over 1-4 addresses: first burst events of a group pass; allowed(group) <= burst + eps*measured elapsed + 1 (valid for any speed of execution)",
		func(t *rapid.T) c34RCase {
			addrs := c34GenAddrs(t, false)
			if len(addrs) > 4 {
				addrs = addrs[:4]
			}
			return c34RCase{
				EPS:   rapid.SampledFrom([]float32{10, 100, 1000}).Draw(t, "eps"),
				Burst: rapid.IntRange(1, 10).Draw(t, "burst"),
				Addrs: addrs,
				Reps:  rapid.IntRange(50, 750).Draw(t, "reps"),
			}
		}, c34RRun)

	verifkit.Check(t, "C34", "zoned",
		"a scoped link-local IPv6 peer (fe80::/10 with zone) rendered through net.TCPAddr and netutil.Host as the proxy does, repeated more than burst times with eps=1e-9: must be blocked after burst events",
		func(t *rapid.T) c34ZCase {
			var raw [16]byte
			copy(raw[8:], rapid.SliceOfN(rapid.Byte(), 8, 8).Draw(t, "iid"))
			raw[0], raw[1] = 0xfe, 0x80
			zone := rapid.SampledFrom([]string{"eth0", "1", "lo", "wlan0", "en0"}).Draw(t, "zone")
			burst := rapid.IntRange(1, 4).Draw(t, "burst")
			return c34ZCase{Addr: netip.AddrFrom16(raw).WithZone(zone).String(), Burst: burst, Reps: burst + rapid.IntRange(1, 5).Draw(t, "more")}
		}, c34ZRun)
}
