//go:build verif

package tablist

// C07, construction-site sub-check "tablist-built": the player-info packets the
// proxy builds from tab-list API calls (TabList.Add for a new entry, TabList.Add
// for an entry that is already listed = the merge path, the Entry setters,
// RemoveAll) are encoded with gate's encoder and read back by the independent
// vanilla decoder c07_ref.go (overlaid into this package from proto/state). The
// intent is what the API caller supplied, never a field of the packet object.

import (
	"bytes"
	"fmt"
	"sort"
	"strings"
	"testing"
	"time"

	"go.minekube.com/common/minecraft/color"
	"go.minekube.com/common/minecraft/component"
	"pgregory.net/rapid"

	"go.minekube.com/gate/pkg/edition/java/profile"
	"go.minekube.com/gate/pkg/edition/java/proto/packet/tablist/playerinfo"
	"go.minekube.com/gate/pkg/edition/java/proto/version"
	"go.minekube.com/gate/pkg/edition/java/proxy/crypto"
	"go.minekube.com/gate/pkg/edition/java/proxy/crypto/keyrevision"
	"go.minekube.com/gate/pkg/edition/java/proxy/tablist"
	"go.minekube.com/gate/pkg/gate/proto"
	"go.minekube.com/gate/pkg/internal/verifkit"
	"go.minekube.com/gate/pkg/util/uuid"
)

type c07tAttr struct {
	Display   *c07Comp `json:"display,omitempty"`
	LatencyUS int64    `json:"latencyUS"` // API value in microseconds; the wire carries milliseconds
	GameMode  int32    `json:"gameMode"`  // -1 = not set (first add only)
	Listed    bool     `json:"listed"`
	Order     int32    `json:"order"`
	Hat       bool     `json:"hat"`
	Chat      *c07Chat `json:"chat,omitempty"`
}

type c07tOp struct {
	Op string   `json:"op"` // add, display, latency, gamemode, listed, order, hat, remove, removeall
	U  []int    `json:"u"`  // player indices
	A  c07tAttr `json:"a"`
}

type c07tCase struct {
	Proto int      `json:"proto"`
	Ops   []c07tOp `json:"ops"`
}

type c07tViewer struct {
	protocol proto.Protocol
	recv     []proto.Packet
}

func (v *c07tViewer) WritePacket(p proto.Packet) error    { v.recv = append(v.recv, p); return nil }
func (v *c07tViewer) BufferPacket(p proto.Packet) error   { v.recv = append(v.recv, p); return nil }
func (v *c07tViewer) Flush() error                        { return nil }
func (v *c07tViewer) Protocol() proto.Protocol            { return v.protocol }
func (v *c07tViewer) IdentifiedKey() crypto.IdentifiedKey { return nil }

type c07tSession struct {
	id  uuid.UUID
	key crypto.IdentifiedKey
}

func (s *c07tSession) SessionID() uuid.UUID                { return s.id }
func (s *c07tSession) IdentifiedKey() crypto.IdentifiedKey { return s.key }

func c07tHex(u uuid.UUID) string { return strings.ReplaceAll(u.String(), "-", "") }

func c07tUUID(i int) uuid.UUID {
	var u uuid.UUID
	u[0], u[6], u[8], u[15] = 0xc7, 0x40, 0x80, byte(i+1)
	return u
}

func c07tName(i int) string { return fmt.Sprintf("Player_%d", i) }

func c07tProps(i int) []c07Prop {
	if i%2 == 0 {
		return nil
	}
	return []c07Prop{{Name: "textures", Value: strings.Repeat("dGV4", 20+i), Signature: strings.Repeat("c2ln", i)}}
}

func c07tComponent(c *c07Comp) component.Component {
	if c == nil {
		return nil
	}
	t := &component.Text{Content: c.Text}
	if c.Color != "" {
		if n, ok := color.Names[c.Color]; ok {
			t.S.Color = n
		} else {
			h, err := color.Hex(c.Color)
			if err != nil {
				panic("c07t: bad colour " + c.Color)
			}
			t.S.Color = h
		}
	}
	switch c.Bold {
	case 1:
		t.S.Bold = component.True
	case 2:
		t.S.Bold = component.False
	}
	for i := range c.Extra {
		t.Extra = append(t.Extra, c07tComponent(&c.Extra[i]))
	}
	return t
}

func c07tCanon(a playerinfo.UpsertAction) int {
	switch a {
	case playerinfo.AddPlayerAction:
		return c07ActAdd
	case playerinfo.InitializeChatAction:
		return c07ActChat
	case playerinfo.UpdateGameModeAction:
		return c07ActMode
	case playerinfo.UpdateListedAction:
		return c07ActList
	case playerinfo.UpdateLatencyAction:
		return c07ActLat
	case playerinfo.UpdateDisplayNameAction:
		return c07ActName
	case playerinfo.UpdateListOrderAction:
		return c07ActOrder
	case playerinfo.UpdateHatAction:
		return c07ActHat
	}
	return -1
}

func c07tCompHasHex(c *c07Comp) bool {
	if c == nil {
		return false
	}
	if strings.HasPrefix(c.Color, "#") {
		return true
	}
	for i := range c.Extra {
		if c07tCompHasHex(&c.Extra[i]) {
			return true
		}
	}
	return false
}

func c07tRun(c c07tCase) (res verifkit.Result) {
	viewer := &c07tViewer{protocol: proto.Protocol(c.Proto)}
	tl, ok := New(viewer).(*TabList)
	if !ok {
		return verifkit.Fail("tablist:list-kind", "New(viewer protocol %d) is not the modern tab list", c.Proto)
	}
	labels := map[string]bool{}
	defer func() {
		for l := range labels {
			res.Labels = append(res.Labels, l)
		}
		sort.Strings(res.Labels)
	}()
	// what the API caller supplied last, per listed player
	model := map[int]*c07tAttr{}
	intentOf := func(u int) c07Entry {
		a := model[u]
		e := c07Entry{ID: c07tHex(c07tUUID(u)), Name: c07tName(u), Props: c07tProps(u)}
		if a != nil {
			e.Listed, e.Latency, e.GameMode = a.Listed, int32(a.LatencyUS/1000), a.GameMode
			e.Display, e.ShowHat, e.ListOrder, e.Chat = a.Display, a.Hat, a.Order, a.Chat
		}
		return e
	}
	mkEntry := func(u int, a c07tAttr) *Entry {
		gp := profile.GameProfile{ID: c07tUUID(u), Name: c07tName(u)}
		for _, p := range c07tProps(u) {
			gp.Properties = append(gp.Properties, profile.Property{Name: p.Name, Value: p.Value, Signature: p.Signature})
		}
		e := &Entry{OwningTabList: ResolveRoot(tl), EntryAttributes: EntryAttributes{
			Profile: gp, DisplayName: c07tComponent(a.Display), Latency: time.Duration(a.LatencyUS) * time.Microsecond,
			GameMode: int(a.GameMode), Listed: a.Listed, ListOrder: int(a.Order), ShowsHat: a.Hat,
		}}
		if a.Chat != nil {
			key, err := crypto.NewIdentifiedKey(keyrevision.LinkedV2, c07PubKeyDER(), a.Chat.Key.Expiry, a.Chat.Key.Sig.Bytes())
			if err != nil {
				panic(err)
			}
			e.EntryAttributes.ChatSession = &c07tSession{id: uuid.UUID(c07UUIDBytes(a.Chat.Session)), key: key}
		}
		return e
	}

	for i, op := range c.Ops {
		viewer.recv = nil
		var err error
		var removed []string // intended removal (explicit ids, in order); nil for remove-all
		removeAll := false
		site := op.Op
		switch op.Op {
		case "add":
			var es []tablist.Entry
			for _, u := range op.U {
				a := op.A
				if model[u] != nil {
					site = "add-merge"
					if a.GameMode < 0 {
						a.GameMode = 0
					}
				} else if site != "add-merge" {
					site = "add-new"
				}
				es = append(es, mkEntry(u, a))
				cp := a
				model[u] = &cp
			}
			err = tl.Add(es...)
		case "remove":
			var ids []uuid.UUID
			for _, u := range op.U {
				ids = append(ids, c07tUUID(u))
				removed = append(removed, c07tHex(c07tUUID(u)))
				delete(model, u)
			}
			err = tl.RemoveAll(ids...)
		case "removeall":
			removeAll = true
			for u := range model {
				removed = append(removed, c07tHex(c07tUUID(u)))
			}
			model = map[int]*c07tAttr{}
			err = tl.RemoveAll()
		default:
			u := op.U[0]
			m := model[u]
			ent, ok := tl.Entries()[c07tUUID(u)]
			if m == nil || !ok {
				labels["setter-on-unlisted(skipped)"] = true
				continue
			}
			switch op.Op {
			case "display":
				m.Display = op.A.Display
				err = ent.SetDisplayName(c07tComponent(op.A.Display))
			case "latency":
				m.LatencyUS = op.A.LatencyUS
				err = ent.SetLatency(time.Duration(op.A.LatencyUS) * time.Microsecond)
			case "gamemode":
				gm := op.A.GameMode
				if gm < 0 {
					gm = 0
				}
				m.GameMode = gm
				err = ent.SetGameMode(int(gm))
			case "listed":
				m.Listed = op.A.Listed
				err = ent.SetListed(op.A.Listed)
			case "order":
				m.Order = op.A.Order
				err = ent.SetListOrder(int(op.A.Order))
			case "hat":
				m.Hat = op.A.Hat
				err = ent.SetShowHat(op.A.Hat)
			default:
				panic("c07t: unknown op " + op.Op)
			}
		}
		if err != nil {
			return verifkit.Fail("tablist:api-error:"+site, "op #%d %s%v: %v", i, op.Op, op.U, err)
		}
		labels["site:"+site] = true
		for pi, pkt := range viewer.recv {
			pc := &proto.PacketContext{Direction: proto.ClientBound, Protocol: viewer.protocol}
			var buf bytes.Buffer
			if err := pkt.Encode(pc, &buf); err != nil {
				return verifkit.Fail("tablist:encode-error:"+site, "op #%d %s%v packet %d (%T): Encode: %v", i, op.Op, op.U, pi, pkt, err)
			}
			cs := &c07Case{Protocol: c.Proto}
			switch x := pkt.(type) {
			case *playerinfo.Upsert:
				cs.Kind = "PlayerInfoUpsert"
				for _, a := range x.ActionSet {
					ci := c07tCanon(a)
					if ci < 0 {
						return verifkit.Fail("tablist:unknown-action:"+site, "op #%d: packet carries an action that is not one of the eight vanilla actions", i)
					}
					cs.Actions = append(cs.Actions, ci)
					if ci == c07ActName {
						labels["display-name-sent:"+site] = true
					}
				}
				for _, pe := range x.Entries {
					u := int(pe.ProfileID[15]) - 1
					if pe.ProfileID != c07tUUID(u) {
						return verifkit.Fail("tablist:foreign-entry:"+site, "op #%d: packet names profile %s which the API never supplied", i, pe.ProfileID)
					}
					e := intentOf(u)
					cs.Entries = append(cs.Entries, e)
					if c07tCompHasHex(e.Display) {
						for _, ci := range cs.Actions {
							if ci == c07ActName {
								labels["rgb-display-name-sent:"+site] = true
								res.NonTrivial = true
							}
						}
					}
				}
				if len(cs.Actions) >= 2 {
					res.NonTrivial = true
				}
			case *playerinfo.Remove:
				cs.Kind = "PlayerInfoRemove"
				if removeAll {
					// map order: the set must be the listed players; read in the order sent
					var sent []string
					for _, id := range x.PlayersToRemove {
						sent = append(sent, c07tHex(id))
					}
					a, b := append([]string(nil), sent...), append([]string(nil), removed...)
					sort.Strings(a)
					sort.Strings(b)
					if fmt.Sprint(a) != fmt.Sprint(b) {
						return verifkit.Fail("tablist:remove-all-set", "op #%d RemoveAll(): packet removes %v, listed were %v", i, a, b)
					}
					cs.UUIDs = sent
				} else {
					cs.UUIDs = removed
				}
				res.NonTrivial = res.NonTrivial || len(cs.UUIDs) >= 2
			default:
				return verifkit.Fail("tablist:unexpected-packet:"+site, "op #%d %s%v sent a %T", i, op.Op, op.U, pkt)
			}
			if err := c07RefDecode(cs, buf.Bytes(), c07Opts{}); err != nil {
				field := "?"
				if m, ok := err.(*c07Mismatch); ok {
					field = m.Field
					if j := strings.LastIndex(field, "."); j >= 0 && strings.HasPrefix(field, "entry[") {
						field = field[strings.Index(field, ".")+1:]
					}
				}
				return verifkit.Fail("tablist:"+site+":"+field,
					"viewer protocol %d, op #%d %s%v (%+v), packet %d (%s, actions %v): the vanilla decoder reads something else than the API caller supplied: %v\nwire: %x",
					c.Proto, i, op.Op, op.U, op.A, pi, cs.Kind, cs.Actions, err, c07tHead(buf.Bytes()))
			}
		}
	}
	return res
}

func c07tHead(b []byte) []byte {
	if len(b) > 400 {
		return b[:400]
	}
	return b
}

// ---- generator

var c07tColors = []string{"", "", "red", "gold", "dark_gray", "white", "#ff8800", "#123456", "#FFAA00", "#00ff7f", "#010203"}

func c07tGenComp(t *rapid.T, label string, depth int) *c07Comp {
	c := &c07Comp{
		Text:  rapid.SampledFrom([]string{"Steve", "", "a b", "Ünï çødé", "[Admin] x", strings.Repeat("n", 300), "quote\"s"}).Draw(t, label+"Text"),
		Color: rapid.SampledFrom(c07tColors).Draw(t, label+"Color"),
		Bold:  rapid.SampledFrom([]int{0, 0, 1, 2}).Draw(t, label+"Bold"),
	}
	if depth > 0 {
		n := rapid.SampledFrom([]int{0, 0, 1, 2}).Draw(t, label+"Extras")
		for i := 0; i < n; i++ {
			c.Extra = append(c.Extra, *c07tGenComp(t, fmt.Sprintf("%sX%d", label, i), depth-1))
		}
	}
	return c
}

func c07tGenAttr(t *rapid.T) c07tAttr {
	a := c07tAttr{
		LatencyUS: rapid.OneOf(rapid.SampledFrom([]int64{0, 999, 1000, 42000, 127000, 128000, 300500}), rapid.Int64Range(0, 100000000)).Draw(t, "latency"),
		GameMode:  rapid.SampledFrom([]int32{-1, 0, 1, 2, 3}).Draw(t, "gameMode"),
		Listed:    rapid.Bool().Draw(t, "listed"),
		Order:     rapid.OneOf(rapid.SampledFrom([]int32{0, 1, -1, 127, 128}), rapid.Int32()).Draw(t, "order"),
		Hat:       rapid.Bool().Draw(t, "hat"),
	}
	if rapid.IntRange(0, 3).Draw(t, "hasDisplay") != 0 {
		a.Display = c07tGenComp(t, "display", 1)
	}
	if rapid.IntRange(0, 3).Draw(t, "hasChat") == 0 {
		a.Chat = &c07Chat{
			Session: c07tHex(c07tUUID(100 + rapid.IntRange(0, 50).Draw(t, "session"))),
			Key: c07Key{Expiry: rapid.SampledFrom([]int64{0, 1, 1700000000000}).Draw(t, "expiry"),
				Sig: c07Blob{Len: rapid.SampledFrom([]int{0, 1, 256, 512}).Draw(t, "sigLen"), Seed: rapid.Uint8().Draw(t, "sigSeed")}},
		}
	}
	return a
}

func c07tProtocols() []int {
	var out []int
	for _, v := range version.Versions {
		if v.Protocol >= version.Minecraft_1_19_3.Protocol {
			out = append(out, int(v.Protocol))
		}
	}
	return out
}

func c07tGen(t *rapid.T) c07tCase {
	c := c07tCase{Proto: rapid.SampledFrom(c07tProtocols()).Draw(t, "proto")}
	n := rapid.IntRange(1, 8).Draw(t, "ops")
	for i := 0; i < n; i++ {
		op := c07tOp{Op: rapid.SampledFrom([]string{"add", "add", "add", "add", "display", "display", "latency", "gamemode", "listed", "order", "hat", "remove", "removeall"}).Draw(t, "op")}
		switch op.Op {
		case "add":
			op.U = rapid.SliceOfNDistinct(rapid.IntRange(0, 3), 1, 3, rapid.ID[int]).Draw(t, "u")
			op.A = c07tGenAttr(t)
		case "remove":
			op.U = rapid.SliceOfNDistinct(rapid.IntRange(0, 4), 1, 3, rapid.ID[int]).Draw(t, "u")
		case "removeall":
		default:
			op.U = []int{rapid.IntRange(0, 3).Draw(t, "u")}
			op.A = c07tGenAttr(t)
		}
		c.Ops = append(c.Ops, op)
	}
	return c
}

const c07tRule = "construction sites of player-info packets: 1..8 tab-list API calls {Add of 1..3 new or already listed players (merge path), Entry.SetDisplayName/SetLatency/SetGameMode/SetListed/SetListOrder/SetShowHat, RemoveAll(ids), RemoveAll()} on a viewer of every protocol from 1.19.3, attributes with display names (named and #rrggbb colours, bold, nested extras, 300-character and non-ASCII text), sub-millisecond latencies, chat sessions with keys; oracle: every packet the viewer receives is encoded by gate and read by the independent vanilla decoder (c07_ref.go), and each action's data must be exactly what the API caller supplied last for that player (the action set itself is C28's subject); non-trivial = a packet with >=2 actions, an RGB display name on the wire, or a removal of >=2 players"

func TestVerif_C07(t *testing.T) {
	verifkit.Check(t, "C07", "tablist-built", c07tRule, c07tGen, c07tRun)
}
