//go:build verif

package tablist

// C28: the proxy's tab-list model equals what the client was told.
//
// A case is a history of tab-list API calls (Add, entry setters, RemoveAll) and
// backend PlayerInfoUpdate / PlayerInfoRemove packets against a real TabList
// (1.19.3+) whose viewer is a recording fake. Every packet the viewer receives is
// encoded by gate's own Encode and decoded by the independent decoder below
// (vanilla layout: fixed action bitset, action data in canonical enum order),
// then applied to a model of the vanilla client's player-info map
// (ClientPacketListener.handlePlayerInfoUpdate/Remove). Backend packets are
// generated as wire bytes by the independent encoder below, decoded by gate (as
// the real read loop does) and handed to ProcessUpdate/ProcessRemove; the client
// model receives the same bytes, because the proxy forwards them unchanged.
// After every step TabList.Entries() must equal the client model.

import (
	"bytes"
	"encoding/json"
	"fmt"
	"os"
	"reflect"
	"runtime/debug"
	"sort"
	"strings"
	"sync"
	"testing"
	"time"

	"go.minekube.com/common/minecraft/component"
	"pgregory.net/rapid"

	"go.minekube.com/gate/pkg/edition/java/profile"
	"go.minekube.com/gate/pkg/edition/java/proto/packet/tablist/playerinfo"
	"go.minekube.com/gate/pkg/edition/java/proxy/crypto"
	"go.minekube.com/gate/pkg/edition/java/proxy/tablist"
	"go.minekube.com/gate/pkg/gate/proto"
	"go.minekube.com/gate/pkg/internal/verifkit"
	"go.minekube.com/gate/pkg/util/uuid"
)

// ---------------------------------------------------------------- case

// canonical action indices (ordinal of ClientboundPlayerInfoUpdatePacket.Action)
const (
	c28ActAdd = iota
	c28ActChat
	c28ActGameMode
	c28ActListed
	c28ActLatency
	c28ActDisplay
	c28ActOrder // 1.21.2+
	c28ActHat   // 1.21.4+
)

var c28ActNames = []string{"add", "chat", "gamemode", "listed", "latency", "display", "order", "hat"}

func c28NumActions(protocol int) int {
	switch {
	case protocol >= 769:
		return 8
	case protocol >= 768:
		return 7
	default:
		return 6
	}
}

type c28Attr struct {
	NameVar   int   `json:"name_var,omitempty"` // profile name/property variant (backend ADD only)
	Display   int   `json:"display,omitempty"`  // 0 = no display name, k = text "name-k"
	LatencyUS int64 `json:"latency_us,omitempty"`
	GameMode  int   `json:"game_mode"` // 0..3, -1 = not set (new API entries only)
	Listed    bool  `json:"listed,omitempty"`
	Order     int   `json:"order,omitempty"`
	Hat       bool  `json:"hat,omitempty"`
	StrTag    bool  `json:"str_tag,omitempty"` // backend: display name as bare string (NBT string tag / JSON string)
}

type c28Op struct {
	// add: Add(fresh entries for U with Attrs) | readd: Add(the entry object the list currently holds for U[0])
	// addsaved: Add(an entry object obtained from Entries() earlier, possibly removed since)
	// set / setsaved: entry setter Field on the current / a saved entry of U[0]
	// remove: RemoveAll(U...) | removeall: RemoveAll() | bupsert / bremove: backend packets
	Op      string    `json:"op"`
	U       []int     `json:"u,omitempty"`
	Attrs   []c28Attr `json:"attrs,omitempty"`
	Field   string    `json:"field,omitempty"`
	Actions int       `json:"actions,omitempty"` // bupsert: bit mask over canonical action indices
}

type c28Case struct {
	Proto int     `json:"proto"`
	Ops   []c28Op `json:"ops"`
	// Raw: never repair the action order of the proxy's packets (regression case
	// of the action-order finding; generated cases leave it false).
	Raw bool `json:"raw,omitempty"`
}

func c28UUID(i int) uuid.UUID {
	return uuid.UUID{0xC2, 0x80, 0, 0, 0, 0, 0x40, 0, 0x80, 0, 0, 0, 0, 0, 0, byte(i)}
}

type c28Prop struct{ name, value, sig string }

func c28ProfileOf(u, variant int) (string, []c28Prop) {
	name := fmt.Sprintf("P%d_v%d", u, variant)
	var props []c28Prop
	for k := 0; k < (u+variant)%3; k++ {
		p := c28Prop{name: "textures", value: fmt.Sprintf("val-%d-%d-%d", u, variant, k)}
		if k%2 == 0 {
			p.sig = fmt.Sprintf("sig-%d-%d", u, k)
		}
		props = append(props, p)
	}
	return name, props
}

func c28DisplayText(k int) string { return fmt.Sprintf("name-%d", k) }

// ---------------------------------------------------------------- client model

type c28CEntry struct {
	name    string
	props   []c28Prop
	display *string
	latency int32
	gmSet   bool
	gm      int32
	listed  bool
	order   int32
}

type c28Client struct {
	proto int
	m     map[[16]byte]*c28CEntry
}

type c28WEntry struct {
	id      [16]byte
	name    string
	props   []c28Prop
	gm      int32
	listed  bool
	latency int32
	display *string
	order   int32
	hat     bool
}

// c28DecodeUpsert is the vanilla PlayerInfoUpdate reader. order == nil decodes
// the action data in canonical (enum) order, as the vanilla client does.
func c28DecodeUpsert(b []byte, protocol int, order []int) (actions []int, entries []c28WEntry, err error) {
	r := verifkit.NewRefReader(b)
	n := c28NumActions(protocol)
	mask, err := r.Take((n + 7) / 8)
	if err != nil {
		return nil, nil, fmt.Errorf("action set: %w", err)
	}
	for i := 0; i < n; i++ {
		if mask[i/8]&(1<<uint(i%8)) != 0 {
			actions = append(actions, i)
		}
	}
	seq := actions
	if order != nil {
		seq = order
	}
	cnt, err := r.VarInt()
	if err != nil {
		return nil, nil, fmt.Errorf("entry count: %w", err)
	}
	if cnt < 0 || int(cnt) > r.Remaining() {
		return nil, nil, fmt.Errorf("entry count %d", cnt)
	}
	for i := 0; i < int(cnt); i++ {
		var e c28WEntry
		if e.id, err = r.UUID(); err != nil {
			return nil, nil, fmt.Errorf("entry %d uuid: %w", i, err)
		}
		for _, a := range seq {
			switch a {
			case c28ActAdd:
				if e.name, err = r.String(); err != nil {
					return nil, nil, fmt.Errorf("entry %d name: %w", i, err)
				}
				if len(e.name) > 16 {
					return nil, nil, fmt.Errorf("entry %d name longer than 16", i)
				}
				pc, err := r.VarInt()
				if err != nil || pc < 0 || pc > 16 {
					return nil, nil, fmt.Errorf("entry %d property count %d: %v", i, pc, err)
				}
				for k := 0; k < int(pc); k++ {
					var p c28Prop
					if p.name, err = r.String(); err != nil {
						return nil, nil, err
					}
					if p.value, err = r.String(); err != nil {
						return nil, nil, err
					}
					has, err := c28StrictBool(r)
					if err != nil {
						return nil, nil, fmt.Errorf("entry %d property signature flag: %w", i, err)
					}
					if has {
						if p.sig, err = r.String(); err != nil {
							return nil, nil, err
						}
					}
					e.props = append(e.props, p)
				}
			case c28ActChat:
				has, err := c28StrictBool(r)
				if err != nil {
					return nil, nil, fmt.Errorf("entry %d chat flag: %w", i, err)
				}
				if has {
					if _, err = r.Take(16 + 8); err != nil {
						return nil, nil, err
					}
					if _, err = r.ByteArray(); err != nil {
						return nil, nil, err
					}
					if _, err = r.ByteArray(); err != nil {
						return nil, nil, err
					}
				}
			case c28ActGameMode:
				if e.gm, err = r.VarInt(); err != nil {
					return nil, nil, fmt.Errorf("entry %d game mode: %w", i, err)
				}
			case c28ActListed:
				if e.listed, err = c28StrictBool(r); err != nil {
					return nil, nil, fmt.Errorf("entry %d listed: %w", i, err)
				}
			case c28ActLatency:
				if e.latency, err = r.VarInt(); err != nil {
					return nil, nil, fmt.Errorf("entry %d latency: %w", i, err)
				}
			case c28ActDisplay:
				has, err := c28StrictBool(r)
				if err != nil {
					return nil, nil, fmt.Errorf("entry %d display flag: %w", i, err)
				}
				if has {
					s, err := c28ReadComponent(r, protocol)
					if err != nil {
						return nil, nil, fmt.Errorf("entry %d display name: %w", i, err)
					}
					e.display = &s
				}
			case c28ActOrder:
				if e.order, err = r.VarInt(); err != nil {
					return nil, nil, fmt.Errorf("entry %d list order: %w", i, err)
				}
			case c28ActHat:
				if e.hat, err = c28StrictBool(r); err != nil {
					return nil, nil, fmt.Errorf("entry %d hat: %w", i, err)
				}
			}
		}
		entries = append(entries, e)
	}
	if r.Remaining() != 0 {
		return nil, nil, fmt.Errorf("%d trailing byte(s) after the last entry", r.Remaining())
	}
	return actions, entries, nil
}

// c28StrictBool: vanilla reads any non-zero byte as true; a byte other than 0/1
// never comes from a correct encoder, so it is reported as a decode problem.
func c28StrictBool(r *verifkit.RefReader) (bool, error) {
	b, err := r.Byte()
	if err != nil {
		return false, err
	}
	if b > 1 {
		return false, fmt.Errorf("boolean byte 0x%02x", b)
	}
	return b == 1, nil
}

// c28ReadComponent returns the literal text of a pure text component.
func c28ReadComponent(r *verifkit.RefReader, protocol int) (string, error) {
	if protocol < 765 {
		s, err := r.String()
		if err != nil {
			return "", err
		}
		var v any
		if err := json.Unmarshal([]byte(s), &v); err != nil {
			return "", fmt.Errorf("component json %q: %w", s, err)
		}
		return c28ComponentText(v), nil
	}
	t, err := r.Byte()
	if err != nil {
		return "", err
	}
	v, err := c28ReadNBT(r, t, 0)
	if err != nil {
		return "", err
	}
	return c28ComponentText(v), nil
}

func c28ComponentText(v any) string {
	switch x := v.(type) {
	case string:
		return x
	case map[string]any:
		extra := false
		for k := range x {
			if k != "text" && k != "type" {
				extra = true
			}
		}
		if s, ok := x["text"].(string); ok && !extra {
			return s
		}
	}
	b, _ := json.Marshal(v)
	return "non-text:" + string(b)
}

func c28ReadNBT(r *verifkit.RefReader, tag byte, depth int) (any, error) {
	if depth > 32 {
		return nil, fmt.Errorf("nbt too deep")
	}
	switch tag {
	case 1:
		b, err := r.Byte()
		return float64(int8(b)), err
	case 2:
		v, err := r.U16()
		return float64(int16(v)), err
	case 3:
		v, err := r.U32()
		return float64(int32(v)), err
	case 4:
		v, err := r.U64()
		return float64(int64(v)), err
	case 5:
		_, err := r.Take(4)
		return "f32", err
	case 6:
		_, err := r.Take(8)
		return "f64", err
	case 7, 11, 12:
		n, err := r.U32()
		if err != nil {
			return nil, err
		}
		w := map[byte]int{7: 1, 11: 4, 12: 8}[tag]
		_, err = r.Take(int(n) * w)
		return "array", err
	case 8:
		return r.UTF()
	case 9:
		et, err := r.Byte()
		if err != nil {
			return nil, err
		}
		n, err := r.U32()
		if err != nil {
			return nil, err
		}
		if int(n) > r.Remaining() {
			return nil, fmt.Errorf("nbt list length %d", n)
		}
		out := make([]any, 0, n)
		for i := 0; i < int(n); i++ {
			v, err := c28ReadNBT(r, et, depth+1)
			if err != nil {
				return nil, err
			}
			out = append(out, v)
		}
		return out, nil
	case 10:
		m := map[string]any{}
		for {
			t, err := r.Byte()
			if err != nil {
				return nil, err
			}
			if t == 0 {
				return m, nil
			}
			name, err := r.UTF()
			if err != nil {
				return nil, err
			}
			v, err := c28ReadNBT(r, t, depth+1)
			if err != nil {
				return nil, err
			}
			m[name] = v
		}
	}
	return nil, fmt.Errorf("nbt tag type %d", tag)
}

func c28DecodeRemove(b []byte) ([][16]byte, error) {
	r := verifkit.NewRefReader(b)
	n, err := r.VarInt()
	if err != nil || n < 0 || int(n)*16 > r.Remaining() {
		return nil, fmt.Errorf("remove count %d: %v", n, err)
	}
	var out [][16]byte
	for i := 0; i < int(n); i++ {
		id, err := r.UUID()
		if err != nil {
			return nil, err
		}
		out = append(out, id)
	}
	if r.Remaining() != 0 {
		return nil, fmt.Errorf("%d trailing byte(s)", r.Remaining())
	}
	return out, nil
}

// applyUpsert is ClientPacketListener.handlePlayerInfoUpdate.
func (c *c28Client) applyUpsert(actions []int, entries []c28WEntry) {
	has := func(a int) bool {
		for _, x := range actions {
			if x == a {
				return true
			}
		}
		return false
	}
	if has(c28ActAdd) {
		for _, e := range entries {
			if _, ok := c.m[e.id]; !ok { // putIfAbsent
				c.m[e.id] = &c28CEntry{name: e.name, props: e.props}
			}
		}
	}
	for _, e := range entries {
		ce := c.m[e.id]
		if ce == nil {
			continue // "Ignoring player info update for unknown player"
		}
		for _, a := range actions {
			switch a {
			case c28ActGameMode:
				ce.gmSet, ce.gm = true, e.gm
			case c28ActListed:
				ce.listed = e.listed
			case c28ActLatency:
				ce.latency = e.latency
			case c28ActDisplay:
				ce.display = e.display
			case c28ActOrder:
				ce.order = e.order
			}
		}
	}
}

func (c *c28Client) applyRemove(ids [][16]byte) {
	for _, id := range ids {
		delete(c.m, id)
	}
}

// ---------------------------------------------------------------- backend wire encoder

func c28EncodeBackendUpsert(protocol int, mask int, us []int, attrs []c28Attr) []byte {
	n := c28NumActions(protocol)
	mb := make([]byte, (n+7)/8)
	for i := 0; i < n; i++ {
		if mask&(1<<uint(i)) != 0 {
			mb[i/8] |= 1 << uint(i%8)
		}
	}
	out := append([]byte(nil), mb...)
	out = append(out, verifkit.RefVarInt(int32(len(us)))...)
	for k, u := range us {
		a := attrs[k]
		id := c28UUID(u)
		out = append(out, id[:]...)
		for i := 0; i < n; i++ {
			if mask&(1<<uint(i)) == 0 {
				continue
			}
			switch i {
			case c28ActAdd:
				name, props := c28ProfileOf(u, a.NameVar)
				out = append(out, verifkit.RefString(name)...)
				out = append(out, verifkit.RefVarInt(int32(len(props)))...)
				for _, p := range props {
					out = append(out, verifkit.RefString(p.name)...)
					out = append(out, verifkit.RefString(p.value)...)
					out = append(out, verifkit.RefBool(p.sig != "")...)
					if p.sig != "" {
						out = append(out, verifkit.RefString(p.sig)...)
					}
				}
			case c28ActChat:
				out = append(out, 0) // no chat session
			case c28ActGameMode:
				out = append(out, verifkit.RefVarInt(int32(a.GameMode))...)
			case c28ActListed:
				out = append(out, verifkit.RefBool(a.Listed)...)
			case c28ActLatency:
				out = append(out, verifkit.RefVarInt(int32(a.LatencyUS/1000))...)
			case c28ActDisplay:
				out = append(out, verifkit.RefBool(a.Display != 0)...)
				if a.Display != 0 {
					out = append(out, c28EncodeComponent(protocol, c28DisplayText(a.Display), a.StrTag)...)
				}
			case c28ActOrder:
				out = append(out, verifkit.RefVarInt(int32(a.Order))...)
			case c28ActHat:
				out = append(out, verifkit.RefBool(a.Hat)...)
			}
		}
	}
	return out
}

func c28EncodeComponent(protocol int, text string, bare bool) []byte {
	if protocol < 765 {
		var j []byte
		if bare {
			j, _ = json.Marshal(text)
		} else {
			j, _ = json.Marshal(map[string]string{"text": text})
		}
		return verifkit.RefString(string(j))
	}
	if bare {
		return append([]byte{8}, verifkit.RefUTF(text)...)
	}
	out := []byte{10, 8}
	out = append(out, verifkit.RefUTF("text")...)
	out = append(out, verifkit.RefUTF(text)...)
	return append(out, 0)
}

// ---------------------------------------------------------------- viewer fake

type c28Viewer struct {
	protocol proto.Protocol
	recv     []proto.Packet
}

func (v *c28Viewer) WritePacket(p proto.Packet) error    { v.recv = append(v.recv, p); return nil }
func (v *c28Viewer) BufferPacket(p proto.Packet) error   { v.recv = append(v.recv, p); return nil }
func (v *c28Viewer) Flush() error                        { return nil }
func (v *c28Viewer) Protocol() proto.Protocol            { return v.protocol }
func (v *c28Viewer) IdentifiedKey() crypto.IdentifiedKey { return nil }

// ---------------------------------------------------------------- known-finding steering

var (
	c28KnownOnce sync.Once
	c28KnownKeys map[string]bool
)

func c28Known(key string) bool {
	c28KnownOnce.Do(func() {
		c28KnownKeys = map[string]bool{}
		b, err := os.ReadFile(os.Getenv("VERIF_KNOWN"))
		if err != nil {
			return
		}
		var f struct {
			Findings []struct {
				Property string `json:"property"`
				Status   string `json:"status"`
				Key      string `json:"key"`
			} `json:"findings"`
		}
		if json.Unmarshal(b, &f) != nil {
			return
		}
		for _, e := range f.Findings {
			if e.Property == "C28" && e.Status == "known" {
				c28KnownKeys[e.Key] = true
			}
		}
	})
	return c28KnownKeys[key]
}

const (
	c28KeyTypedNilChat = "panic:Add:typed-nil-chat-session"
	c28KeyReAddPanic   = "panic:Add:identical-re-add"
	c28KeyOrder      = "client-decode:non-canonical-action-order"
)

// ---------------------------------------------------------------- run

func c28CanonIndex(a playerinfo.UpsertAction) int {
	switch a {
	case playerinfo.AddPlayerAction:
		return c28ActAdd
	case playerinfo.InitializeChatAction:
		return c28ActChat
	case playerinfo.UpdateGameModeAction:
		return c28ActGameMode
	case playerinfo.UpdateListedAction:
		return c28ActListed
	case playerinfo.UpdateLatencyAction:
		return c28ActLatency
	case playerinfo.UpdateDisplayNameAction:
		return c28ActDisplay
	case playerinfo.UpdateListOrderAction:
		return c28ActOrder
	case playerinfo.UpdateHatAction:
		return c28ActHat
	}
	return -1
}

// c28Run executes one history. While the action-order finding is listed as known
// the harness sorts the ActionSet of the proxy's own packets into enum order
// before calling Encode (= what the repaired encoder would write), so that the
// rest of the tab-list logic can be explored; cases with Raw set never do that.
func c28Run(c c28Case) verifkit.Result {
	allowCanon := !c.Raw
	viewer := &c28Viewer{protocol: proto.Protocol(c.Proto)}
	itl := New(viewer)
	tl, ok := itl.(*TabList)
	if !ok {
		return verifkit.Fail("list-kind", "New(viewer proto %d) = %T, want *TabList", c.Proto, itl)
	}
	client := &c28Client{proto: c.Proto, m: map[[16]byte]*c28CEntry{}}
	saved := map[int]tablist.Entry{} // last entry object seen in Entries() per uuid index
	canonicalise := allowCanon && c28Known(c28KeyOrder)

	labels := map[string]bool{fmt.Sprintf("proto-%d", c.Proto): true}
	apiTouched, backendTouched := map[int]bool{}, map[int]bool{}
	mixed := false
	touch := func(u int, api bool) {
		if api {
			apiTouched[u] = true
		} else {
			backendTouched[u] = true
		}
		if apiTouched[u] && backendTouched[u] {
			mixed = true
		}
	}

	mkEntry := func(u int, a c28Attr, alreadyInCall bool) *Entry {
		// the profile of a uuid that is already listed is kept (a uuid identifies a profile)
		name, props := c28ProfileOf(u, 0)
		if ce := client.m[c28UUID(u)]; ce != nil {
			name, props = ce.name, ce.props
		}
		gp := profile.GameProfile{ID: c28UUID(u), Name: name}
		for _, p := range props {
			gp.Properties = append(gp.Properties, profile.Property{Name: p.name, Value: p.value, Signature: p.sig})
		}
		gm := a.GameMode
		if gm == -1 && (alreadyInCall || client.m[c28UUID(u)] != nil) {
			gm = 0 // "not set" only makes sense for an entry the client does not have yet
		}
		var dn component.Component
		if a.Display != 0 {
			dn = &component.Text{Content: c28DisplayText(a.Display)}
		}
		return &Entry{OwningTabList: ResolveRoot(tl), EntryAttributes: EntryAttributes{
			Profile: gp, DisplayName: dn, Latency: time.Duration(a.LatencyUS) * time.Microsecond,
			GameMode: gm, Listed: a.Listed, ListOrder: a.Order, ShowsHat: a.Hat,
		}}
	}

	for i, op := range c.Ops {
		nonCanonical := false
		var panicked any
		do := func(fn func() error) error {
			var err error
			func() {
				defer func() {
					if p := recover(); p != nil {
						panicked = fmt.Sprintf("%v\n%s", p, c28Stack())
					}
				}()
				err = fn()
			}()
			return err
		}
		var err error
		var backendWire []byte
		backendIsRemove := false

		switch op.Op {
		case "add":
			var es []tablist.Entry
			for k, u := range op.U {
				dup := false
				for _, v := range op.U[:k] {
					dup = dup || v == u
				}
				es = append(es, mkEntry(u, op.Attrs[k], dup))
				touch(u, true)
				if client.m[c28UUID(u)] != nil {
					labels["api-re-add-fresh-object"] = true
				} else {
					labels["api-add-new"] = true
				}
			}
			err = do(func() error { return tl.Add(es...) })
		case "readd":
			cur := tl.Entries()[c28UUID(op.U[0])]
			if cur == nil {
				continue
			}
			touch(op.U[0], true)
			labels["api-re-add-same-object"] = true
			err = do(func() error { return tl.Add(cur) })
			if panicked != nil {
				return verifkit.Fail(c28KeyReAddPanic, "op %d: Add of the entry object the list already holds for uuid %d panicked: %v", i, op.U[0], panicked)
			}
		case "addsaved":
			e := saved[op.U[0]]
			if e == nil {
				continue
			}
			if cur := tl.Entries()[c28UUID(op.U[0])]; cur != nil {
				if cur == e {
					continue // that is the "readd" op
				}
				// keep the domain rule "a listed uuid keeps its profile"
				if !c28SameProfile(cur.Profile(), e.Profile()) {
					continue
				}
			}
			touch(op.U[0], true)
			labels["api-add-saved-object"] = true
			err = do(func() error { return tl.Add(e) })
			if panicked != nil && c28TypedNilChat(e) {
				return verifkit.Fail(c28KeyTypedNilChat, "op %d %s: Add of an entry whose ChatSession() is a non-nil interface holding a nil *chat.RemoteChatSession (stored by ProcessUpdate for a backend INITIALIZE_CHAT without session) panicked: %v", i, c28OpString(op), panicked)
			}
		case "set", "setsaved":
			var e tablist.Entry
			if op.Op == "set" {
				e = tl.Entries()[c28UUID(op.U[0])]
			} else {
				e = saved[op.U[0]]
				if e != nil && tl.Entries()[c28UUID(op.U[0])] != e {
					labels["setter-on-detached-entry"] = true
				}
			}
			if e == nil {
				continue
			}
			touch(op.U[0], true)
			a := op.Attrs[0]
			labels["set-"+op.Field] = true
			err = do(func() error {
				switch op.Field {
				case "display":
					if a.Display == 0 {
						return e.SetDisplayName(nil)
					}
					return e.SetDisplayName(&component.Text{Content: c28DisplayText(a.Display)})
				case "latency":
					return e.SetLatency(time.Duration(a.LatencyUS) * time.Microsecond)
				case "gamemode":
					gm := a.GameMode
					if gm < 0 {
						gm = 0
					}
					return e.SetGameMode(gm)
				case "listed":
					return e.SetListed(a.Listed)
				case "order":
					return e.SetListOrder(a.Order)
				}
				panic("c28: unknown field " + op.Field)
			})
		case "remove":
			var ids []uuid.UUID
			for _, u := range op.U {
				ids = append(ids, c28UUID(u))
				touch(u, true)
			}
			if len(ids) == 0 {
				continue // RemoveAll() without ids means "all"; that is the removeall op
			}
			labels["api-remove"] = true
			err = do(func() error { return tl.RemoveAll(ids...) })
		case "removeall":
			labels["api-remove-all"] = true
			err = do(func() error { return tl.RemoveAll() })
		case "bupsert":
			mask := op.Actions & (1<<uint(c28NumActions(c.Proto)) - 1)
			if mask == 0 {
				continue
			}
			backendWire = c28EncodeBackendUpsert(c.Proto, mask, op.U, op.Attrs)
			pkt := new(playerinfo.Upsert)
			rd := bytes.NewReader(backendWire)
			var derr error
			do(func() error {
				derr = pkt.Decode(&proto.PacketContext{Direction: proto.ClientBound, Protocol: proto.Protocol(c.Proto)}, rd)
				return nil
			})
			if panicked != nil {
				return verifkit.Fail("panic:Upsert.Decode", "op %d: decoding backend packet %x panicked: %v", i, backendWire, panicked)
			}
			if derr != nil || rd.Len() != 0 {
				return verifkit.Fail("backend-decode:upsert", "op %d: gate cannot decode a well-formed backend PlayerInfoUpdate %x (proto %d): err=%v, %d byte(s) left", i, backendWire, c.Proto, derr, rd.Len())
			}
			for _, u := range op.U {
				touch(u, false)
			}
			labels["backend-upsert"] = true
			if mask&1 != 0 {
				labels["backend-add"] = true
			}
			err = do(func() error { return tl.ProcessUpdate(pkt) })
		case "bremove":
			var ids [][16]byte
			out := verifkit.RefVarInt(int32(len(op.U)))
			for _, u := range op.U {
				id := c28UUID(u)
				out = append(out, id[:]...)
				ids = append(ids, id)
				touch(u, false)
			}
			backendWire, backendIsRemove = out, true
			pkt := new(playerinfo.Remove)
			rd := bytes.NewReader(backendWire)
			if derr := pkt.Decode(&proto.PacketContext{Direction: proto.ClientBound, Protocol: proto.Protocol(c.Proto)}, rd); derr != nil || rd.Len() != 0 {
				return verifkit.Fail("backend-decode:remove", "op %d: gate cannot decode a well-formed PlayerInfoRemove %x: %v", i, backendWire, derr)
			}
			labels["backend-remove"] = true
			do(func() error { tl.ProcessRemove(pkt); return nil })
		default:
			panic("c28: unknown op " + op.Op)
		}
		if panicked != nil {
			return verifkit.Fail("panic:"+op.Op, "op %d %s panicked: %v", i, c28OpString(op), panicked)
		}
		if err != nil {
			return verifkit.Fail("error:"+op.Op, "op %d %s returned an error although the viewer accepts every packet: %v", i, c28OpString(op), err)
		}

		// ---- the client receives: the forwarded backend bytes, and whatever the proxy wrote itself
		if backendWire != nil {
			if backendIsRemove {
				ids, derr := c28DecodeRemove(backendWire)
				if derr != nil {
					panic("c28: own remove encoding does not decode: " + derr.Error())
				}
				client.applyRemove(ids)
			} else {
				acts, ents, derr := c28DecodeUpsert(backendWire, c.Proto, nil)
				if derr != nil {
					panic("c28: own upsert encoding does not decode: " + derr.Error())
				}
				client.applyUpsert(acts, ents)
			}
		}
		recv := viewer.recv
		viewer.recv = nil
		if len(recv) > 0 && backendWire != nil {
			return verifkit.Fail("unexpected-packet:backend-op", "op %d %s: proxy wrote %d packet(s) of its own while processing a backend packet", i, c28OpString(op), len(recv))
		}
		for _, pkt := range recv {
			var buf bytes.Buffer
			pc := &proto.PacketContext{Direction: proto.ClientBound, Protocol: proto.Protocol(c.Proto)}
			switch p := pkt.(type) {
			case *playerinfo.Upsert:
				var order []int
				canon := true
				for k, a := range p.ActionSet {
					order = append(order, c28CanonIndex(a))
					if k > 0 && order[k] < order[k-1] {
						canon = false
					}
				}
				if !canon {
					labels["proxy-packet-non-canonical-order"] = true
					if canonicalise {
						cp := *p
						cp.ActionSet = append([]playerinfo.UpsertAction(nil), p.ActionSet...)
						sort.SliceStable(cp.ActionSet, func(x, y int) bool { return c28CanonIndex(cp.ActionSet[x]) < c28CanonIndex(cp.ActionSet[y]) })
						p = &cp
						labels["canonicalised-by-harness"] = true
					} else {
						nonCanonical = true
					}
				}
				if eerr := p.Encode(pc, &buf); eerr != nil {
					return verifkit.Fail("encode-error:upsert", "op %d %s: encoding the proxy's PlayerInfoUpdate failed: %v", i, c28OpString(op), eerr)
				}
				acts, ents, derr := c28DecodeUpsert(buf.Bytes(), c.Proto, nil)
				if derr != nil {
					if nonCanonical {
						if _, _, d2 := c28DecodeUpsert(buf.Bytes(), c.Proto, order); d2 == nil {
							return verifkit.Fail(c28KeyOrder, "op %d %s: the vanilla client cannot decode the proxy's PlayerInfoUpdate %x (%v); it decodes when the action data is read in the order %v in which Upsert.Encode wrote it instead of enum order",
								i, c28OpString(op), buf.Bytes(), derr, c28ActList(order))
						}
					}
					return verifkit.Fail("client-decode:upsert", "op %d %s: the vanilla client cannot decode the proxy's PlayerInfoUpdate %x: %v", i, c28OpString(op), buf.Bytes(), derr)
				}
				client.applyUpsert(acts, ents)
			case *playerinfo.Remove:
				if eerr := p.Encode(pc, &buf); eerr != nil {
					return verifkit.Fail("encode-error:remove", "op %d: encoding PlayerInfoRemove failed: %v", i, eerr)
				}
				ids, derr := c28DecodeRemove(buf.Bytes())
				if derr != nil {
					return verifkit.Fail("client-decode:remove", "op %d: client cannot decode PlayerInfoRemove %x: %v", i, buf.Bytes(), derr)
				}
				client.applyRemove(ids)
			default:
				return verifkit.Fail("unexpected-packet:type", "op %d: viewer received %T", i, pkt)
			}
		}

		// ---- compare the proxy's view with the client's
		ents := tl.Entries()
		for u := 1; u <= c28Pool; u++ {
			if e := ents[c28UUID(u)]; e != nil {
				saved[u] = e
			}
		}
		if v := c28Compare(i, op, c.Proto, ents, client); v != nil {
			if nonCanonical {
				v = verifkit.Violationf(c28KeyOrder, "%s\n(the proxy's PlayerInfoUpdate of this step carried its action data in non-canonical order; the client read it in enum order)", v.Msg)
			}
			return verifkit.Result{V: v}
		}
	}

	out := make([]string, 0, len(labels))
	for l := range labels {
		out = append(out, l)
	}
	sort.Strings(out)
	if mixed {
		out = append(out, "mixed-api-and-backend-same-uuid")
	}
	return verifkit.Result{NonTrivial: mixed, Labels: out}
}

const c28Pool = 4

func c28TypedNilChat(e tablist.Entry) bool {
	cs := e.ChatSession()
	if cs == nil {
		return false
	}
	v := reflect.ValueOf(cs)
	return v.Kind() == reflect.Pointer && v.IsNil()
}

// c28Stack returns the frames of the panicking goroutine inside the tablist package.
func c28Stack() string {
	var out []string
	lines := strings.Split(string(debug.Stack()), "\n")
	for i := 0; i+1 < len(lines); i++ {
		if strings.Contains(lines[i], "/tablist.") && !strings.Contains(lines[i], "c28") {
			out = append(out, strings.TrimSpace(lines[i])+" "+strings.TrimSpace(lines[i+1]))
		}
	}
	return strings.Join(out, "\n")
}

func c28SameProfile(a, b profile.GameProfile) bool {
	if a.ID != b.ID || a.Name != b.Name || len(a.Properties) != len(b.Properties) {
		return false
	}
	for i := range a.Properties {
		if a.Properties[i] != b.Properties[i] {
			return false
		}
	}
	return true
}

func c28Compare(i int, op c28Op, protocol int, ents map[uuid.UUID]tablist.Entry, client *c28Client) *verifkit.Violation {
	pre := fmt.Sprintf("after op %d %s: ", i, c28OpString(op))
	for id := range client.m {
		if ents[uuid.UUID(id)] == nil {
			return verifkit.Violationf("mismatch:membership", pre+"the client holds an entry for %s, TabList.Entries() does not", uuid.UUID(id))
		}
	}
	for id, e := range ents {
		ce := client.m[[16]byte(id)]
		if ce == nil {
			return verifkit.Violationf("mismatch:membership", pre+"TabList.Entries() has %s, the client was never told (or was told to remove it)", id)
		}
		if e == nil {
			return verifkit.Violationf("mismatch:nil-entry", pre+"nil entry for %s", id)
		}
		gp := e.Profile()
		if gp.ID != id {
			return verifkit.Violationf("mismatch:profile", pre+"entry keyed %s has profile id %s", id, gp.ID)
		}
		var props []c28Prop
		for _, p := range gp.Properties {
			props = append(props, c28Prop{p.Name, p.Value, p.Signature})
		}
		if gp.Name != ce.name || fmt.Sprint(props) != fmt.Sprint(ce.props) {
			return verifkit.Violationf("mismatch:profile", pre+"%s: proxy profile %q %v, client %q %v", id, gp.Name, props, ce.name, ce.props)
		}
		if ms := e.Latency().Milliseconds(); ms != int64(ce.latency) {
			return verifkit.Violationf("mismatch:latency", pre+"%s: proxy latency %d ms, client %d ms", id, ms, ce.latency)
		}
		if gm := e.GameMode(); (gm == -1) != !ce.gmSet || (ce.gmSet && int32(gm) != ce.gm) {
			return verifkit.Violationf("mismatch:gamemode", pre+"%s: proxy game mode %d, client set=%v %d", id, gm, ce.gmSet, ce.gm)
		}
		if e.Listed() != ce.listed {
			return verifkit.Violationf("mismatch:listed", pre+"%s: proxy listed %v, client %v", id, e.Listed(), ce.listed)
		}
		var pd *string
		if dn := e.DisplayName(); dn != nil {
			s := fmt.Sprintf("non-text:%#v", dn)
			if t, ok := dn.(*component.Text); ok && len(t.Extra) == 0 && (&t.S).IsZero() {
				s = t.Content
			}
			pd = &s
		}
		if (pd == nil) != (ce.display == nil) || (pd != nil && *pd != *ce.display) {
			return verifkit.Violationf("mismatch:display-name", pre+"%s: proxy display name %s, client %s", id, c28PS(pd), c28PS(ce.display))
		}
		if protocol >= 768 && int32(e.ListOrder()) != ce.order {
			return verifkit.Violationf("mismatch:list-order", pre+"%s: proxy list order %d, client %d", id, e.ListOrder(), ce.order)
		}
	}
	return nil
}

func c28PS(s *string) string {
	if s == nil {
		return "<none>"
	}
	return fmt.Sprintf("%q", *s)
}

func c28ActList(a []int) string {
	var s []string
	for _, x := range a {
		if x >= 0 && x < len(c28ActNames) {
			s = append(s, c28ActNames[x])
		} else {
			s = append(s, "?")
		}
	}
	return "[" + strings.Join(s, " ") + "]"
}

func c28OpString(op c28Op) string {
	switch op.Op {
	case "set", "setsaved":
		return fmt.Sprintf("%s(u%v %s)", op.Op, op.U, op.Field)
	case "bupsert":
		var a []int
		for i := 0; i < 8; i++ {
			if op.Actions&(1<<uint(i)) != 0 {
				a = append(a, i)
			}
		}
		return fmt.Sprintf("bupsert(u%v %s)", op.U, c28ActList(a))
	}
	return fmt.Sprintf("%s(u%v)", op.Op, op.U)
}

// ---------------------------------------------------------------- generator

func c28GenAttr(t *rapid.T, backend bool) c28Attr {
	a := c28Attr{
		Display:  rapid.IntRange(0, 3).Draw(t, "display"),
		GameMode: rapid.IntRange(0, 3).Draw(t, "gm"),
		Listed:   rapid.Bool().Draw(t, "listed"),
		Order:    rapid.SampledFrom([]int{0, 0, 1, 5, -3, 300}).Draw(t, "order"),
		Hat:      rapid.Bool().Draw(t, "hat"),
	}
	ms := rapid.SampledFrom([]int64{0, 1, 2, 20, 127, 128, 150, 1000, 70000, -1}).Draw(t, "latencyMs")
	a.LatencyUS = ms * 1000
	if backend {
		a.NameVar = rapid.IntRange(0, 2).Draw(t, "nameVar")
		a.StrTag = rapid.Bool().Draw(t, "strTag")
	} else {
		if rapid.IntRange(0, 5).Draw(t, "subMs") == 0 {
			a.LatencyUS += int64(rapid.IntRange(1, 999).Draw(t, "us"))
		}
		if rapid.IntRange(0, 4).Draw(t, "gmUnset") == 0 {
			a.GameMode = -1
		}
	}
	return a
}

func c28Gen(t *rapid.T) c28Case {
	c := c28Case{Proto: rapid.SampledFrom([]int{761, 763, 765, 767, 768, 769, 772}).Draw(t, "proto")}
	n := rapid.IntRange(1, 14).Draw(t, "nops")
	avoidReAdd := c28Known(c28KeyReAddPanic)
	avoidChat := c28Known(c28KeyTypedNilChat)
	// rough tracking of which uuids are listed / were ever listed, only used to aim ops
	present, ever := map[int]bool{}, map[int]bool{}
	pick := func(label string, from map[int]bool) int {
		var cand []int
		for u := 1; u <= 3; u++ {
			if from[u] {
				cand = append(cand, u)
			}
		}
		if len(cand) > 0 && rapid.IntRange(0, 5).Draw(t, label+"Aim") != 0 {
			return rapid.SampledFrom(cand).Draw(t, label)
		}
		return rapid.IntRange(1, 3).Draw(t, label) // uuid 4 is only ever "unknown"
	}
	for len(c.Ops) < n {
		k := rapid.IntRange(0, 99).Draw(t, "kind")
		switch {
		case k < 20:
			m := rapid.IntRange(1, 2).Draw(t, "nEntries")
			op := c28Op{Op: "add"}
			for j := 0; j < m; j++ {
				u := rapid.IntRange(1, 3).Draw(t, "u")
				op.U = append(op.U, u)
				op.Attrs = append(op.Attrs, c28GenAttr(t, false))
				present[u], ever[u] = true, true
			}
			c.Ops = append(c.Ops, op)
		case k < 25:
			if avoidReAdd {
				c.Ops = append(c.Ops, c28Op{Op: "addsaved", U: []int{pick("u", ever)}})
			} else {
				c.Ops = append(c.Ops, c28Op{Op: "readd", U: []int{pick("u", present)}})
			}
		case k < 33:
			u := pick("u", ever)
			c.Ops = append(c.Ops, c28Op{Op: "addsaved", U: []int{u}})
			if ever[u] {
				present[u] = true
			}
		case k < 52:
			op := c28Op{Op: "set", U: []int{pick("u", present)}, Attrs: []c28Attr{c28GenAttr(t, false)},
				Field: rapid.SampledFrom([]string{"display", "latency", "gamemode", "listed", "order"}).Draw(t, "field")}
			if rapid.IntRange(0, 5).Draw(t, "detached") == 0 {
				op.Op = "setsaved"
				op.U = []int{pick("u", ever)}
			}
			c.Ops = append(c.Ops, op)
		case k < 60:
			op := c28Op{Op: "remove"}
			m := rapid.IntRange(1, 2).Draw(t, "nIds")
			for j := 0; j < m; j++ {
				u := rapid.IntRange(1, 4).Draw(t, "u")
				op.U = append(op.U, u)
				delete(present, u)
			}
			c.Ops = append(c.Ops, op)
		case k < 62:
			c.Ops = append(c.Ops, c28Op{Op: "removeall"})
			present = map[int]bool{}
		case k < 92:
			op := c28Op{Op: "bupsert"}
			switch rapid.IntRange(0, 3).Draw(t, "shape") {
			case 0: // what a vanilla server sends on join: everything
				op.Actions = 0xff
			case 1:
				op.Actions = 1 << uint(rapid.IntRange(1, 7).Draw(t, "single"))
			default:
				op.Actions = rapid.IntRange(1, 255).Draw(t, "mask")
			}
			if avoidChat {
				// a backend INITIALIZE_CHAT makes every later Add of that entry object panic (known finding)
				op.Actions &^= 1 << c28ActChat
				if op.Actions == 0 {
					op.Actions = 1 << c28ActLatency
				}
			}
			m := rapid.IntRange(1, 3).Draw(t, "nEntries")
			for j := 0; j < m; j++ {
				u := rapid.IntRange(1, 4).Draw(t, "u")
				if op.Actions&1 == 0 && rapid.IntRange(0, 3).Draw(t, "aimB") != 0 {
					u = pick("ub", present)
				}
				op.U = append(op.U, u)
				op.Attrs = append(op.Attrs, c28GenAttr(t, true))
				if op.Actions&1 != 0 && u <= 3 {
					present[u], ever[u] = true, true
				}
			}
			c.Ops = append(c.Ops, op)
		default:
			op := c28Op{Op: "bremove"}
			m := rapid.IntRange(1, 2).Draw(t, "nIds")
			for j := 0; j < m; j++ {
				u := rapid.IntRange(1, 4).Draw(t, "u")
				op.U = append(op.U, u)
				delete(present, u)
			}
			c.Ops = append(c.Ops, op)
		}
	}
	return c
}

func TestVerif_C28(t *testing.T) {
	verifkit.Check(t, "C28", "history",
		"histories of 1..12 ops over 3 uuids (+1 never-added): API Add of fresh entries (new / re-add changed / equal copy), re-Add of the listed object, Add of a saved (possibly removed) object, entry setters (display name, latency, game mode, listed, list order; also on detached entries), RemoveAll(ids)/RemoveAll(); backend PlayerInfoUpdate (all / single / random action subsets, 1-3 entries, known and unknown uuids) and PlayerInfoRemove as wire bytes; viewers 1.19.3..1.21.7; after each op Entries() == vanilla client model fed with gate-encoded / forwarded bytes; non-trivial = some uuid was touched by both API and backend ops",
		c28Gen, c28Run)
}
