//go:build verif

package reload

// C38: config file reload fires once for the final content despite lost fs events.
//
// The real watch loop (watchWithOptions/runWatchLoop) runs with a fake eventWatcher
// (so the harness decides which notifications are delivered, dropped, duplicated or
// delayed), a short reconcile interval and the production debounce, over real files
// in a scratch directory. The harness is the only writer of the file.
//
// Oracle (black-box; no verdict depends on how fast anything ran):
//
//	(L)  eventual delivery: after the last operation, the content read by the last
//	     callback (or the initial content if none ran) equals the final content. Judged
//	     only after waiting generously, proving that the loop is being scheduled (it
//	     accepts a marker event) and waiting again.
//	(S0) a callback although the file was not touched at all since the callback before
//	     the previous one returned (or since the watch started) is a callback for
//	     content equal to what was last evaluated: the loop can only schedule a
//	     callback after reading a fingerprint that differs from an earlier reading.
//	(S1) order-only knowledge rule: a delivered notification followed by a marker event
//	     that the loop has accepted proves that the loop fingerprinted the file after the
//	     notification. If the file has not been touched since before that notification,
//	     `observed` is the fingerprint of the known content X. A callback starting in
//	     that state evaluates X. A later callback starting in such a state with the same
//	     X is a callback for content equal to what was last evaluated.
//	(O)  callbacks never overlap.
//
// The real-time bound (reconcile interval + debounce) is measured and reported as
// evidence only.

import (
	"context"
	"errors"
	"fmt"
	"os"
	"path/filepath"
	"sort"
	"strings"
	"sync"
	"sync/atomic"
	"testing"
	"time"

	"github.com/fsnotify/fsnotify"
	"pgregory.net/rapid"

	"go.minekube.com/gate/pkg/internal/verifkit"
)

// ---------------------------------------------------------------- case

type c38Op struct {
	Kind    string `json:"kind"`              // write | replace | delete | recreate
	Content string `json:"content,omitempty"` // a | b | c
	DelayMs int    `json:"delay_ms,omitempty"`
	Notify  string `json:"notify,omitempty"`   // deliver | drop | dup | delay
	DelayBy int    `json:"delay_by,omitempty"` // delay: deliver before the op that many steps later (or at the end)
	Settle  bool   `json:"settle,omitempty"`   // wait for eventual delivery after this op
}

type c38CbOp struct {
	K   int    `json:"k"`   // 1-based callback number
	Pos string `json:"pos"` // pre (before the callback reads the file) | post
	Op  c38Op  `json:"op"`
}

type c38Script struct {
	Initial     string    `json:"initial"` // a | b | c | "" (file missing)
	Ops         []c38Op   `json:"ops"`
	CbOps       []c38CbOp `json:"cb_ops,omitempty"`
	FinalNotify bool      `json:"final_notify,omitempty"`
	Reject      string    `json:"reject,omitempty"` // content for which the callback reports a rejection
	Shape       string    `json:"shape,omitempty"`
	// DieBefore k>0: before operation k-1 (or before the final settle if there is no
	// such operation) the fs watcher reports an error and is closed by the loop; from
	// then on every notification is lost. Reattach n>=0: the loop's next n attempts to
	// create a new watcher fail, the one after succeeds; n<0: they fail for good
	// (only the periodic reconciliation is left).
	DieBefore int `json:"die_before,omitempty"`
	Reattach  int `json:"reattach,omitempty"`
}

type c38Case struct {
	IntervalMs int         `json:"interval_ms"`
	Scripts    []c38Script `json:"scripts"`
}

const c38Missing = "\x00missing"

func c38Text(sym string) string { return "config: " + sym + "\n" }

// ---------------------------------------------------------------- fake watcher

type c38Watcher struct {
	events chan fsnotify.Event
	errs   chan error
	closed chan struct{}
	once   sync.Once
}

func (w *c38Watcher) Events() <-chan fsnotify.Event { return w.events }
func (w *c38Watcher) Errors() <-chan error          { return w.errs }
func (w *c38Watcher) Close() error {
	w.once.Do(func() { close(w.closed) })
	return nil
}

// send hands one event to the loop; true once the loop has received it.
func (w *c38Watcher) send(ev fsnotify.Event) bool {
	t := time.NewTimer(20 * time.Second)
	defer t.Stop()
	select {
	case w.events <- ev:
		return true
	case <-w.closed:
		return false
	case <-t.C:
		return false
	}
}

// ---------------------------------------------------------------- one script

type c38Ev struct {
	Kind    string // op | cbstart | cbread | cbret
	Content string // op: state after; cbread: content read
	K       int
}

type c38Run struct {
	mu   sync.Mutex
	path string
	dir  string
	w    *c38Watcher
	sc   c38Script

	cur      string // model of the file content
	opSeq    int
	log      []c38Ev
	calls    int
	loaded   string
	seqAtRet []int // opSeq when callback j returned; [0] = at watch start

	obsValid bool
	obsSeq   int
	obsX     string
	evalOK   bool
	evalX    string

	viol *verifkit.Violation

	active       atomic.Int32
	lastActivity time.Time // last op end or callback end (evidence + quiet period only)
	lastOpEnd    time.Time
	lastOpSeqEnd int
	latencies    []time.Duration
	inconclusive bool
	tmpN         int

	// watcher life cycle (guarded by mu)
	created  int
	attempts int // newWatcher calls after the first
	wDead    bool
	finished bool
}

func c38NewWatcher() *c38Watcher {
	return &c38Watcher{events: make(chan fsnotify.Event), errs: make(chan error), closed: make(chan struct{})}
}

// kill makes the current watcher report an error; the loop closes it.
func (r *c38Run) kill() bool {
	r.mu.Lock()
	w := r.w
	r.mu.Unlock()
	t := time.NewTimer(20 * time.Second)
	defer t.Stop()
	select {
	case w.errs <- errors.New("c38: injected watcher failure"):
	case <-t.C:
		return false
	}
	select {
	case <-w.closed:
	case <-t.C:
		return false
	}
	r.mu.Lock()
	if r.w == w {
		r.wDead = true
	}
	r.mu.Unlock()
	return true
}

// alive proves that the loop is running and scheduled: it accepts two marker
// events, or - without a watcher - it keeps trying to create one on its ticker.
func (r *c38Run) alive() bool {
	r.mu.Lock()
	w, dead, a0 := r.w, r.wDead, r.attempts
	r.mu.Unlock()
	if !dead {
		return w.send(r.marker()) && w.send(r.marker())
	}
	deadline := time.Now().Add(20 * time.Second)
	for time.Now().Before(deadline) {
		r.mu.Lock()
		ok := r.attempts >= a0+2 || !r.wDead
		r.mu.Unlock()
		if ok {
			return true
		}
		time.Sleep(2 * time.Millisecond)
	}
	return false
}

func (r *c38Run) fail(key, format string, args ...any) {
	if r.viol == nil {
		r.viol = verifkit.Violationf(key, format, args...)
	}
}

// applyOp performs one file operation. Caller holds r.mu.
func (r *c38Run) applyOp(op c38Op) {
	r.opSeq++
	var err error
	switch op.Kind {
	case "write":
		err = os.WriteFile(r.path, []byte(c38Text(op.Content)), 0o600)
		r.cur = op.Content
	case "replace":
		r.tmpN++
		tmp := filepath.Join(r.dir, fmt.Sprintf("config.yml.tmp%d", r.tmpN))
		if err = os.WriteFile(tmp, []byte(c38Text(op.Content)), 0o600); err == nil {
			err = os.Rename(tmp, r.path)
		}
		r.cur = op.Content
	case "delete":
		if err = os.Remove(r.path); errors.Is(err, os.ErrNotExist) {
			err = nil
		}
		r.cur = c38Missing
	case "recreate":
		if err = os.Remove(r.path); err == nil || errors.Is(err, os.ErrNotExist) {
			// the file is absent for a moment: the loop may fingerprint exactly that state
			// (it counts as a content of its own for the change-and-back pattern)
			r.log = append(r.log, c38Ev{Kind: "op", Content: c38Missing})
			err = os.WriteFile(r.path, []byte(c38Text(op.Content)), 0o600)
		}
		r.cur = op.Content
	default:
		err = fmt.Errorf("unknown op %q", op.Kind)
	}
	if err != nil {
		panic(fmt.Sprintf("c38 harness: file operation %+v failed: %v", op, err))
	}
	r.log = append(r.log, c38Ev{Kind: "op", Content: r.cur})
	now := time.Now()
	r.lastActivity, r.lastOpEnd, r.lastOpSeqEnd = now, now, r.opSeq
}

func (r *c38Run) readFile() string {
	b, err := os.ReadFile(r.path)
	if err != nil {
		if errors.Is(err, os.ErrNotExist) {
			return c38Missing
		}
		panic(fmt.Sprintf("c38 harness: read failed: %v", err))
	}
	s := string(b)
	for _, sym := range []string{"a", "b", "c"} {
		if s == c38Text(sym) {
			return sym
		}
	}
	return "?" + s
}

// callback is the reload callback handed to the watch loop.
func (r *c38Run) callback() error {
	r.mu.Lock()
	fin := r.finished
	r.mu.Unlock()
	if fin {
		return nil // the script is over and its directory is being removed
	}
	if r.active.Add(1) > 1 {
		r.mu.Lock()
		r.fail("callbacks:overlap", "two reload callbacks ran at the same time")
		r.mu.Unlock()
	}
	defer r.active.Add(-1)
	r.mu.Lock()
	defer r.mu.Unlock()
	started := time.Now()
	r.calls++
	k := r.calls
	r.log = append(r.log, c38Ev{Kind: "cbstart", K: k})

	// (S0) nothing touched the file since callback k-2 returned / the watch started
	base := k - 2
	if base < 0 {
		base = 0
	}
	if r.opSeq == r.seqAtRet[base] {
		r.fail("spurious:file-untouched", "callback %d ran although the file was not touched since %s\n%s", k,
			map[bool]string{true: "the watch started", false: fmt.Sprintf("callback %d returned", base)}[base == 0], r.dump())
	}
	// (S1) knowledge rule
	if r.obsValid && r.obsSeq == r.opSeq {
		if r.evalOK && r.evalX == r.obsX {
			r.fail("spurious:content-already-evaluated", "callback %d ran for content %q which is provably what was last evaluated (file untouched since a delivered notification was processed)\n%s", k, r.obsX, r.dump())
		}
		r.evalOK, r.evalX = true, r.obsX
	} else {
		r.evalOK = false
	}

	for _, co := range r.sc.CbOps {
		if co.K == k && co.Pos == "pre" {
			r.applyOp(co.Op)
		}
	}
	content := r.readFile()
	r.log = append(r.log, c38Ev{Kind: "cbread", K: k, Content: content})
	if strings.HasPrefix(content, "?") {
		r.fail("callback:torn-read", "callback %d read content that was never written as a whole: %q", k, content)
	}
	r.loaded = content
	// evidence only: how long after the last operation did the callback that saw
	// the then-current content start
	if content == r.cur && r.lastOpSeqEnd == r.opSeq && !r.lastOpEnd.IsZero() {
		r.latencies = append(r.latencies, started.Sub(r.lastOpEnd))
	}
	for _, co := range r.sc.CbOps {
		if co.K == k && co.Pos == "post" {
			r.applyOp(co.Op)
		}
	}
	r.seqAtRet = append(r.seqAtRet, r.opSeq)
	r.log = append(r.log, c38Ev{Kind: "cbret", K: k})
	r.lastActivity = time.Now()
	if content == c38Missing {
		return Reject("read_failed")
	}
	if content == r.sc.Reject {
		return Reject("invalid")
	}
	return nil
}

func (r *c38Run) dump() string {
	var sb strings.Builder
	fmt.Fprintf(&sb, "initial=%q; events:", r.sc.Initial)
	for _, e := range r.log {
		switch e.Kind {
		case "op":
			fmt.Fprintf(&sb, " op->%q", strings.TrimPrefix(e.Content, "\x00"))
		case "cbread":
			fmt.Fprintf(&sb, " cb%d.read=%q", e.K, strings.TrimPrefix(e.Content, "\x00"))
		default:
			fmt.Fprintf(&sb, " %s%d", e.Kind, e.K)
		}
	}
	return sb.String()
}

func (r *c38Run) marker() fsnotify.Event {
	return fsnotify.Event{Name: filepath.Join(r.dir, "c38-marker"), Op: fsnotify.Chmod}
}

// deliver hands n notifications about the config file to the loop, then a marker
// event; once the marker is accepted the loop has finished processing the
// notifications (single goroutine), i.e. it has fingerprinted the file.
func (r *c38Run) deliver(n int, op fsnotify.Op) bool {
	r.mu.Lock()
	seq0 := r.opSeq
	w, dead := r.w, r.wDead
	r.mu.Unlock()
	if dead {
		return true // nobody is watching: the notification is lost
	}
	for i := 0; i < n; i++ {
		if !w.send(fsnotify.Event{Name: r.path, Op: op}) {
			return false
		}
	}
	if !w.send(r.marker()) {
		return false
	}
	r.mu.Lock()
	if r.opSeq == seq0 {
		r.obsValid, r.obsSeq, r.obsX = true, seq0, r.cur
	}
	r.mu.Unlock()
	return true
}

// storm: after an operation, notifications about the config file keep arriving
// (duplicates, touches) less than the debounce apart for well over a second. The
// reload of the content the file has since the operation must not wait for the
// stream to pause: the loop is single-threaded, so once it has accepted a later
// event, a callback it chose earlier has completed. The debounce timer (100 ms)
// has expired long before the stream ends (>= 1.2 s and >= 40 events), and each of
// the loop's later selects picks a ready timer with probability >= 1/2.
func (r *c38Run) storm(op fsnotify.Op, at int) bool {
	r.mu.Lock()
	w, dead, seq0 := r.w, r.wDead, r.opSeq
	r.mu.Unlock()
	if dead {
		return true
	}
	start := time.Now()
	for n := 0; n < 40 || time.Since(start) < 1200*time.Millisecond; n++ {
		if n > 600 || !w.send(fsnotify.Event{Name: r.path, Op: op}) {
			return false
		}
		time.Sleep(30 * time.Millisecond)
	}
	if !w.send(r.marker()) {
		return false
	}
	r.mu.Lock()
	defer r.mu.Unlock()
	if r.opSeq != seq0 || r.wDead || r.w != w {
		return true // the file changed again meanwhile (in-callback operation): judged by settle
	}
	if r.loaded != r.cur && r.viol == nil && !r.abaPattern() {
		f := func(s string) string { return strings.TrimPrefix(s, "\x00") }
		r.fail("eventual:postponed-by-duplicate-notifications", "after op %d the file has been %q for %v while duplicate notifications kept arriving every 30 ms; the loop accepted all of them but the last reload (of %d) read %q\n%s",
			at, f(r.cur), time.Since(start).Round(time.Millisecond), r.calls, f(r.loaded), r.dump())
	}
	return true
}

// abaPattern: the final content F was established by an operation after callback
// k-1 started, then replaced, before callback k (the last one) read the file.
// Then `evaluated` may be the fingerprint of F although the callback read
// something else, and a file that returns to F is never reloaded.
func (r *c38Run) abaPattern() bool {
	k := r.calls
	if k == 0 {
		return false
	}
	start, end := 0, -1
	for i, e := range r.log {
		if e.Kind == "cbstart" && e.K == k-1 {
			start = i
		}
		if e.Kind == "cbread" && e.K == k {
			end = i
		}
	}
	if end < 0 {
		return false
	}
	sawF := false
	for _, e := range r.log[start:end] {
		if e.Kind != "op" {
			continue
		}
		if e.Content == r.cur {
			sawF = true
		} else if sawF {
			return true
		}
	}
	return false
}

// settle waits for (L). Returns false if the script cannot continue.
func (r *c38Run) settle(where string) bool {
	ok := func() (bool, bool) {
		r.mu.Lock()
		defer r.mu.Unlock()
		return r.loaded == r.cur, r.viol != nil
	}
	wait := func(d time.Duration) bool {
		deadline := time.Now().Add(d)
		for {
			good, bad := ok()
			if good || bad {
				return true
			}
			if time.Now().After(deadline) {
				return false
			}
			time.Sleep(3 * time.Millisecond)
		}
	}
	// first a moderate wait, then look whether this is the ABA situation (shorter
	// re-wait: still >= 20x interval+debounce in total), else the long wait
	if wait(1200 * time.Millisecond) {
		_, bad := ok()
		return !bad
	}
	r.mu.Lock()
	aba := r.abaPattern()
	r.mu.Unlock()
	// prove the loop is alive and scheduled
	if !r.alive() {
		r.mu.Lock()
		r.inconclusive = true
		r.mu.Unlock()
		return false
	}
	rewait := 8 * time.Second
	if aba {
		rewait = 1200 * time.Millisecond
	}
	if wait(rewait) {
		_, bad := ok()
		return !bad
	}
	if !r.alive() {
		r.mu.Lock()
		r.inconclusive = true
		r.mu.Unlock()
		return false
	}
	time.Sleep(100 * time.Millisecond)
	r.mu.Lock()
	defer r.mu.Unlock()
	if r.loaded == r.cur || r.viol != nil {
		return r.viol == nil
	}
	f := func(s string) string { return strings.TrimPrefix(s, "\x00") }
	if r.abaPattern() {
		r.fail("eventual:stale-after-aba", "%s: the file has settled at %q but the last reload read %q and no further reload happens: the content changed between the loop's fingerprint and the callback's own read, then changed back\n%s", where, f(r.cur), f(r.loaded), r.dump())
	} else {
		r.fail("eventual:not-delivered", "%s: the file has settled at %q but the last reload (of %d) read %q; waited > 9 s with the loop demonstrably alive\n%s", where, f(r.cur), r.calls, f(r.loaded), r.dump())
	}
	return false
}

type c38Result struct {
	v            *verifkit.Violation
	inconclusive bool
	latencies    []time.Duration
	calls        int
}

var c38DirSeq atomic.Int64

func c38RunScript(sc c38Script, interval time.Duration) (res c38Result) {
	dir := filepath.Join(verifkit.WorkDir(), fmt.Sprintf("c38-%d-%d", os.Getpid(), c38DirSeq.Add(1)))
	if err := os.MkdirAll(dir, 0o700); err != nil {
		panic(err)
	}
	defer os.RemoveAll(dir)
	r := &c38Run{dir: dir, path: filepath.Join(dir, "config.yml"), sc: sc, seqAtRet: []int{0}}
	r.cur = c38Missing
	if sc.Initial != "" {
		if err := os.WriteFile(r.path, []byte(c38Text(sc.Initial)), 0o600); err != nil {
			panic(err)
		}
		r.cur = sc.Initial
	}
	r.loaded = r.cur
	r.evalOK, r.evalX = true, r.cur // the watch fingerprints the file synchronously when it starts
	r.w = c38NewWatcher()

	ctx, cancel := context.WithCancel(context.Background())
	err := watchWithOptions(ctx, r.path, r.callback, watchOptions{
		reconcileInterval: interval,
		newWatcher: func(string) (eventWatcher, error) {
			r.mu.Lock()
			defer r.mu.Unlock()
			r.created++
			if r.created == 1 {
				return r.w, nil
			}
			r.attempts++
			if sc.DieBefore == 0 {
				return nil, errors.New("c38: watcher is never closed by the harness")
			}
			if sc.Reattach < 0 || r.attempts <= sc.Reattach {
				return nil, errors.New("c38: injected: the directory cannot be watched")
			}
			r.w = c38NewWatcher()
			r.wDead = false
			return r.w, nil
		},
	})
	if err != nil {
		cancel()
		return c38Result{v: verifkit.Violationf("setup:watch", "watchWithOptions: %v", err)}
	}
	defer func() {
		cancel()
		r.mu.Lock()
		w, dead := r.w, r.wDead
		r.finished = true
		r.mu.Unlock()
		if !dead {
			select {
			case <-w.closed: // the loop has returned (deferred closeWatcher)
			case <-time.After(20 * time.Second):
				res.inconclusive = true
			}
		}
		// a callback that was already running finishes under r.mu
		r.mu.Lock()
		r.mu.Unlock()
	}()

	type pending struct {
		at int
		op fsnotify.Op
	}
	var delayed []pending
	fsOp := func(op c38Op) fsnotify.Op {
		switch op.Kind {
		case "write":
			return fsnotify.Write
		case "delete":
			return fsnotify.Remove
		}
		return fsnotify.Create
	}
	bad := func() bool {
		r.mu.Lock()
		defer r.mu.Unlock()
		return r.viol != nil || r.inconclusive
	}
	finish := func() c38Result {
		r.mu.Lock()
		defer r.mu.Unlock()
		return c38Result{v: r.viol, inconclusive: r.inconclusive, latencies: append([]time.Duration{}, r.latencies...), calls: r.calls}
	}

	for i, op := range sc.Ops {
		if op.DelayMs > 0 {
			time.Sleep(time.Duration(op.DelayMs) * time.Millisecond)
		}
		if sc.DieBefore == i+1 && !r.kill() {
			r.mu.Lock()
			r.inconclusive = true
			r.mu.Unlock()
			return finish()
		}
		// delayed notifications that are due now
		rest := delayed[:0]
		for _, p := range delayed {
			if p.at <= i {
				if !r.deliver(1, p.op) {
					r.mu.Lock()
					r.inconclusive = true
					r.mu.Unlock()
					return finish()
				}
			} else {
				rest = append(rest, p)
			}
		}
		delayed = rest
		r.mu.Lock()
		r.applyOp(op)
		r.mu.Unlock()
		okSend := true
		switch op.Notify {
		case "deliver":
			okSend = r.deliver(1, fsOp(op))
		case "dup":
			okSend = r.deliver(3, fsOp(op))
		case "storm":
			okSend = r.storm(fsOp(op), i)
		case "delay":
			delayed = append(delayed, pending{at: i + 1 + op.DelayBy, op: fsOp(op)})
		}
		if !okSend {
			r.mu.Lock()
			r.inconclusive = true
			r.mu.Unlock()
			return finish()
		}
		if bad() {
			return finish()
		}
		if op.Settle {
			if !r.settle(fmt.Sprintf("after op %d", i)) {
				return finish()
			}
		}
	}
	if sc.DieBefore > len(sc.Ops) && !r.kill() {
		r.mu.Lock()
		r.inconclusive = true
		r.mu.Unlock()
		return finish()
	}
	if sc.FinalNotify {
		for _, p := range delayed {
			if !r.deliver(1, p.op) {
				r.mu.Lock()
				r.inconclusive = true
				r.mu.Unlock()
				return finish()
			}
		}
	}
	// (L) — in-callback operations may still change the file; settle() always
	// compares with the then-current content.
	if !r.settle("at the end") {
		return finish()
	}
	// quiet period: let a spurious callback show up (missing one is not unsound)
	for {
		r.mu.Lock()
		since := time.Since(r.lastActivity)
		stable := r.loaded == r.cur
		v := r.viol
		r.mu.Unlock()
		if v != nil {
			break
		}
		if !stable {
			if !r.settle("after late in-callback operations") {
				break
			}
			continue
		}
		if since >= 320*time.Millisecond {
			break
		}
		time.Sleep(20 * time.Millisecond)
	}
	return finish()
}

// ---------------------------------------------------------------- batch

var (
	c38StatMu     sync.Mutex
	c38Latencies  []float64
	c38Callbacks  int64
	c38ScriptsRun int64
)

func c38NoteLatencies(interval time.Duration, ls []time.Duration, calls, scripts int) {
	c38StatMu.Lock()
	defer c38StatMu.Unlock()
	for _, l := range ls {
		c38Latencies = append(c38Latencies, float64(l)/float64(time.Millisecond))
	}
	c38Callbacks += int64(calls)
	c38ScriptsRun += int64(scripts)
	s := append([]float64{}, c38Latencies...)
	sort.Float64s(s)
	q := func(p float64) float64 {
		if len(s) == 0 {
			return 0
		}
		return s[int(p*float64(len(s)-1))]
	}
	over := 0
	for _, v := range s {
		if v > 100+25+1 { // production debounce + the largest generated reconcile interval
			over++
		}
	}
	verifkit.Note("C38", "reload", "reload_latency_ms_after_last_change", map[string]any{
		"n": len(s), "p50": q(0.5), "p90": q(0.9), "p99": q(0.99), "max": q(1),
		"over_interval_plus_debounce": over,
		"note":                        "measured, not a verdict: time from the end of the last file operation to the start of the callback that read that content (debounce 100 ms + reconcile interval 5..25 ms)",
	})
	verifkit.Note("C38", "reload", "scripts_run", c38ScriptsRun)
	verifkit.Note("C38", "reload", "callbacks_observed", c38Callbacks)
}

func c38ScriptLabels(sc c38Script) (labels []string, nt bool) {
	dropped, back := false, false
	seen := map[string]bool{}
	cur := sc.Initial
	seen[cur] = true
	after := func(op c38Op) string {
		if op.Kind == "delete" {
			return ""
		}
		return op.Content
	}
	for _, op := range sc.Ops {
		if op.Notify == "drop" {
			dropped = true
		}
		labels = append(labels, "op-"+op.Kind, "notify-"+op.Notify)
		n := after(op)
		if n != cur {
			if seen[n] {
				back = true
			}
			seen[n] = true
			cur = n
		} else {
			labels = append(labels, "same-content-rewrite")
		}
	}
	if len(sc.CbOps) > 0 {
		labels = append(labels, "in-callback-ops")
		dropped = true
	}
	if dropped {
		labels = append(labels, "dropped-notification")
	}
	if back {
		labels = append(labels, "back-to-earlier-content")
	}
	if sc.Initial == "" {
		labels = append(labels, "initially-missing")
	}
	if sc.Shape != "" {
		labels = append(labels, "shape-"+sc.Shape)
	}
	if sc.DieBefore > 0 {
		labels = append(labels, "watcher-dies")
		if sc.Reattach < 0 {
			labels = append(labels, "watcher-never-recreated")
		} else {
			labels = append(labels, "watcher-recreated-later")
		}
		if sc.DieBefore <= len(sc.Ops) {
			labels = append(labels, "change-after-watcher-death")
			return labels, true
		}
	}
	return labels, dropped && back
}

func c38RunCase(c c38Case) verifkit.Result {
	interval := time.Duration(c.IntervalMs) * time.Millisecond
	if interval <= 0 {
		interval = 10 * time.Millisecond
	}
	results := make([]c38Result, len(c.Scripts))
	var wg sync.WaitGroup
	for i := range c.Scripts {
		wg.Add(1)
		go func(i int) {
			defer wg.Done()
			defer func() {
				if p := recover(); p != nil {
					results[i].v = verifkit.Violationf("panic:watch-harness", "script %d: %v", i, p)
				}
			}()
			results[i] = c38RunScript(c.Scripts[i], interval)
		}(i)
	}
	wg.Wait()
	labelSet := map[string]bool{}
	nt := false
	var lat []time.Duration
	calls := 0
	res := verifkit.Result{}
	for i, r := range results {
		ls, n := c38ScriptLabels(c.Scripts[i])
		for _, l := range ls {
			labelSet[l] = true
		}
		nt = nt || n
		lat = append(lat, r.latencies...)
		calls += r.calls
		if r.inconclusive {
			res.Inconclusive = true
		}
	}
	c38NoteLatencies(interval, lat, calls, len(c.Scripts))
	// report the violation of the first failing script; prefer one that is not the
	// ABA finding so that a new root cause is never hidden behind it
	var first *verifkit.Violation
	for i, r := range results {
		if r.v == nil {
			continue
		}
		v := *r.v
		v.Msg = fmt.Sprintf("script %d: %s", i, v.Msg)
		if first == nil || (first.Key == "eventual:stale-after-aba" && v.Key != first.Key) {
			first = &v
		}
	}
	if first != nil {
		return verifkit.Result{V: first}
	}
	for l := range labelSet {
		res.Labels = append(res.Labels, l)
	}
	sort.Strings(res.Labels)
	res.NonTrivial = nt
	return res
}

// ---------------------------------------------------------------- generator

func c38GenOp(t *rapid.T, cur string) c38Op {
	op := c38Op{
		Kind:    rapid.SampledFrom([]string{"write", "write", "replace", "replace", "delete", "recreate"}).Draw(t, "kind"),
		DelayMs: rapid.SampledFrom([]int{0, 0, 0, 1, 3, 8, 15, 40, 90, 105, 130}).Draw(t, "delay"),
		Notify:  rapid.SampledFrom([]string{"deliver", "drop", "drop", "dup", "delay", "deliver", "drop", "drop", "dup", "delay", "storm"}).Draw(t, "notify"),
	}
	if op.Kind != "delete" {
		op.Content = rapid.SampledFrom([]string{"a", "b", "c"}).Draw(t, "content")
	}
	if op.Notify == "delay" {
		op.DelayBy = rapid.IntRange(0, 2).Draw(t, "delayBy")
	}
	return op
}

func c38GenScript(t *rapid.T) c38Script {
	sc := c38Script{Initial: rapid.SampledFrom([]string{"a", "a", "b", ""}).Draw(t, "initial")}
	sc.Reject = rapid.SampledFrom([]string{"", "", "c", "b"}).Draw(t, "reject")
	sc.FinalNotify = rapid.Bool().Draw(t, "finalNotify")
	other := func(x string) string {
		switch x {
		case "a":
			return "b"
		case "b":
			return "c"
		}
		return "a"
	}
	sc.Shape = rapid.SampledFrom([]string{"random", "random", "random", "random", "back-and-forth", "back-and-forth", "burst", "phases", "aba-in-callback", "change-during-callback"}).Draw(t, "shape")
	if sc.Shape == "aba-in-callback" && rapid.IntRange(0, 3).Draw(t, "abaThin") != 0 {
		sc.Shape = "back-and-forth" // keep the (slow to adjudicate) ABA shape rare
	}
	switch sc.Shape {
	case "back-and-forth":
		// X -> Y -> X inside one debounce window, first change seen by the loop
		x := sc.Initial
		if x == "" {
			x = "a"
			sc.Initial = "a"
		}
		y := other(x)
		n1 := rapid.SampledFrom([]string{"deliver", "deliver", "dup", "drop"}).Draw(t, "n1")
		n2 := rapid.SampledFrom([]string{"deliver", "deliver", "drop", "delay"}).Draw(t, "n2")
		gap := rapid.SampledFrom([]int{0, 0, 1, 5, 20, 60}).Draw(t, "gap")
		kind := rapid.SampledFrom([]string{"write", "replace", "recreate"}).Draw(t, "kind")
		sc.Ops = []c38Op{{Kind: kind, Content: y, Notify: n1}, {Kind: kind, Content: x, Notify: n2, DelayMs: gap}}
		if rapid.Bool().Draw(t, "prefix") {
			sc.Ops = append([]c38Op{{Kind: "write", Content: x, Notify: "drop", Settle: false}}, sc.Ops...)
		}
		if rapid.Bool().Draw(t, "thenChange") {
			sc.Ops = append(sc.Ops, c38Op{Kind: "write", Content: other(y), Notify: "drop", DelayMs: rapid.SampledFrom([]int{0, 150, 300}).Draw(t, "tail")})
		}
	case "burst":
		n := rapid.IntRange(3, 8).Draw(t, "n")
		for i := 0; i < n; i++ {
			op := c38GenOp(t, "")
			op.DelayMs = rapid.SampledFrom([]int{0, 0, 1, 2, 5}).Draw(t, "burstDelay")
			if rapid.IntRange(0, 2).Draw(t, "burstDrop") != 0 {
				op.Notify = "drop"
			}
			sc.Ops = append(sc.Ops, op)
		}
	case "phases":
		// change, settle, change back, settle: each settled change needs its own reload
		n := rapid.IntRange(2, 4).Draw(t, "n")
		cur := sc.Initial
		for i := 0; i < n; i++ {
			op := c38GenOp(t, cur)
			if op.Kind == "delete" && cur == "" {
				op.Kind, op.Content = "write", "a"
			}
			if op.Kind != "delete" && op.Content == cur {
				op.Content = other(cur)
			}
			op.DelayMs = 0
			op.Settle = true
			if op.Kind == "delete" {
				cur = ""
			} else {
				cur = op.Content
			}
			sc.Ops = append(sc.Ops, op)
		}
	case "aba-in-callback":
		x := other(sc.Initial)
		sc.Ops = []c38Op{{Kind: "write", Content: x, Notify: rapid.SampledFrom([]string{"deliver", "drop"}).Draw(t, "n1")}}
		sc.CbOps = []c38CbOp{
			{K: 1, Pos: "pre", Op: c38Op{Kind: rapid.SampledFrom([]string{"write", "replace"}).Draw(t, "k1"), Content: other(x)}},
			{K: 1, Pos: "post", Op: c38Op{Kind: rapid.SampledFrom([]string{"write", "replace"}).Draw(t, "k2"), Content: x}},
		}
		sc.FinalNotify = false
	case "change-during-callback":
		x := other(sc.Initial)
		sc.Ops = []c38Op{{Kind: "write", Content: x, Notify: rapid.SampledFrom([]string{"deliver", "drop"}).Draw(t, "n1")}}
		sc.CbOps = []c38CbOp{{K: rapid.IntRange(1, 2).Draw(t, "k"), Pos: rapid.SampledFrom([]string{"pre", "post"}).Draw(t, "pos"),
			Op: c38Op{Kind: rapid.SampledFrom([]string{"write", "replace", "delete"}).Draw(t, "k1"), Content: other(x)}}}
		if sc.CbOps[0].Op.Kind == "delete" {
			sc.CbOps[0].Op.Content = ""
		}
	default:
		n := rapid.IntRange(1, 7).Draw(t, "n")
		for i := 0; i < n; i++ {
			op := c38GenOp(t, "")
			op.Settle = rapid.IntRange(0, 9).Draw(t, "settle") == 0
			sc.Ops = append(sc.Ops, op)
		}
		if rapid.IntRange(0, 4).Draw(t, "withCbOp") == 0 {
			op := c38GenOp(t, "")
			op.DelayMs, op.Notify = 0, ""
			sc.CbOps = append(sc.CbOps, c38CbOp{K: rapid.IntRange(1, 3).Draw(t, "cbK"), Pos: rapid.SampledFrom([]string{"pre", "post"}).Draw(t, "cbPos"), Op: op})
		}
	}
	if rapid.IntRange(0, 3).Draw(t, "watcherDies") == 0 {
		sc.DieBefore = rapid.IntRange(1, len(sc.Ops)+1).Draw(t, "dieBefore")
		sc.Reattach = rapid.SampledFrom([]int{-1, -1, 0, 1, 3}).Draw(t, "reattach")
	}
	return sc
}

func c38GenCase(t *rapid.T) c38Case {
	c := c38Case{IntervalMs: rapid.SampledFrom([]int{5, 10, 10, 25}).Draw(t, "interval")}
	// mostly full batches; listed smallest first so that shrinking drops scripts
	sizes := []int{1, 2, 3, 4, 5, 6, 6, 6, 6, 6, 6, 6, 6, 6, 6}
	if verifkit.Thorough() {
		sizes = []int{1, 2, 4, 6, 8, 8, 8, 8, 8, 8, 8, 8, 8, 8}
	}
	n := rapid.SampledFrom(sizes).Draw(t, "scripts")
	for i := 0; i < n; i++ {
		c.Scripts = append(c.Scripts, c38GenScript(t))
	}
	return c
}

const c38Rule = "batches of up to 6 (thorough 8) scripts run in parallel, each against its own real file and watch loop (fake eventWatcher, reconcile interval 5/10/25 ms, production debounce 100 ms): 1..8 operations {write, atomic replace, delete, recreate} over contents {a,b,c,missing} anchored to delays 0..130 ms or to 'inside callback k before/after it reads the file', each notification delivered / dropped / triplicated / delayed by 0..2 steps / followed by a >= 1.2 s stream of duplicates 30 ms apart (the reload must not wait for the stream to end); in a quarter of the scripts the fs watcher fails before some operation (all later notifications are lost) and creating a new one fails 0/1/3 times or for good; shapes: random, X->Y->X inside a debounce window, bursts, settle-per-change phases, change during the callback, ABA around the callback's read. Oracles: eventual delivery after generous wait + liveness proof + re-wait; callback with the file untouched; callback for provably already evaluated content (order-only knowledge from delivered notification + marker event); no overlapping callbacks. Latency is measured, never judged. non-trivial = batch contains a script with >=1 dropped notification and a change back to an earlier content"

func TestVerif_C38(t *testing.T) {
	verifkit.Check(t, "C38", "reload", c38Rule, c38GenCase, c38RunCase)
}
