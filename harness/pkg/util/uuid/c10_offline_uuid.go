//go:build verif

package uuid

import (
	"encoding/binary"
	"fmt"
	"math"
	"strings"
	"testing"
	"unicode/utf8"

	"go.minekube.com/gate/pkg/internal/verifkit"
	"pgregory.net/rapid"
)

// C10 (part 1): OfflinePlayerUUID(name) == vanilla's
// UUID.nameUUIDFromBytes(("OfflinePlayer:" + name).getBytes(UTF_8)).
//
// The reference is self-contained: MD5 is written here from RFC 1321 (it does
// not use crypto/md5, which the code under test uses) and the name-based UUID
// construction follows java.util.UUID.nameUUIDFromBytes / RFC 4122 section 4.3:
//
//	md5Bytes[6] &= 0x0f; md5Bytes[6] |= 0x30;   // version 3
//	md5Bytes[8] &= 0x3f; md5Bytes[8] |= 0x80;   // IETF variant

var c10MD5Shift = [64]uint{
	7, 12, 17, 22, 7, 12, 17, 22, 7, 12, 17, 22, 7, 12, 17, 22,
	5, 9, 14, 20, 5, 9, 14, 20, 5, 9, 14, 20, 5, 9, 14, 20,
	4, 11, 16, 23, 4, 11, 16, 23, 4, 11, 16, 23, 4, 11, 16, 23,
	6, 10, 15, 21, 6, 10, 15, 21, 6, 10, 15, 21, 6, 10, 15, 21,
}

// c10MD5 implements RFC 1321. K[i] = floor(2^32 * |sin(i+1)|).
func c10MD5(msg []byte) [16]byte {
	var k [64]uint32
	for i := range k {
		k[i] = uint32(math.Floor(math.Abs(math.Sin(float64(i+1))) * 4294967296.0))
	}
	a0, b0, c0, d0 := uint32(0x67452301), uint32(0xefcdab89), uint32(0x98badcfe), uint32(0x10325476)

	padded := append([]byte{}, msg...)
	padded = append(padded, 0x80)
	for len(padded)%64 != 56 {
		padded = append(padded, 0)
	}
	padded = binary.LittleEndian.AppendUint64(padded, uint64(len(msg))*8)

	for off := 0; off < len(padded); off += 64 {
		var m [16]uint32
		for i := range m {
			m[i] = binary.LittleEndian.Uint32(padded[off+4*i:])
		}
		a, b, c, d := a0, b0, c0, d0
		for i := 0; i < 64; i++ {
			var f uint32
			var g int
			switch {
			case i < 16:
				f = (b & c) | (^b & d)
				g = i
			case i < 32:
				f = (d & b) | (^d & c)
				g = (5*i + 1) % 16
			case i < 48:
				f = b ^ c ^ d
				g = (3*i + 5) % 16
			default:
				f = c ^ (b | ^d)
				g = (7 * i) % 16
			}
			f = f + a + k[i] + m[g]
			a, d, c = d, c, b
			s := c10MD5Shift[i]
			b = b + (f<<s | f>>(32-s))
		}
		a0, b0, c0, d0 = a0+a, b0+b, c0+c, d0+d
	}
	var out [16]byte
	binary.LittleEndian.PutUint32(out[0:], a0)
	binary.LittleEndian.PutUint32(out[4:], b0)
	binary.LittleEndian.PutUint32(out[8:], c0)
	binary.LittleEndian.PutUint32(out[12:], d0)
	return out
}

// c10SelfTest pins the reference MD5 to the RFC 1321 appendix A.5 test suite.
func c10SelfTest() error {
	vectors := map[string]string{
		"":                           "d41d8cd98f00b204e9800998ecf8427e",
		"a":                          "0cc175b9c0f1b6a831c399e269772661",
		"abc":                        "900150983cd24fb0d6963f7d28e17f72",
		"message digest":             "f96b697d7cb7938d525a2f31aaf161d0",
		"abcdefghijklmnopqrstuvwxyz": "c3fcd3d76192e4007dfb496cca67e13b",
		"ABCDEFGHIJKLMNOPQRSTUVWXYZabcdefghijklmnopqrstuvwxyz0123456789":                   "d174ab98d277d9f5a5611c2c9f419d9f",
		"12345678901234567890123456789012345678901234567890123456789012345678901234567890": "57edf4a22be3c955ac49da2e2107b67a",
	}
	for in, want := range vectors {
		if got := fmt.Sprintf("%x", c10MD5([]byte(in))); got != want {
			return fmt.Errorf("reference MD5(%q) = %s, RFC 1321 says %s", in, got, want)
		}
	}
	return nil
}

func c10RefOfflineUUID(name string) [16]byte {
	sum := c10MD5([]byte("OfflinePlayer:" + name))
	sum[6] &= 0x0f
	sum[6] |= 0x30
	sum[8] &= 0x3f
	sum[8] |= 0x80
	return sum
}

// c10JavaString renders like java.util.UUID.toString().
func c10JavaString(u [16]byte) string {
	const hexd = "0123456789abcdef"
	var sb strings.Builder
	for i, b := range u {
		if i == 4 || i == 6 || i == 8 || i == 10 {
			sb.WriteByte('-')
		}
		sb.WriteByte(hexd[b>>4])
		sb.WriteByte(hexd[b&15])
	}
	return sb.String()
}

type c10UUIDCase struct {
	Name []byte `json:"name"` // bytes so that any string (also invalid UTF-8) survives JSON
}

func c10ValidUsername(s string) bool {
	if len(s) < 2 || len(s) > 16 {
		return false
	}
	for i := 0; i < len(s); i++ {
		b := s[i]
		if !('A' <= b && b <= 'Z' || 'a' <= b && b <= 'z' || '0' <= b && b <= '9' || b == '_') {
			return false
		}
	}
	return true
}

func c10UUIDRun(c c10UUIDCase) verifkit.Result {
	name := string(c.Name)
	got := OfflinePlayerUUID(name)
	want := c10RefOfflineUUID(name)
	var labels []string
	nt := false
	if c10ValidUsername(name) {
		labels = append(labels, "valid-username")
		nt = true
	}
	total := len("OfflinePlayer:") + len(name)
	switch {
	case total >= 64:
		labels = append(labels, "md5-multi-block")
		nt = true
	case total >= 56:
		labels = append(labels, "md5-padding-spills")
		nt = true
	}
	if !utf8.ValidString(name) {
		labels = append(labels, "invalid-utf8")
	} else if len(name) != utf8.RuneCountInString(name) {
		labels = append(labels, "non-ascii")
		nt = true
	}
	if len(name) == 0 {
		labels = append(labels, "empty")
	}
	if [16]byte(got) != want {
		return verifkit.Fail("uuid:OfflinePlayerUUID", "OfflinePlayerUUID(%q) = %s, vanilla nameUUIDFromBytes gives %s", name, c10JavaString(got), c10JavaString(want))
	}
	if got[6]>>4 != 3 || got[8]&0xc0 != 0x80 {
		return verifkit.Fail("uuid:version-variant", "OfflinePlayerUUID(%q) = %s is not version 3 / RFC 4122 variant", name, c10JavaString(got))
	}
	if s := got.String(); s != c10JavaString(want) {
		return verifkit.Fail("uuid:String", "String() = %q want %q", s, c10JavaString(want))
	}
	if s := got.Undashed(); s != strings.ReplaceAll(c10JavaString(want), "-", "") {
		return verifkit.Fail("uuid:Undashed", "Undashed() = %q for %s", s, c10JavaString(want))
	}
	return verifkit.Result{NonTrivial: nt, Labels: labels}
}

var c10NameAlphabet = []byte("ABCDEFGHIJKLMNOPQRSTUVWXYZabcdefghijklmnopqrstuvwxyz0123456789_")

func c10GenUUIDName(t *rapid.T) []byte {
	switch rapid.IntRange(0, 6).Draw(t, "kind") {
	case 0, 1: // real usernames
		n := rapid.IntRange(2, 16).Draw(t, "n")
		return rapid.SliceOfN(rapid.SampledFrom(c10NameAlphabet), n, n).Draw(t, "valid")
	case 2: // well-known names
		return []byte(rapid.SampledFrom([]string{"Notch", "jeb_", "Dinnerbone", "Steve", "Alex", "a", "", "__", "0123456789abcdef"}).Draw(t, "known"))
	case 3: // lengths around the MD5 block boundaries (14 bytes of prefix)
		n := rapid.SampledFrom([]int{40, 41, 42, 43, 49, 50, 51, 105, 106, 113, 114, 115, 200}).Draw(t, "blen")
		return rapid.SliceOfN(rapid.SampledFrom(c10NameAlphabet), n, n).Draw(t, "long")
	case 4: // unicode
		return []byte(rapid.StringN(0, 20, 80).Draw(t, "unicode"))
	case 5: // case / homoglyph variants (must give different UUIDs from their ASCII look-alikes: byte-exact hashing)
		return []byte(rapid.SampledFrom([]string{"notch", "NOTCH", "Ｎotch", "Notch ", " Notch", "Notch\n", "Notch\x00", "Nоtch"}).Draw(t, "variant"))
	default: // arbitrary bytes
		return rapid.SliceOfN(rapid.Byte(), 0, 70).Draw(t, "bytes")
	}
}

func TestVerif_C10(t *testing.T) {
	if err := c10SelfTest(); err != nil {
		t.Fatalf("harness self-test: %v", err)
	}
	verifkit.Check(t, "C10", "uuid",
		"names: valid usernames (2..16 of [A-Za-z0-9_]), well-known names, lengths around the MD5 block boundaries (prefix 14 bytes: 42/50/114), Unicode strings, look-alike variants, arbitrary bytes 0..70; OfflinePlayerUUID compared with an RFC 1321 MD5 written in the harness + java.util.UUID.nameUUIDFromBytes bit masks, plus String()/Undashed() rendering; non-trivial = valid username, non-ASCII name, or input that crosses an MD5 padding/block boundary",
		func(t *rapid.T) c10UUIDCase {
			b := c10GenUUIDName(t)
			if b == nil {
				b = []byte{}
			}
			return c10UUIDCase{Name: b}
		}, c10UUIDRun)
}
