//go:build verif

package netutil

import (
	"fmt"
	"net"
	"strconv"
	"strings"
	"testing"

	"go.minekube.com/gate/pkg/internal/verifkit"
	"pgregory.net/rapid"
)

// C33 (netutil part).
//
// Sub-check "parse": ParseTrustedNetworks accepts exactly the strings that are a
// valid IP address or CIDR block and not an IPv4-mapped IPv6 form. The reference
// is a hand-written strict parser (c33RefParseEntry) for dotted-quad IPv4 and RFC
// 4291 IPv6 text, independent of net/netip. Spellings on which IP parsers
// legitimately differ (leading zeros in octets or prefix length, scoped plain
// addresses) are classified "ambiguous" and not judged.
//
// Sub-check "contains": for a list of valid entries and a generated peer
// net.Addr, Contains == reference membership (IPv4-mapped peers unmapped, zone
// ignored, families disjoint, first `bits` bits equal); non-IP peers never.

// ---- reference parser ---------------------------------------------------------------

type c33RefNet struct {
	ip   []byte // 4 or 16 bytes
	bits int
}

type c33Verdict int

const (
	c33Invalid c33Verdict = iota
	c33Valid
	c33Ambiguous
)

func c33RefParseV4(s string) (ip []byte, v c33Verdict) {
	parts := strings.Split(s, ".")
	if len(parts) != 4 {
		return nil, c33Invalid
	}
	amb := false
	for _, p := range parts {
		if len(p) == 0 || len(p) > 3 {
			if len(p) > 3 && c33AllDigits(p) {
				// e.g. 0001: leading zeros, or a number > 255 -> decide below
				n, err := strconv.Atoi(p)
				if err != nil || n > 255 {
					return nil, c33Invalid
				}
				amb = true
				ip = append(ip, byte(n))
				continue
			}
			return nil, c33Invalid
		}
		if !c33AllDigits(p) {
			return nil, c33Invalid
		}
		n, _ := strconv.Atoi(p)
		if n > 255 {
			return nil, c33Invalid
		}
		if len(p) > 1 && p[0] == '0' {
			amb = true
		}
		ip = append(ip, byte(n))
	}
	if amb {
		return ip, c33Ambiguous
	}
	return ip, c33Valid
}

func c33AllDigits(s string) bool {
	if s == "" {
		return false
	}
	for i := 0; i < len(s); i++ {
		if s[i] < '0' || s[i] > '9' {
			return false
		}
	}
	return true
}

func c33IsHexGroup(s string) bool {
	if len(s) < 1 || len(s) > 4 {
		return false
	}
	for i := 0; i < len(s); i++ {
		c := s[i]
		if !(c >= '0' && c <= '9' || c >= 'a' && c <= 'f' || c >= 'A' && c <= 'F') {
			return false
		}
	}
	return true
}

// c33RefGroups parses a colon separated list of 16-bit groups; the last element
// may be a dotted quad when allowV4 is set.
func c33RefGroups(s string, allowV4 bool) (out []byte, v c33Verdict) {
	if s == "" {
		return nil, c33Valid
	}
	v = c33Valid
	parts := strings.Split(s, ":")
	for i, p := range parts {
		if allowV4 && i == len(parts)-1 && strings.Contains(p, ".") {
			ip4, v4 := c33RefParseV4(p)
			if v4 == c33Invalid {
				return nil, c33Invalid
			}
			if v4 == c33Ambiguous {
				v = c33Ambiguous
			}
			out = append(out, ip4...)
			continue
		}
		if !c33IsHexGroup(p) {
			return nil, c33Invalid
		}
		n, _ := strconv.ParseUint(p, 16, 16)
		out = append(out, byte(n>>8), byte(n))
	}
	return out, v
}

func c33RefParseV6(s string) (ip []byte, v c33Verdict) {
	if strings.Count(s, "::") > 1 || strings.Contains(s, ":::") {
		return nil, c33Invalid
	}
	if i := strings.Index(s, "::"); i >= 0 {
		left, lv := c33RefGroups(s[:i], false)
		right, rv := c33RefGroups(s[i+2:], true)
		if lv == c33Invalid || rv == c33Invalid {
			return nil, c33Invalid
		}
		if len(left)+len(right) > 14 { // "::" stands for at least one group
			return nil, c33Invalid
		}
		ip = make([]byte, 16)
		copy(ip, left)
		copy(ip[16-len(right):], right)
		if lv == c33Ambiguous || rv == c33Ambiguous {
			return ip, c33Ambiguous
		}
		return ip, c33Valid
	}
	all, av := c33RefGroups(s, true)
	if av == c33Invalid || len(all) != 16 {
		return nil, c33Invalid
	}
	return all, av
}

// c33RefParseAddr parses an IP literal with optional %zone.
func c33RefParseAddr(s string) (ip []byte, zone string, v c33Verdict) {
	if i := strings.IndexByte(s, '%'); i >= 0 {
		zone = s[i+1:]
		s = s[:i]
		if zone == "" || !strings.Contains(s, ":") {
			return nil, "", c33Invalid
		}
	}
	if strings.Contains(s, ":") {
		ip, v = c33RefParseV6(s)
		return ip, zone, v
	}
	ip, v = c33RefParseV4(s)
	return ip, zone, v
}

func c33IsMapped(ip []byte) bool {
	if len(ip) != 16 {
		return false
	}
	for i := 0; i < 10; i++ {
		if ip[i] != 0 {
			return false
		}
	}
	return ip[10] == 0xff && ip[11] == 0xff
}

// c33RefParseEntry is the reference for one trusted-list entry.
func c33RefParseEntry(raw string) (n c33RefNet, v c33Verdict, class string) {
	s := strings.Trim(raw, " \t\r\n")
	if s != raw {
		class = "padded,"
	}
	if i := strings.LastIndexByte(s, '/'); i >= 0 {
		addr, bitsStr := s[:i], s[i+1:]
		ip, zone, av := c33RefParseAddr(addr)
		if av == c33Invalid {
			return n, c33Invalid, class + "cidr-bad-addr"
		}
		if zone != "" {
			return n, c33Invalid, class + "cidr-zoned"
		}
		if !c33AllDigits(bitsStr) || len(bitsStr) > 3 {
			return n, c33Invalid, class + "cidr-bad-bits"
		}
		bits, _ := strconv.Atoi(bitsStr)
		if bits > 8*len(ip) {
			return n, c33Invalid, class + "cidr-bits-too-large"
		}
		if c33IsMapped(ip) {
			return n, c33Invalid, class + "cidr-mapped"
		}
		if av == c33Ambiguous || (len(bitsStr) > 1 && bitsStr[0] == '0') {
			return n, c33Ambiguous, class + "cidr-ambiguous"
		}
		return c33RefNet{ip: ip, bits: bits}, c33Valid, class + fmt.Sprintf("cidr-v%d", c33Fam(ip))
	}
	ip, zone, av := c33RefParseAddr(s)
	if av == c33Invalid {
		return n, c33Invalid, class + "addr-bad"
	}
	if c33IsMapped(ip) {
		return n, c33Invalid, class + "addr-mapped"
	}
	if av == c33Ambiguous || zone != "" {
		return n, c33Ambiguous, class + "addr-ambiguous"
	}
	return c33RefNet{ip: ip, bits: 8 * len(ip)}, c33Valid, class + fmt.Sprintf("addr-v%d", c33Fam(ip))
}

func c33Fam(ip []byte) int {
	if len(ip) == 4 {
		return 4
	}
	return 6
}

// c33RefMember: ip is 4 or 16 bytes (already unmapped).
func c33RefMember(nets []c33RefNet, ip []byte) (member bool, nearBoundary bool) {
	for _, n := range nets {
		if len(n.ip) != len(ip) {
			continue
		}
		firstDiff := -1
		for b := 0; b < 8*len(ip); b++ {
			if (n.ip[b/8]^ip[b/8])&(0x80>>(b%8)) != 0 {
				firstDiff = b
				break
			}
		}
		if firstDiff == -1 || firstDiff >= n.bits {
			member = true
		}
		if firstDiff == n.bits-1 || firstDiff == n.bits {
			nearBoundary = true
		}
	}
	return
}

// ---- text rendering of generated addresses -------------------------------------

func c33RenderV4(ip []byte) string {
	return fmt.Sprintf("%d.%d.%d.%d", ip[0], ip[1], ip[2], ip[3])
}

// c33RenderV6 renders 16 bytes; form selects full / compressed / upper-case /
// dotted-tail spelling.
func c33RenderV6(ip []byte, form int) string {
	groups := make([]string, 8)
	for i := 0; i < 8; i++ {
		groups[i] = strconv.FormatUint(uint64(ip[2*i])<<8|uint64(ip[2*i+1]), 16)
	}
	dotted := form&4 != 0
	if form&2 != 0 {
		for i := range groups {
			groups[i] = strings.ToUpper(groups[i])
		}
	}
	tail := ""
	n := 8
	if dotted {
		tail = c33RenderV4(ip[12:])
		n = 6
	}
	if form&1 != 0 {
		// compress the first longest run of zero groups (length >= 1)
		best, bestLen := -1, 0
		for i := 0; i < n; {
			if groups[i] != "0" {
				i++
				continue
			}
			j := i
			for j < n && groups[j] == "0" {
				j++
			}
			if j-i > bestLen {
				best, bestLen = i, j-i
			}
			i = j
		}
		if best >= 0 {
			left := strings.Join(groups[:best], ":")
			rightParts := append([]string{}, groups[best+bestLen:n]...)
			if dotted {
				rightParts = append(rightParts, tail)
			}
			return left + "::" + strings.Join(rightParts, ":")
		}
	}
	parts := append([]string{}, groups[:n]...)
	if dotted {
		parts = append(parts, tail)
	}
	return strings.Join(parts, ":")
}

func c33RenderIP(ip []byte, form int) string {
	if len(ip) == 4 {
		return c33RenderV4(ip)
	}
	return c33RenderV6(ip, form)
}

// ---- generators -------------------------------------------------------------------

func c33GenIP(t *rapid.T, label string) []byte {
	kind := rapid.SampledFrom([]string{"v4", "v4", "v6", "v6", "v6-sparse"}).Draw(t, label+"Kind")
	switch kind {
	case "v4":
		return rapid.OneOf(
			rapid.SliceOfN(rapid.Byte(), 4, 4),
			rapid.SampledFrom([][]byte{{127, 0, 0, 1}, {10, 0, 0, 0}, {192, 168, 1, 10}, {0, 0, 0, 0}, {255, 255, 255, 255}, {172, 16, 0, 0}}),
		).Draw(t, label)
	case "v6":
		return rapid.OneOf(
			rapid.SliceOfN(rapid.Byte(), 16, 16),
			rapid.SampledFrom([][]byte{
				{0, 0, 0, 0, 0, 0, 0, 0, 0, 0, 0, 0, 0, 0, 0, 1},
				{0, 0, 0, 0, 0, 0, 0, 0, 0, 0, 0, 0, 0, 0, 0, 0},
				{0xfe, 0x80, 0, 0, 0, 0, 0, 0, 0, 0, 0, 0, 0, 0, 0, 1},
				{0xfd, 0xaa, 0, 0, 0, 1, 0, 0, 0, 0, 0, 0, 0, 0, 0, 3},
				{0x20, 0x01, 0x0d, 0xb8, 0, 0, 0, 0, 0, 0, 0, 0, 0, 0, 0, 1},
			}),
		).Draw(t, label)
	default:
		ip := make([]byte, 16)
		for i, n := 0, rapid.IntRange(0, 4).Draw(t, label+"N"); i < n; i++ {
			ip[rapid.IntRange(0, 15).Draw(t, label+"Pos")] = rapid.Byte().Draw(t, label+"Val")
		}
		if c33IsMapped(ip) {
			ip[0] = 0x20
		}
		return ip
	}
}

// c33GenValidEntry draws a valid entry text.
func c33GenValidEntry(t *rapid.T) string {
	ip := c33GenIP(t, "entryIP")
	if c33IsMapped(ip) {
		ip[10] = 0xfe
	}
	form := rapid.IntRange(0, 3).Draw(t, "form")
	if len(ip) == 16 && !c33IsMapped(ip) && ip[10] != 0xff && rapid.IntRange(0, 5).Draw(t, "dotted") == 0 {
		form |= 4
	}
	s := c33RenderIP(ip, form)
	if rapid.Bool().Draw(t, "cidr") {
		maxBits := 8 * len(ip)
		bits := rapid.OneOf(
			rapid.SampledFrom([]int{0, 1, 7, 8, 9, 12, 16, 24, 31, 32}),
			rapid.IntRange(0, maxBits),
			rapid.Just(maxBits), rapid.Just(maxBits-1), rapid.Just(64), rapid.Just(10),
		).Draw(t, "bits")
		if bits > maxBits {
			bits = maxBits
		}
		s += "/" + strconv.Itoa(bits)
	}
	switch rapid.IntRange(0, 7).Draw(t, "pad") {
	case 0:
		s = " " + s
	case 1:
		s = s + " "
	case 2:
		s = "\t" + s + "  "
	}
	return s
}

func c33GenInvalidEntry(t *rapid.T) string {
	ip4 := rapid.SliceOfN(rapid.Byte(), 4, 4).Draw(t, "m4")
	mappedDotted := "::ffff:" + c33RenderV4(ip4)
	mappedHex := fmt.Sprintf("::ffff:%x:%x", uint(ip4[0])<<8|uint(ip4[1]), uint(ip4[2])<<8|uint(ip4[3]))
	mappedFull := "0:0:0:0:0:ffff:" + c33RenderV4(ip4)
	mappedUpper := "::FFFF:" + c33RenderV4(ip4)
	v4 := c33RenderV4(ip4)
	return rapid.OneOf(
		rapid.SampledFrom([]string{
			mappedDotted, mappedHex, mappedFull, mappedUpper,
			mappedDotted + "/128", mappedDotted + "/104", mappedHex + "/96", mappedDotted + "/0", " " + mappedDotted + " ",
		}),
		rapid.SampledFrom([]string{
			"", " ", "not-an-ip", "localhost", "example.com", "*", "all", "any",
			v4 + "/33", v4 + "/", v4 + "/-1", v4 + "/+8", v4 + "/8/8", v4 + "//8", v4 + "/a", v4 + "/1000", v4 + "/ 8", v4 + " /8",
			v4 + ":25565", "[" + v4 + "]", v4 + ".", "." + v4, v4 + ".1", "1.2.3", "256.1.1.1", "1.2.3.256", "1.2.3.-1", "1..2.3", "1.2.3.4e", "0x7f.0.0.1",
			"::1/129", "::/200", "fe80::/10%eth0", "fe80::1%eth0/64", "fe80::%/10",
			"[::1]", "[::1]:25565", "::1:", ":::", "1::2::3", "1:2:3:4:5:6:7", "1:2:3:4:5:6:7:8:9", "1:2:3:4:5:6:7::8", "12345::", "g::1", "::1.2.3", "::1.2.3.4.5", "1:2:3:4:5:6:7:1.2.3.4", ":1", "1:",
			"10.0.0.0/8,192.168.0.0/16", "10.0.0.0/8 192.168.0.0/16", "10.0.0.0-10.0.0.255", "10.0.0.*",
		}),
		rapid.StringMatching(`[a-z0-9:./ %-]{0,12}`),
	).Draw(t, "invalid")
}

// ---- sub-check "parse" ------------------------------------------------------------

type c33ParseCase struct {
	Entries []string `json:"entries"`
}

func c33ParseRun(c c33ParseCase) verifkit.Result {
	labels := []string{}
	wantOK := true
	ambiguous := false
	var nets []c33RefNet
	for _, e := range c.Entries {
		n, v, class := c33RefParseEntry(e)
		labels = append(labels, strings.Split(class, ",")...)
		switch v {
		case c33Invalid:
			wantOK = false
		case c33Ambiguous:
			ambiguous = true
		default:
			nets = append(nets, n)
		}
	}
	got, err := ParseTrustedNetworks(c.Entries)
	switch {
	case !wantOK && err == nil:
		return verifkit.Fail("parse:accepted-invalid", "ParseTrustedNetworks(%q) accepted a list containing an invalid or IPv4-mapped entry: %v", c.Entries, got)
	case wantOK && !ambiguous && err != nil:
		return verifkit.Fail("parse:rejected-valid", "ParseTrustedNetworks(%q) rejected a list of valid IPs/CIDRs: %v", c.Entries, err)
	}
	if ambiguous {
		labels = append(labels, "not-judged(ambiguous)")
	}
	if err == nil && !ambiguous {
		if len(got) != len(nets) {
			return verifkit.Fail("parse:length", "ParseTrustedNetworks(%q) returned %d networks for %d entries", c.Entries, len(got), len(nets))
		}
		// the parsed networks mean what the text says: same family, bits, and masked address
		for i, p := range got {
			want := nets[i]
			a := p.Addr().AsSlice()
			if len(a) != len(want.ip) || p.Bits() != want.bits {
				return verifkit.Fail("parse:meaning", "entry %q parsed as %v, reference %v/%d", c.Entries[i], p, net.IP(want.ip), want.bits)
			}
			for b := 0; b < 8*len(a); b++ {
				gb := a[b/8] & (0x80 >> (b % 8))
				wb := want.ip[b/8] & (0x80 >> (b % 8))
				if b >= want.bits {
					wb = 0
				}
				if gb != wb {
					return verifkit.Fail("parse:meaning", "entry %q parsed as %v, reference %v/%d (masked)", c.Entries[i], p, net.IP(want.ip), want.bits)
				}
			}
		}
	}
	labels = c33Uniq(append(labels, fmt.Sprintf("accepted=%v", err == nil)))
	return verifkit.Result{NonTrivial: len(c.Entries) > 0, Labels: labels}
}

func c33Uniq(in []string) []string {
	seen := map[string]bool{}
	var out []string
	for _, s := range in {
		if s != "" && !seen[s] {
			seen[s] = true
			out = append(out, s)
		}
	}
	return out
}

// ---- sub-check "contains" -----------------------------------------------------------

type c33Peer struct {
	// Kind: "tcp" (*net.TCPAddr), "str" (netutil.NewAddr of Text), "unix", "pipe", "nil".
	Kind string `json:"kind"`
	IP   []byte `json:"ip,omitempty"`
	Zone string `json:"zone,omitempty"`
	Port int    `json:"port,omitempty"`
	Text string `json:"text,omitempty"`
}

func (p c33Peer) c33Addr() net.Addr {
	switch p.Kind {
	case "tcp":
		return &net.TCPAddr{IP: net.IP(p.IP), Port: p.Port, Zone: p.Zone}
	case "str":
		return NewAddr(p.Text, "tcp")
	case "unix":
		return &net.UnixAddr{Name: p.Text, Net: "unix"}
	case "pipe":
		a, b := net.Pipe()
		defer a.Close()
		defer b.Close()
		return a.RemoteAddr()
	}
	return nil
}

// c33RefIP returns the normalised (unmapped) IP of the peer, or nil for non-IP peers.
func (p c33Peer) c33RefIP() (ip []byte, mapped bool) {
	if p.Kind != "tcp" && p.Kind != "str" {
		return nil, false
	}
	if len(p.IP) != 4 && len(p.IP) != 16 {
		return nil, false
	}
	if c33IsMapped(p.IP) {
		return p.IP[12:], true
	}
	return p.IP, false
}

type c33ContainsCase struct {
	Entries []string `json:"entries"`
	Peer    c33Peer  `json:"peer"`
}

func c33ContainsRun(c c33ContainsCase) verifkit.Result {
	var nets []c33RefNet
	for _, e := range c.Entries {
		n, v, _ := c33RefParseEntry(e)
		if v != c33Valid {
			return verifkit.Result{Labels: []string{"out-of-domain"}}
		}
		nets = append(nets, n)
	}
	if c.Peer.Kind == "str" && len(c.Peer.IP) > 0 {
		// the text must spell the structured IP (harness self-check, old net API)
		host := c.Peer.Text
		if h, _, err := net.SplitHostPort(host); err == nil {
			host = h
		}
		if i := strings.IndexByte(host, '%'); i >= 0 {
			host = host[:i]
		}
		if pip := net.ParseIP(host); pip == nil || !pip.Equal(net.IP(c.Peer.IP)) {
			return verifkit.Result{Labels: []string{"out-of-domain"}}
		}
	}
	trusted, err := ParseTrustedNetworks(c.Entries)
	if err != nil {
		return verifkit.Fail("parse:rejected-valid", "ParseTrustedNetworks(%q) rejected a list of valid IPs/CIDRs: %v", c.Entries, err)
	}
	addr := c.Peer.c33Addr()
	got := trusted.Contains(addr)
	ip, mapped := c.Peer.c33RefIP()
	want, near := false, false
	if ip != nil {
		want, near = c33RefMember(nets, ip)
	}
	desc := "<nil>"
	if addr != nil {
		desc = addr.String()
	}
	if got != want {
		key := "contains:untrusted-accepted"
		if want {
			key = "contains:trusted-refused"
		}
		return verifkit.Fail(key, "trusted=%q peer=%s (%s): Contains=%v, reference membership=%v", c.Entries, desc, c.Peer.Kind, got, want)
	}
	if ip != nil {
		// ContainsStr on the host must agree
		if gs := trusted.ContainsStr(Host(addr)); gs != want {
			return verifkit.Fail("contains:str-disagrees", "trusted=%q host=%q: ContainsStr=%v, reference=%v", c.Entries, Host(addr), gs, want)
		}
	}
	labels := []string{"peer:" + c.Peer.Kind, fmt.Sprintf("member=%v", want)}
	if ip == nil {
		labels = append(labels, "non-ip")
	}
	if mapped {
		labels = append(labels, "mapped-peer")
	}
	if c.Peer.Zone != "" {
		labels = append(labels, "zoned-peer")
	}
	if near {
		labels = append(labels, "near-boundary")
	}
	if len(c.Entries) == 0 {
		labels = append(labels, "empty-list")
	}
	return verifkit.Result{NonTrivial: near || mapped || c.Peer.Zone != "", Labels: labels}
}

// c33GenPeer derives a peer from the entries (one bit around a prefix boundary,
// mapped / v4-compatible relatives) or draws an unrelated one.
func c33GenPeer(t *rapid.T, entries []string) c33Peer {
	var nets []c33RefNet
	for _, e := range entries {
		if n, v, _ := c33RefParseEntry(e); v == c33Valid {
			nets = append(nets, n)
		}
	}
	mode := rapid.SampledFrom([]string{"derived", "derived", "derived", "random", "nonip"}).Draw(t, "peerMode")
	if mode == "nonip" {
		switch rapid.IntRange(0, 4).Draw(t, "nonip") {
		case 0:
			return c33Peer{Kind: "pipe"}
		case 1:
			return c33Peer{Kind: "unix", Text: rapid.SampledFrom([]string{"/tmp/gate.sock", "@gate", "", "@"}).Draw(t, "unix")}
		case 2:
			return c33Peer{Kind: "nil"}
		case 3:
			return c33Peer{Kind: "tcp"} // zero TCPAddr: ":0"
		default:
			return c33Peer{Kind: "str", Text: rapid.SampledFrom([]string{"", "pipe", "localhost:25565", "example.com", ":25565", "[]:1", "1.2.3:80", "300.1.1.1:80"}).Draw(t, "str")}
		}
	}
	var ip []byte
	if mode == "derived" && len(nets) > 0 {
		n := nets[rapid.IntRange(0, len(nets)-1).Draw(t, "which")]
		ip = append([]byte{}, n.ip...)
		// randomise host bits
		if rapid.Bool().Draw(t, "hostBits") {
			rnd := rapid.SliceOfN(rapid.Byte(), len(ip), len(ip)).Draw(t, "rnd")
			for b := n.bits; b < 8*len(ip); b++ {
				m := byte(0x80 >> (b % 8))
				ip[b/8] = ip[b/8]&^m | rnd[b/8]&m
			}
		}
		flip := rapid.SampledFrom([]string{"none", "last-prefix-bit", "first-host-bit", "random-bit"}).Draw(t, "flip")
		var b int
		switch flip {
		case "last-prefix-bit":
			b = n.bits - 1
		case "first-host-bit":
			b = n.bits
		case "random-bit":
			b = rapid.IntRange(0, 8*len(ip)-1).Draw(t, "bit")
		default:
			b = -1
		}
		if b >= 0 && b < 8*len(ip) {
			ip[b/8] ^= 0x80 >> (b % 8)
		}
		// relatives in the other family
		if len(ip) == 4 {
			switch rapid.IntRange(0, 3).Draw(t, "rel") {
			case 0: // IPv4-mapped: same host after normalisation
				ip = append([]byte{0, 0, 0, 0, 0, 0, 0, 0, 0, 0, 0xff, 0xff}, ip...)
			case 1: // IPv4-compatible / other embeddings: genuinely IPv6
				pre := rapid.SampledFrom([][]byte{
					{0, 0, 0, 0, 0, 0, 0, 0, 0, 0, 0, 0},
					{0, 0, 0, 0, 0, 0, 0, 0, 0, 0, 0xff, 0xfe},
					{0, 0x64, 0xff, 0x9b, 0, 0, 0, 0, 0, 0, 0, 0},
					{0, 0, 0, 0, 0, 0, 0, 0, 0, 1, 0xff, 0xff},
				}).Draw(t, "pre")
				ip = append(append([]byte{}, pre...), ip...)
			}
		}
	} else {
		ip = c33GenIP(t, "peerIP")
		if len(ip) == 4 && rapid.Bool().Draw(t, "mapRandom") {
			ip = append([]byte{0, 0, 0, 0, 0, 0, 0, 0, 0, 0, 0xff, 0xff}, ip...)
		}
	}
	zone := ""
	if len(ip) == 16 && !c33IsMapped(ip) && rapid.IntRange(0, 2).Draw(t, "zoned") == 0 {
		zone = rapid.SampledFrom([]string{"eth0", "1", "lo0", "wlan-0"}).Draw(t, "zone")
	}
	port := rapid.IntRange(0, 65535).Draw(t, "port")
	if rapid.Bool().Draw(t, "asTCPAddr") {
		use := ip
		if len(ip) == 4 && rapid.Bool().Draw(t, "as16") {
			use = append([]byte{0, 0, 0, 0, 0, 0, 0, 0, 0, 0, 0xff, 0xff}, ip...) // net.IPv4() representation
		}
		return c33Peer{Kind: "tcp", IP: use, Zone: zone, Port: port}
	}
	// textual net.Addr
	var host string
	if len(ip) == 4 {
		host = c33RenderV4(ip)
	} else if c33IsMapped(ip) {
		host = rapid.SampledFrom([]string{
			"::ffff:" + c33RenderV4(ip[12:]),
			fmt.Sprintf("::ffff:%x:%x", uint(ip[12])<<8|uint(ip[13]), uint(ip[14])<<8|uint(ip[15])),
			"0:0:0:0:0:FFFF:" + c33RenderV4(ip[12:]),
		}).Draw(t, "mappedForm")
	} else {
		host = c33RenderV6(ip, rapid.IntRange(0, 3).Draw(t, "peerForm"))
	}
	if zone != "" {
		host += "%" + zone
	}
	text := host
	switch {
	case len(ip) == 4:
		if rapid.IntRange(0, 4).Draw(t, "noPort") != 0 {
			text = host + ":" + strconv.Itoa(port)
		}
	default:
		if rapid.IntRange(0, 4).Draw(t, "noPort") != 0 {
			text = "[" + host + "]:" + strconv.Itoa(port)
		}
	}
	return c33Peer{Kind: "str", IP: ip, Zone: zone, Port: port, Text: text}
}

func c33GenEntries(t *rapid.T, min int) []string {
	n := rapid.IntRange(min, 4).Draw(t, "nEntries")
	out := make([]string, 0, n)
	for i := 0; i < n; i++ {
		out = append(out, c33GenValidEntry(t))
	}
	return out
}

func TestVerif_C33(t *testing.T) {
	verifkit.Check(t, "C33", "parse",
		"lists of 0-4 entries mixing valid IPs/CIDRs (v4, v6 in full/compressed/upper-case/dotted-tail spelling, /0../32../128, space/tab padded) with invalid ones (IPv4-mapped in four spellings with and without prefix, bad octets/groups/bits, host:port, brackets, zoned CIDRs, hostnames, random strings); accepted <=> every entry valid per a hand-written strict reference parser; accepted networks must mean what the text says; ambiguous spellings (leading zeros, scoped plain address) are not judged",
		func(t *rapid.T) c33ParseCase {
			n := rapid.IntRange(0, 4).Draw(t, "n")
			var c c33ParseCase
			nInvalid := rapid.SampledFrom([]int{0, 0, 1, 1, 2}).Draw(t, "nInvalid")
			for i := 0; i < n; i++ {
				if i < nInvalid {
					c.Entries = append(c.Entries, c33GenInvalidEntry(t))
				} else {
					c.Entries = append(c.Entries, c33GenValidEntry(t))
				}
			}
			// the position of the invalid entry must not matter
			if len(c.Entries) > 1 && rapid.Bool().Draw(t, "rotate") {
				c.Entries = append(c.Entries[1:], c.Entries[0])
			}
			return c
		}, c33ParseRun)

	verifkit.Check(t, "C33", "contains",
		"0-4 valid trusted entries and a peer net.Addr (TCPAddr with 4/16-byte IP and zone, textual addr with/without port and brackets, mapped in three spellings, unix, pipe, nil, garbage) derived from an entry by flipping the last prefix bit / first host bit / random bit and by embedding a v4 address as mapped or non-mapped IPv6; Contains == reference bit-prefix membership after unmapping and zone stripping; non-trivial = peer within one bit of a prefix boundary, mapped or zoned",
		func(t *rapid.T) c33ContainsCase {
			entries := c33GenEntries(t, 0)
			return c33ContainsCase{Entries: entries, Peer: c33GenPeer(t, entries)}
		}, c33ContainsRun)
}
