//go:build verif

package connectutil

import (
	"bytes"
	"fmt"
	"sort"
	"testing"

	"go.minekube.com/connect"
	"go.minekube.com/gate/pkg/internal/verifkit"
	"google.golang.org/protobuf/proto"
	"pgregory.net/rapid"
)

// C41: ExtractSessionPrincipalWire vs a reference protobuf wire scanner.
//
// The reference (c41Scan) is a generic protobuf wire-format reader written from
// the encoding specification (tag = varint (field<<3 | wiretype); 0 varint,
// 1 fixed64, 2 length-delimited, 3/4 start/end group, 5 fixed32; field number
// 0 and wire types 6/7 are invalid). It returns the top-level fields in order
// or "malformed". The principal semantics (c41Expect) are then computed from
// that list: last value wins for scalars, and the rejection reasons are exactly
// those of the property statement.

// the frozen field numbers, restated here from the contract (not taken from the
// constants of the code under test)
const (
	c41FProtocol   = 6  // varint (enum)
	c41FEndpointID = 7  // bytes (string)
	c41FOrgID      = 8  // bytes (string)
	c41FNonce      = 9  // bytes, 16
	c41FSrcProto   = 10 // varint (int32)
	c41FPolicyRev  = 11 // varint (int64)
	c41FEnvelope   = 12 // bytes, 1..16 KiB
	c41MaxEnvelope = 16 << 10
)

// ---------------------------------------------------------------- case

// c41Op describes one piece of the encoded unknown-field region.
type c41Op struct {
	// Kind: "field" (tag + value by Wire), "raw" (Data copied verbatim).
	Kind string `json:"kind"`
	Num  uint64 `json:"num,omitempty"`
	Wire uint8  `json:"wire,omitempty"`
	// TagPad / ValPad: extra non-canonical continuation bytes (0x80.. 0x00) appended to
	// the tag / value varint (still a valid varint as long as the total is <= 10 bytes).
	TagPad int    `json:"tagPad,omitempty"`
	ValPad int    `json:"valPad,omitempty"`
	Varint uint64 `json:"varint,omitempty"`
	// Len/Fill describe a length-delimited payload without storing it (16 KiB envelopes);
	// Data, if non-nil, is the payload (or the fixed32/fixed64 bytes, or raw bytes).
	Len  int    `json:"len,omitempty"`
	Fill byte   `json:"fill,omitempty"`
	Data []byte `json:"data,omitempty"`
	// LenDelta lies about the length prefix (declared = actual + LenDelta).
	LenDelta int `json:"lenDelta,omitempty"`
	// Group content and terminator (Wire == 3): EndNum 0 = matching end tag,
	// otherwise that number; NoEnd = unterminated.
	Sub    []c41Op `json:"sub,omitempty"`
	EndNum uint64  `json:"endNum,omitempty"`
	NoEnd  bool    `json:"noEnd,omitempty"`
}

type c41Case struct {
	Ops []c41Op `json:"ops,omitempty"`
	// Trunc > 0: cut that many bytes off the end of the encoding.
	Trunc int `json:"trunc,omitempty"`
	// Raw, if non-nil, is used verbatim instead of Ops (native fuzzing).
	Raw []byte `json:"raw,omitempty"`
}

func c41AppendVarint(b []byte, v uint64, pad int) []byte {
	for v >= 0x80 {
		b = append(b, byte(v)|0x80)
		v >>= 7
	}
	if pad <= 0 {
		return append(b, byte(v))
	}
	b = append(b, byte(v)|0x80)
	for i := 1; i < pad; i++ {
		b = append(b, 0x80)
	}
	return append(b, 0x00)
}

func c41Payload(op c41Op) []byte {
	if op.Data != nil {
		return op.Data
	}
	return bytes.Repeat([]byte{op.Fill}, op.Len)
}

func c41Encode(b []byte, ops []c41Op) []byte {
	for _, op := range ops {
		if op.Kind == "raw" {
			b = append(b, op.Data...)
			continue
		}
		b = c41AppendVarint(b, op.Num<<3|uint64(op.Wire&7), op.TagPad)
		switch op.Wire & 7 {
		case 0:
			b = c41AppendVarint(b, op.Varint, op.ValPad)
		case 1, 5:
			b = append(b, op.Data...)
		case 2:
			p := c41Payload(op)
			n := len(p) + op.LenDelta
			if n < 0 {
				n = 0
			}
			b = c41AppendVarint(b, uint64(n), op.ValPad)
			b = append(b, p...)
		case 3:
			b = c41Encode(b, op.Sub)
			if !op.NoEnd {
				end := op.EndNum
				if end == 0 {
					end = op.Num
				}
				b = c41AppendVarint(b, end<<3|4, 0)
			}
		default: // 4 (stray end group), 6, 7: tag only
		}
	}
	return b
}

func (c c41Case) bytes() []byte {
	if c.Raw != nil {
		return c.Raw
	}
	b := c41Encode(nil, c.Ops)
	if c.Trunc > 0 {
		if c.Trunc >= len(b) {
			return []byte{}
		}
		b = b[:len(b)-c.Trunc]
	}
	return b
}

// ---------------------------------------------------------------- reference scanner

type c41Field struct {
	num   uint64
	wire  uint8
	v     uint64 // varint / fixed value
	bytes []byte // length-delimited payload
}

type c41Malformed struct{ why string }

func (e *c41Malformed) Error() string { return e.why }

// c41OutOfDomain marks byte strings the property does not quantify over and on
// which protobuf implementations legitimately differ (field numbers above
// 2^29-1, a 10th varint byte carrying more than the 64th bit, absurd group
// nesting). They are only reachable through native fuzzing and are not judged.
type c41OutOfDomain struct{ why string }

func (e *c41OutOfDomain) Error() string { return e.why }

// c41ReadVarint: base-128, little-endian groups, at most 10 bytes, and the 10th
// byte may only carry the 64th bit.
func c41ReadVarint(b []byte, pos int) (v uint64, next int, err error) {
	for i := 0; ; i++ {
		if pos+i >= len(b) {
			return 0, 0, &c41Malformed{"truncated varint"}
		}
		if i == 10 {
			return 0, 0, &c41Malformed{"varint longer than 10 bytes"}
		}
		c := b[pos+i]
		if i == 9 && c&0x7f > 1 {
			return 0, 0, &c41OutOfDomain{"10th varint byte carries more than bit 64"}
		}
		v |= uint64(c&0x7f) << (7 * uint(i))
		if c < 0x80 {
			return v, pos + i + 1, nil
		}
	}
}

// c41ScanFields reads fields until end of input (group == 0) or until the end
// tag of the group numbered `group`.
func c41ScanFields(b []byte, pos int, group uint64, depth int) (fields []c41Field, next int, err error) {
	for {
		if pos == len(b) {
			if group != 0 {
				return nil, 0, &c41Malformed{"unterminated group"}
			}
			return fields, pos, nil
		}
		tag, p, err := c41ReadVarint(b, pos)
		if err != nil {
			return nil, 0, err
		}
		pos = p
		num, wire := tag>>3, uint8(tag&7)
		if num == 0 {
			return nil, 0, &c41Malformed{"field number 0"}
		}
		if num > 1<<29-1 {
			return nil, 0, &c41OutOfDomain{"field number above 2^29-1"}
		}
		f := c41Field{num: num, wire: wire}
		switch wire {
		case 0:
			f.v, pos, err = c41ReadVarint(b, pos)
			if err != nil {
				return nil, 0, err
			}
		case 1:
			if len(b)-pos < 8 {
				return nil, 0, &c41Malformed{"truncated fixed64"}
			}
			for i := 7; i >= 0; i-- {
				f.v = f.v<<8 | uint64(b[pos+i])
			}
			pos += 8
		case 5:
			if len(b)-pos < 4 {
				return nil, 0, &c41Malformed{"truncated fixed32"}
			}
			for i := 3; i >= 0; i-- {
				f.v = f.v<<8 | uint64(b[pos+i])
			}
			pos += 4
		case 2:
			var n uint64
			n, pos, err = c41ReadVarint(b, pos)
			if err != nil {
				return nil, 0, err
			}
			if n > uint64(len(b)-pos) {
				return nil, 0, &c41Malformed{"length-delimited field exceeds input"}
			}
			f.bytes = b[pos : pos+int(n)]
			pos += int(n)
		case 3:
			if depth > 100 {
				return nil, 0, &c41OutOfDomain{"group nesting deeper than 100"}
			}
			_, pos, err = c41ScanFields(b, pos, num, depth+1)
			if err != nil {
				return nil, 0, err
			}
		case 4:
			if group == 0 {
				return nil, 0, &c41Malformed{"end group without start group"}
			}
			if num != group {
				return nil, 0, &c41Malformed{"end group number mismatch"}
			}
			return fields, pos, nil
		default:
			return nil, 0, &c41Malformed{"reserved wire type"}
		}
		fields = append(fields, f)
	}
}

type c41Expected struct {
	skip    bool     // outside the property's domain (see c41OutOfDomain)
	reject  []string // rejection reasons of the property statement (empty = must not be rejected)
	absent  bool     // no principal field at all: (nil, nil)
	want    SessionPrincipalWire
	hasEnv  bool
	classes []string
}

func c41WantBytes(num uint64) bool {
	return num == c41FEndpointID || num == c41FOrgID || num == c41FNonce || num == c41FEnvelope
}

func c41Expect(raw []byte) (e c41Expected) {
	cls := map[string]bool{}
	defer func() {
		for k := range cls {
			e.classes = append(e.classes, k)
		}
		sort.Strings(e.classes)
	}()
	fields, _, err := c41ScanFields(raw, 0, 0, 0)
	if _, ood := err.(*c41OutOfDomain); ood {
		e.skip = true
		cls["out-of-domain"] = true
		return e
	}
	if err != nil {
		e.reject = []string{"malformed"}
		cls["reject-malformed"] = true
		return e
	}
	reasons := map[string]bool{}
	count := map[uint64]int{}
	envelopes := 0
	var nonce []byte
	haveNonce := false
	e.absent = true
	for _, f := range fields {
		if f.num < c41FProtocol || f.num > c41FEnvelope {
			cls["other-field"] = true
			if f.wire == 3 {
				cls["other-group"] = true
			}
			continue
		}
		e.absent = false
		count[f.num]++
		wantWire := uint8(0)
		if c41WantBytes(f.num) {
			wantWire = 2
		}
		if f.wire != wantWire {
			reasons["wrong-wire-type"] = true
			continue
		}
		switch f.num {
		case c41FProtocol:
			e.want.Protocol = int32(uint32(f.v)) // enum: low 32 bits, two's complement
		case c41FSrcProto:
			e.want.SourceProtocolVersion = int32(uint32(f.v))
		case c41FPolicyRev:
			e.want.PolicyRevision = int64(f.v)
		case c41FEndpointID:
			e.want.EndpointID = string(f.bytes)
		case c41FOrgID:
			e.want.OrganizationID = string(f.bytes)
		case c41FNonce:
			nonce, haveNonce = f.bytes, true
		case c41FEnvelope:
			envelopes++
			if len(f.bytes) == 0 {
				reasons["empty-envelope"] = true
			} else if len(f.bytes) > c41MaxEnvelope {
				reasons["oversized-envelope"] = true
			}
			e.want.Envelope = f.bytes
		}
	}
	if envelopes >= 2 {
		reasons["second-envelope"] = true
	}
	if envelopes >= 1 {
		e.hasEnv = true
		if !haveNonce || len(nonce) != 16 {
			reasons["envelope-without-16-byte-nonce"] = true
		} else {
			copy(e.want.ConnectSessionNonce[:], nonce)
		}
	} else if haveNonce {
		cls["nonce-without-envelope"] = true
	}
	repeated, distinct := false, 0
	for _, n := range count {
		distinct++
		if n > 1 {
			repeated = true
		}
	}
	if repeated {
		cls["repeated-principal-field"] = true
	}
	if distinct >= 2 {
		cls["principal-fields>=2"] = true
	}
	for r := range reasons {
		e.reject = append(e.reject, r)
		cls["reject-"+r] = true
	}
	sort.Strings(e.reject)
	switch {
	case len(e.reject) > 0:
	case e.absent:
		cls["absent"] = true
	case e.hasEnv:
		cls["accept-with-envelope"] = true
	default:
		cls["accept-no-envelope"] = true
	}
	return e
}

// ---------------------------------------------------------------- run

func c41Compare(path string, raw []byte, e c41Expected, got *SessionPrincipalWire, err error) *verifkit.Violation {
	if len(e.reject) > 0 {
		if err == nil {
			// one key per rejection reason the implementation let through
			what := "accepted"
			if got == nil {
				what = "downgraded to 'no principal'"
			}
			return verifkit.Violationf("reject-missed:"+e.reject[0], "%s: proposal with %v was %s (raw %d bytes %s)", path, e.reject, what, len(raw), c41Hex(raw))
		}
		return nil
	}
	if err != nil {
		return verifkit.Violationf("spurious-reject", "%s: well-formed proposal without any listed rejection reason was rejected: %v (raw %s)", path, err, c41Hex(raw))
	}
	if e.absent {
		if got != nil {
			return verifkit.Violationf("absent:non-nil", "%s: no principal field present but got %+v (raw %s)", path, *got, c41Hex(raw))
		}
		return nil
	}
	if got == nil {
		return verifkit.Violationf("present:nil", "%s: principal fields present but (nil,nil) returned (raw %s)", path, c41Hex(raw))
	}
	if got.Protocol != e.want.Protocol {
		return verifkit.Violationf("field:protocol", "%s: protocol=%d want %d (raw %s)", path, got.Protocol, e.want.Protocol, c41Hex(raw))
	}
	if got.EndpointID != e.want.EndpointID {
		return verifkit.Violationf("field:endpointID", "%s: endpointID=%q want %q (raw %s)", path, got.EndpointID, e.want.EndpointID, c41Hex(raw))
	}
	if got.OrganizationID != e.want.OrganizationID {
		return verifkit.Violationf("field:organizationID", "%s: organizationID=%q want %q (raw %s)", path, got.OrganizationID, e.want.OrganizationID, c41Hex(raw))
	}
	if got.SourceProtocolVersion != e.want.SourceProtocolVersion {
		return verifkit.Violationf("field:sourceProtocolVersion", "%s: sourceProtocolVersion=%d want %d (raw %s)", path, got.SourceProtocolVersion, e.want.SourceProtocolVersion, c41Hex(raw))
	}
	if got.PolicyRevision != e.want.PolicyRevision {
		return verifkit.Violationf("field:policyRevision", "%s: policyRevision=%d want %d (raw %s)", path, got.PolicyRevision, e.want.PolicyRevision, c41Hex(raw))
	}
	if !bytes.Equal(got.Envelope, e.want.Envelope) || (e.hasEnv != got.HasEnvelope()) {
		return verifkit.Violationf("field:envelope", "%s: envelope (%d bytes) differs from reference (%d bytes) (raw %s)", path, len(got.Envelope), len(e.want.Envelope), c41Hex(raw))
	}
	// The nonce is a binding input of the envelope; callers never read it
	// without one, so it is compared only when an envelope is present.
	if e.hasEnv && got.ConnectSessionNonce != e.want.ConnectSessionNonce {
		return verifkit.Violationf("field:nonce", "%s: nonce=%x want %x (raw %s)", path, got.ConnectSessionNonce, e.want.ConnectSessionNonce, c41Hex(raw))
	}
	if got.IsBedrock() != (e.want.Protocol == 2) {
		return verifkit.Violationf("field:isBedrock", "%s: IsBedrock=%v with protocol %d", path, got.IsBedrock(), e.want.Protocol)
	}
	return nil
}

func c41Hex(b []byte) string {
	if len(b) > 96 {
		return fmt.Sprintf("%x...(%d bytes)", b[:96], len(b))
	}
	return fmt.Sprintf("%x", b)
}

func c41Run(c c41Case) verifkit.Result {
	raw := c.bytes()
	e := c41Expect(raw)
	labels := append([]string(nil), e.classes...)
	if e.skip {
		// still must not crash (a panic is converted into a violation by the kit)
		s := &connect.Session{Id: "sess-1"}
		s.ProtoReflect().SetUnknown(bytes.Clone(raw))
		_, _ = ExtractSessionPrincipalWire(s)
		return verifkit.Result{Labels: labels}
	}

	// path 1: bytes placed in the unknown-field region of a session
	s := &connect.Session{Id: "sess-1", TunnelServiceAddr: "ws://127.0.0.1:1"}
	s.ProtoReflect().SetUnknown(bytes.Clone(raw))
	got, err := ExtractSessionPrincipalWire(s)
	if v := c41Compare("unknown-region", raw, e, got, err); v != nil {
		return verifkit.Result{V: v}
	}
	// extraction must not edit the session
	if !bytes.Equal(s.ProtoReflect().GetUnknown(), raw) {
		return verifkit.Fail("session-mutated", "unknown-field region changed during extraction")
	}

	// path 2: the way proposals really arrive - the whole byte string is decoded
	// by the protobuf runtime; whatever it does not know stays unknown. Only
	// possible when the runtime itself accepts the bytes.
	if len(e.reject) == 0 || e.reject[0] != "malformed" {
		s2 := new(connect.Session)
		if uerr := proto.Unmarshal(raw, s2); uerr == nil {
			labels = append(labels, "via-unmarshal")
			got2, err2 := ExtractSessionPrincipalWire(s2)
			if v := c41Compare("proto.Unmarshal", raw, e, got2, err2); v != nil {
				return verifkit.Result{V: v}
			}
		} else {
			labels = append(labels, "unmarshal-refused")
		}
	}

	nt := len(e.reject) > 0
	for _, l := range e.classes {
		if l == "repeated-principal-field" {
			for _, l2 := range e.classes {
				if l2 == "principal-fields>=2" {
					nt = true
				}
			}
		}
	}
	return verifkit.Result{NonTrivial: nt, Labels: labels}
}

// ---------------------------------------------------------------- generator

func c41GenBytesOp(t *rapid.T, num uint64) c41Op {
	op := c41Op{Kind: "field", Num: num, Wire: 2}
	switch num {
	case c41FNonce:
		n := rapid.SampledFrom([]int{16, 16, 16, 16, 16, 0, 15, 17, 1, 32}).Draw(t, "nonceLen")
		op.Data = rapid.SliceOfN(rapid.Byte(), n, n).Draw(t, "nonce")
		if op.Data == nil {
			op.Data = []byte{}
		}
	case c41FEnvelope:
		switch rapid.IntRange(0, 11).Draw(t, "envKind") {
		case 0:
			op.Data = []byte{}
		case 1:
			op.Len, op.Fill = c41MaxEnvelope, 'a'
		case 2:
			op.Len, op.Fill = c41MaxEnvelope+1, 'b'
		case 3:
			op.Len, op.Fill = c41MaxEnvelope-1, 'c'
		case 4:
			op.Data = []byte{rapid.Byte().Draw(t, "env1")}
		default:
			op.Data = []byte(rapid.SampledFrom([]string{"header.payload.signature", "e", "first", "second", "a.b.c"}).Draw(t, "env"))
		}
	default:
		switch rapid.IntRange(0, 5).Draw(t, "strKind") {
		case 0:
			op.Data = []byte{}
		case 1:
			op.Data = rapid.SliceOfN(rapid.Byte(), 0, 8).Draw(t, "strBytes") // may be invalid UTF-8
			if op.Data == nil {
				op.Data = []byte{}
			}
		default:
			op.Data = []byte(rapid.SampledFrom([]string{"endpoint-1", "org-1", "ep-2", "ö", "x"}).Draw(t, "str"))
		}
	}
	return op
}

func c41GenVarintValue(t *rapid.T) uint64 {
	return rapid.OneOf(
		rapid.Uint64Range(0, 4),
		rapid.SampledFrom([]uint64{2, 2, 127, 128, 1<<31 - 1, 1 << 31, 1<<32 + 2, 1<<63 - 1, 1 << 63, ^uint64(0), ^uint64(0) - 1, 0xfffffffe}),
		rapid.Uint64(),
	).Draw(t, "varint")
}

func c41GenRightTyped(t *rapid.T, num uint64) c41Op {
	if c41WantBytes(num) {
		return c41GenBytesOp(t, num)
	}
	op := c41Op{Kind: "field", Num: num, Wire: 0, Varint: c41GenVarintValue(t)}
	if rapid.IntRange(0, 7).Draw(t, "padv") == 0 {
		op.ValPad = rapid.IntRange(1, 3).Draw(t, "valPad")
		if op.Varint >= 1<<42 { // keep the padded varint within 10 bytes
			op.ValPad = 0
		}
	}
	return op
}

// c41GenAnyField draws a field with an arbitrary wire type and a well-formed value.
func c41GenAnyField(t *rapid.T, num uint64, depth int) c41Op {
	wire := uint8(rapid.SampledFrom([]int{0, 0, 1, 2, 2, 3, 5}).Draw(t, "wire"))
	op := c41Op{Kind: "field", Num: num, Wire: wire}
	switch wire {
	case 0:
		op.Varint = c41GenVarintValue(t)
	case 1:
		op.Data = rapid.SliceOfN(rapid.Byte(), 8, 8).Draw(t, "f64")
	case 5:
		op.Data = rapid.SliceOfN(rapid.Byte(), 4, 4).Draw(t, "f32")
	case 2:
		op.Data = rapid.SliceOfN(rapid.Byte(), 0, 20).Draw(t, "payload")
		if op.Data == nil {
			op.Data = []byte{}
		}
		if rapid.IntRange(0, 5).Draw(t, "embed") == 0 {
			// payload that itself looks like principal fields: must stay opaque
			op.Data = c41Encode(nil, []c41Op{{Kind: "field", Num: c41FEnvelope, Wire: 2, Data: []byte("inner")}, {Kind: "field", Num: c41FProtocol, Wire: 0, Varint: 2}})
		}
	case 3:
		if depth < 3 {
			n := rapid.IntRange(0, 3).Draw(t, "subn")
			for i := 0; i < n; i++ {
				// fields inside a group (also principal numbers: they are not top-level)
				op.Sub = append(op.Sub, c41GenAnyField(t, uint64(rapid.IntRange(1, 15).Draw(t, "subnum")), depth+1))
			}
		}
	}
	return op
}

func c41GenMalformed(t *rapid.T) c41Op {
	num := uint64(rapid.IntRange(1, 15).Draw(t, "mnum"))
	switch rapid.IntRange(0, 9).Draw(t, "mkind") {
	case 0: // field number 0
		return c41Op{Kind: "field", Num: 0, Wire: uint8(rapid.IntRange(0, 5).Draw(t, "w0")), Varint: 1, Data: []byte{}}
	case 1: // reserved wire types
		return c41Op{Kind: "field", Num: num, Wire: uint8(rapid.IntRange(6, 7).Draw(t, "w67"))}
	case 2: // stray end group
		return c41Op{Kind: "field", Num: num, Wire: 4}
	case 3: // unterminated group
		return c41Op{Kind: "field", Num: num, Wire: 3, NoEnd: true, Sub: []c41Op{{Kind: "field", Num: 1, Wire: 0, Varint: 1}}}
	case 4: // mismatched end group
		other := num%15 + 1
		return c41Op{Kind: "field", Num: num, Wire: 3, EndNum: other}
	case 5: // length prefix larger than what follows (only malformed when last / big enough)
		return c41Op{Kind: "field", Num: num, Wire: 2, Data: []byte("abc"), LenDelta: rapid.SampledFrom([]int{1, 5, 100000, 1 << 40}).Draw(t, "ld")}
	case 6: // varint longer than 10 bytes
		return c41Op{Kind: "raw", Data: append(c41AppendVarint(nil, num<<3, 0), 0xff, 0x80, 0x80, 0x80, 0x80, 0x80, 0x80, 0x80, 0x80, 0x80, 0x01)}
	case 7: // over-long tag
		return c41Op{Kind: "raw", Data: []byte{byte(num<<3) | 0x80, 0x80, 0x80, 0x80, 0x80, 0x80, 0x80, 0x80, 0x80, 0x80, 0x00, 0x01}}
	case 8: // short fixed
		return c41Op{Kind: "field", Num: num, Wire: uint8(rapid.SampledFrom([]int{1, 5}).Draw(t, "wf")), Data: rapid.SliceOfN(rapid.Byte(), 0, 3).Draw(t, "short")}
	default: // dangling continuation byte
		return c41Op{Kind: "raw", Data: []byte{byte(num<<3) | 0x80}}
	}
}

func c41Gen(t *rapid.T) c41Case {
	var c c41Case
	mode := rapid.IntRange(0, 19).Draw(t, "mode")

	// base: a plausible proposal tail
	var ops []c41Op
	full := []uint64{c41FProtocol, c41FEndpointID, c41FOrgID, c41FNonce, c41FSrcProto, c41FPolicyRev, c41FEnvelope}
	switch {
	case mode <= 1: // no principal field at all
	case mode <= 3: // some fields, no envelope
		for _, n := range full[:6] {
			if rapid.Bool().Draw(t, "has") {
				ops = append(ops, c41GenRightTyped(t, n))
			}
		}
	default: // complete v2 proposal with a good nonce and envelope
		for _, n := range full {
			op := c41GenRightTyped(t, n)
			if n == c41FNonce && rapid.IntRange(0, 9).Draw(t, "keepNonce") > 0 {
				op.Data = rapid.SliceOfN(rapid.Byte(), 16, 16).Draw(t, "nonce16")
			}
			if n == c41FEnvelope && rapid.IntRange(0, 9).Draw(t, "keepEnv") > 0 {
				op = c41Op{Kind: "field", Num: n, Wire: 2, Data: []byte("header.payload.signature")}
				if rapid.IntRange(0, 7).Draw(t, "envMax") == 0 {
					op = c41Op{Kind: "field", Num: n, Wire: 2, Len: c41MaxEnvelope, Fill: 'm'}
				}
			}
			ops = append(ops, op)
		}
	}

	// perturbations
	nPert := rapid.IntRange(0, 3).Draw(t, "nPert")
	for i := 0; i < nPert; i++ {
		var extra c41Op
		switch rapid.IntRange(0, 9).Draw(t, "pert") {
		case 0, 1, 2: // repeat a principal field with the right type (last wins / second envelope)
			extra = c41GenRightTyped(t, uint64(rapid.IntRange(c41FProtocol, c41FEnvelope).Draw(t, "rep")))
		case 3: // principal field with a wrong wire type
			n := uint64(rapid.IntRange(c41FProtocol, c41FEnvelope).Draw(t, "wnum"))
			extra = c41GenAnyField(t, n, 0)
		case 4, 5, 6: // other fields 1..5, 13..15 with any wire type
			n := uint64(rapid.SampledFrom([]int{1, 2, 3, 4, 5, 13, 14, 15, 16, 1000}).Draw(t, "onum"))
			extra = c41GenAnyField(t, n, 0)
		case 7:
			extra = c41GenMalformed(t)
		case 8: // drop a field instead of adding one
			if len(ops) > 0 {
				k := rapid.IntRange(0, len(ops)-1).Draw(t, "drop")
				ops = append(ops[:k:k], ops[k+1:]...)
			}
			continue
		default: // non-canonical tag
			extra = c41GenRightTyped(t, uint64(rapid.IntRange(c41FProtocol, c41FEnvelope).Draw(t, "tp")))
			extra.TagPad = rapid.IntRange(1, 4).Draw(t, "tagPad")
		}
		pos := rapid.IntRange(0, len(ops)).Draw(t, "pos")
		ops = append(ops[:pos:pos], append([]c41Op{extra}, ops[pos:]...)...)
	}
	if rapid.IntRange(0, 4).Draw(t, "shuffle") == 0 && len(ops) > 1 {
		perm := rapid.Permutation(ops).Draw(t, "perm")
		ops = perm
	}
	c.Ops = ops
	if rapid.IntRange(0, 9).Draw(t, "truncate") == 0 {
		c.Trunc = rapid.IntRange(1, 12).Draw(t, "trunc")
	}
	return c
}

const c41Rule = "unknown-field regions built from a field grammar: complete/partial/absent v2 proposals (fields 6..12) perturbed by repeated principal fields, wrong wire types, other fields 1..5/13..16 with any wire type incl. groups, non-canonical varints, envelope sizes {0,1,Max-1,Max,Max+1}, nonce sizes {0,1,15,16,17,32}, malformed pieces (field 0, wire 6/7, stray/mismatched/unterminated groups, over-long varints, lying length prefixes, short fixed) and tail truncation; both via SetUnknown and, when the protobuf runtime accepts the bytes, via proto.Unmarshal; oracle = generic wire scanner + last-wins semantics + the listed rejection reasons; non-trivial = a rejection reason is present, or >=2 distinct principal fields with one repeated"

func TestVerif_C41(t *testing.T) {
	verifkit.Check(t, "C41", "extract", c41Rule, c41Gen, c41Run)
}

// FuzzVerif_C41_raw feeds arbitrary byte strings as the unknown-field region.
func FuzzVerif_C41_raw(f *testing.F) {
	seed := func(ops ...c41Op) { f.Add(c41Encode(nil, ops)) }
	nonce := []byte("0123456789abcdef")
	seed()
	seed(c41Op{Kind: "field", Num: c41FProtocol, Wire: 0, Varint: 2})
	seed(c41Op{Kind: "field", Num: c41FProtocol, Wire: 0, Varint: 2},
		c41Op{Kind: "field", Num: c41FEndpointID, Wire: 2, Data: []byte("endpoint-1")},
		c41Op{Kind: "field", Num: c41FOrgID, Wire: 2, Data: []byte("org-1")},
		c41Op{Kind: "field", Num: c41FNonce, Wire: 2, Data: nonce},
		c41Op{Kind: "field", Num: c41FSrcProto, Wire: 0, Varint: 3},
		c41Op{Kind: "field", Num: c41FPolicyRev, Wire: 0, Varint: 7},
		c41Op{Kind: "field", Num: c41FEnvelope, Wire: 2, Data: []byte("header.payload.signature")})
	seed(c41Op{Kind: "field", Num: c41FEnvelope, Wire: 2, Data: []byte("a")}, c41Op{Kind: "field", Num: c41FEnvelope, Wire: 2, Data: []byte("b")})
	seed(c41Op{Kind: "field", Num: 13, Wire: 3, Sub: []c41Op{{Kind: "field", Num: c41FEnvelope, Wire: 2, Data: []byte("x")}}})
	seed(c41Op{Kind: "field", Num: c41FNonce, Wire: 5, Data: []byte{1, 2, 3, 4}})
	f.Fuzz(func(t *testing.T, data []byte) {
		if len(data) > 64<<10 {
			return
		}
		if data == nil {
			data = []byte{}
		}
		verifkit.CheckCase(t, "C41", "fuzz-raw", "native fuzzing: arbitrary bytes as the unknown-field region, same oracle as 'extract'", c41Case{Raw: bytes.Clone(data)}, c41Run)
	})
}
