//go:build verif

package config

// C41, sub-check "proposal-handler": the "rejected, never silently downgraded"
// clause at the place where it takes effect. The main C41 check decides
// connectutil.ExtractSessionPrincipalWire against a reference protobuf parser;
// this sub-check feeds the real session proposal handler (tunnelCreator.handle
// through proposalHandler.handle) with generated proposals and demands, for every
// proposal whose principal fields the extractor reports as structurally invalid,
// one rejection and no connection to the tunnel service -
// with the principal verifier off (the default) and on.

import (
	"context"
	"fmt"
	"net"
	"sync"
	"sync/atomic"
	"testing"
	"time"

	"go.minekube.com/connect"
	"google.golang.org/grpc/codes"
	"google.golang.org/protobuf/encoding/protowire"
	"pgregory.net/rapid"

	"go.minekube.com/gate/pkg/internal/verifkit"
	"go.minekube.com/gate/pkg/util/connectutil"
)

type c41hField struct {
	Num int    `json:"num"`
	Typ int    `json:"typ"` // protowire type: 0 varint, 1 fixed64, 2 bytes, 5 fixed32
	V   uint64 `json:"v"`
	Len int    `json:"len"` // bytes: payload length
}

type c41hCase struct {
	Fields      []c41hField `json:"fields"`
	Cut         int         `json:"cut"` // drop this many bytes from the end of the unknown-field region
	Passthrough bool        `json:"passthrough"`
	Require     bool        `json:"require"` // a principal verifier is configured (mode=require) but has no keys
}

type c41hProposal struct {
	s       *connect.Session
	mu      sync.Mutex
	reasons []*connect.RejectionReason
}

func (p *c41hProposal) Session() *connect.Session { return p.s }
func (p *c41hProposal) Reject(_ context.Context, r *connect.RejectionReason) error {
	p.mu.Lock()
	p.reasons = append(p.reasons, r)
	p.mu.Unlock()
	return nil
}

func c41hRaw(c c41hCase) []byte {
	var raw []byte
	for _, f := range c.Fields {
		raw = protowire.AppendTag(raw, protowire.Number(f.Num), protowire.Type(f.Typ))
		switch protowire.Type(f.Typ) {
		case protowire.VarintType:
			raw = protowire.AppendVarint(raw, f.V)
		case protowire.Fixed64Type:
			raw = protowire.AppendFixed64(raw, f.V)
		case protowire.Fixed32Type:
			raw = protowire.AppendFixed32(raw, uint32(f.V))
		default:
			b := make([]byte, f.Len)
			for i := range b {
				b[i] = byte(f.V) + byte(i)
			}
			raw = protowire.AppendBytes(raw, b)
		}
	}
	if c.Cut > 0 && c.Cut <= len(raw) {
		raw = raw[:len(raw)-c.Cut]
	}
	return raw
}

func c41hRun(c c41hCase) verifkit.Result {
	ln, err := net.Listen("tcp", "127.0.0.1:0")
	if err != nil {
		return verifkit.Result{Inconclusive: true, Labels: []string{"inconclusive:listen"}}
	}
	defer ln.Close()
	var dials atomic.Int32
	go func() {
		for {
			conn, err := ln.Accept()
			if err != nil {
				return
			}
			dials.Add(1)
			_ = conn.Close()
		}
	}()

	s := &connect.Session{
		Id:                "sess-c41h",
		TunnelServiceAddr: "ws://" + ln.Addr().String() + "/tunnel",
		Player: &connect.Player{
			Addr:    "203.0.113.7:19132",
			Profile: &connect.GameProfile{Id: "d5f5a381-70a5-4837-a6ca-adbb4a83a223", Name: "Proposed"},
		},
		Auth: &connect.Authentication{Passthrough: c.Passthrough},
	}
	s.ProtoReflect().SetUnknown(c41hRaw(c))

	wire, xerr := connectutil.ExtractSessionPrincipalWire(s)

	h := &proposalHandler{
		localAddr:   &net.TCPAddr{IP: net.IPv4(127, 0, 0, 1), Port: 25565},
		connHandler: func(conn net.Conn) { _ = conn.Close() },
	}
	if c.Require {
		h.principal = &principalVerifier{} // configured, never ready: verification can only fail closed
	}
	p := &c41hProposal{s: s}
	ctx, cancel := context.WithTimeout(context.Background(), 20*time.Second)
	defer cancel()
	var panicked any
	func() {
		defer func() { panicked = recover() }()
		h.handle(ctx, p)
	}()
	if panicked != nil {
		return verifkit.Fail("handler:panic", "proposal handler panicked on %+v: %v", c, panicked)
	}
	p.mu.Lock()
	reasons := append([]*connect.RejectionReason(nil), p.reasons...)
	p.mu.Unlock()

	labels := []string{fmt.Sprintf("verifier-configured:%v", c.Require)}
	if xerr != nil {
		labels = append(labels, "principal-fields-invalid")
		if n := dials.Load(); n != 0 {
			return verifkit.Fail("handler:downgraded-invalid-principal-fields",
				"the proposal's principal fields are structurally invalid (%v) but the handler went on and dialled the tunnel service %d time(s) instead of rejecting (verifier configured: %v, rejections: %v)", xerr, n, c.Require, reasons)
		}
		if len(reasons) != 1 {
			return verifkit.Fail("handler:invalid-principal-fields-not-rejected",
				"the proposal's principal fields are structurally invalid (%v); want exactly one rejection, got %v (verifier configured: %v)", xerr, reasons, c.Require)
		}
		// (the rejection reaches the peer as status.FromContextError(err): code Unknown
		// with the InvalidArgument text inside; the property does not fix the code)
		labels = append(labels, "rejection-code:"+codes.Code(reasons[0].GetCode()).String())
		return verifkit.Result{NonTrivial: true, Labels: labels}
	}
	switch {
	case wire == nil:
		labels = append(labels, "v1-proposal")
	case wire.HasEnvelope():
		labels = append(labels, "envelope-present")
		// no verifier can accept it here (off, or configured without keys): fail closed
		if dials.Load() != 0 || len(reasons) != 1 {
			return verifkit.Fail("handler:unverified-envelope-admitted", "a proposal with a principal envelope that nothing verified was not rejected (dials %d, rejections %v)", dials.Load(), reasons)
		}
	default:
		labels = append(labels, "principal-fields-without-envelope")
	}
	return verifkit.Result{Labels: labels, NonTrivial: wire != nil}
}

func c41hGen(t *rapid.T) c41hCase {
	c := c41hCase{Passthrough: rapid.Bool().Draw(t, "passthrough"), Require: rapid.Bool().Draw(t, "require")}
	shape := rapid.IntRange(0, 9).Draw(t, "shape")
	valid := []c41hField{
		{Num: 6, Typ: 0, V: 2}, {Num: 7, Typ: 2, Len: 10, V: 'e'}, {Num: 8, Typ: 2, Len: 5, V: 'o'},
		{Num: 9, Typ: 2, Len: 16, V: 1}, {Num: 10, Typ: 0, V: 3}, {Num: 11, Typ: 0, V: 7}, {Num: 12, Typ: 2, Len: 200, V: 9},
	}
	genField := func() c41hField {
		return c41hField{
			Num: rapid.OneOf(rapid.IntRange(6, 12), rapid.IntRange(6, 15)).Draw(t, "num"),
			Typ: rapid.SampledFrom([]int{0, 2, 2, 1, 5}).Draw(t, "typ"),
			V:   rapid.OneOf(rapid.Uint64Range(0, 7), rapid.Uint64()).Draw(t, "v"),
			Len: rapid.SampledFrom([]int{0, 1, 15, 16, 17, 32, 200, 70000}).Draw(t, "len"),
		}
	}
	switch {
	case shape == 0: // plain v1 proposal
	case shape <= 3: // a complete set with one defect
		c.Fields = append(c.Fields, valid...)
		switch rapid.IntRange(0, 6).Draw(t, "defect") {
		case 0: // second envelope
			c.Fields = append(c.Fields, c41hField{Num: 12, Typ: 2, Len: rapid.SampledFrom([]int{1, 200}).Draw(t, "len2"), V: 3})
		case 1: // empty envelope
			c.Fields[6].Len = 0
		case 2: // oversized envelope
			c.Fields[6].Len = rapid.SampledFrom([]int{65536, 65537, 70000, 1 << 20}).Draw(t, "big")
		case 3: // wrong wire type
			i := rapid.IntRange(0, 6).Draw(t, "which")
			c.Fields[i].Typ = rapid.SampledFrom([]int{0, 1, 2, 5}).Draw(t, "newTyp")
		case 4: // nonce of the wrong length / missing
			if rapid.Bool().Draw(t, "dropNonce") {
				c.Fields = append(c.Fields[:3], c.Fields[4:]...)
			} else {
				c.Fields[3].Len = rapid.SampledFrom([]int{0, 15, 17, 32}).Draw(t, "nonceLen")
			}
		case 5: // truncated encoding
			c.Cut = rapid.IntRange(1, 6).Draw(t, "cut")
		default: // none: structurally valid
		}
		if rapid.Bool().Draw(t, "shuffle") {
			c.Fields = rapid.Permutation(c.Fields).Draw(t, "order")
		}
	default:
		n := rapid.IntRange(1, 6).Draw(t, "n")
		for i := 0; i < n; i++ {
			c.Fields = append(c.Fields, genField())
		}
		if rapid.IntRange(0, 4).Draw(t, "cutAny") == 0 {
			c.Cut = rapid.IntRange(1, 4).Draw(t, "cut")
		}
	}
	return c
}

func TestVerif_C41Handler(t *testing.T) {
	verifkit.Check(t, "C41", "proposal-handler",
		"session proposals for the real proposal handler (proposalHandler.handle -> tunnelCreator.handle) with a loopback tunnel-service listener: base v1 session plus an unknown-field region built from fields 6..15 with any wire type (complete principal field set with one defect: second/empty/oversized envelope, wrong wire type, nonce missing or of 0/15/17/32 bytes, truncated encoding; or 1..6 random fields), principal verifier off / configured, passthrough on/off; oracle: whenever connectutil.ExtractSessionPrincipalWire (decided by the main C41 check) reports the fields as invalid the handler rejects exactly once and never connects to the tunnel service; an envelope nothing verified is never admitted; non-trivial = the proposal carries principal fields",
		c41hGen, c41hRun)
}
