//go:build verif

package config

// C41, sub-check "envelope-binding": the values ExtractSessionPrincipalWire reads
// are what the signed principal envelope is bound to. The main C41 check compares
// the extractor with a reference protobuf parser; this sub-check closes the last
// step: in require mode (real principalVerifier with a fixed Ed25519 key) the real
// proposal handler gets proposals whose principal fields are well-formed and whose
// envelope is validly signed for a claim set that equals the wire fields or differs
// from them in one field - in particular by leading/trailing whitespace in the
// endpoint or organisation id, or in an earlier occurrence of a repeated field.
// A proposal whose wire fields (as the reference parser reads them: last
// occurrence wins, exact bytes) differ from the signed claims must be rejected and
// never reach the tunnel service.

import (
	"context"
	"crypto/ed25519"
	"encoding/base64"
	"encoding/json"
	"fmt"
	"net"
	"sync/atomic"
	"testing"
	"time"

	"go.minekube.com/connect"
	"go.minekube.com/connect/bedrockprincipal"
	"google.golang.org/protobuf/encoding/protowire"
	"pgregory.net/rapid"

	"go.minekube.com/gate/pkg/internal/verifkit"
)

type c41bCase struct {
	WireEndpoint string `json:"wire_endpoint"`
	WireOrg      string `json:"wire_org"`
	// EarlierEndpoint: an earlier occurrence of field 7 (the last one counts)
	EarlierEndpoint string `json:"earlier_endpoint,omitempty"`
	ClaimEndpoint   string `json:"claim_endpoint"`
	ClaimOrg        string `json:"claim_org"`
	ClaimSession    string `json:"claim_session"`
	NonceFlip       bool   `json:"nonce_flip"`    // the claims carry another nonce
	PolicyDelta     int    `json:"policy_delta"`  // claims' policy revision - wire's
	VersionDelta    int    `json:"version_delta"` // claims' source protocol version - wire's
	Tamper          bool   `json:"tamper"`        // one signature byte flipped
	Passthrough     bool   `json:"passthrough"`
}

const (
	c41bIssuer      = "https://issuer.c41b.example"
	c41bTrustDomain = "c41b.example"
	c41bAudience    = "gate-c41b"
	c41bKID         = "kid-c41b"
	c41bSession     = "sess-c41b"
)

func c41bRun(c c41bCase) verifkit.Result {
	seed := make([]byte, ed25519.SeedSize)
	copy(seed, "c41b-fixed-ed25519-seed-material")
	priv := ed25519.NewKeyFromSeed(seed)
	pub := priv.Public().(ed25519.PublicKey)
	b64 := base64.RawURLEncoding.EncodeToString
	pv, err := newPrincipalVerifier(BedrockPrincipal{Mode: "require", Issuer: c41bIssuer, TrustDomain: c41bTrustDomain, Audience: c41bAudience,
		Keys: map[string]string{c41bKID: b64(pub)}})
	if err != nil || pv == nil || !pv.readiness().Ready() {
		return verifkit.Fail("binding:verifier-setup", "principal verifier not ready: %v", err)
	}

	var nonce [16]byte
	copy(nonce[:], "0123456789abcdef")
	claimNonce := nonce
	if c.NonceFlip {
		claimNonce[5] ^= 0x40
	}
	const wireVersion, wirePolicy = 3, 7
	now := time.Now().Unix()
	claims := map[string]any{
		"version": 2, "issuer": c41bIssuer, "trust_domain": c41bTrustDomain, "audience": c41bAudience,
		"subject_kind": "bedrock_xuid", "canonical_xuid": "1", "canonical_unlinked_uuid": "00000000-0000-0000-0000-000000000001",
		"bedrock_display_name": "Sentinel Gamertag",
		"endpoint_id":          c.ClaimEndpoint, "organization_id": c.ClaimOrg,
		"connect_session_id": c.ClaimSession, "connect_session_nonce": b64(claimNonce[:]),
		"policy_revision": wirePolicy + c.PolicyDelta, "source_protocol": "bedrock", "source_protocol_version": wireVersion + c.VersionDelta,
		"iat": now, "nbf": now, "exp": now + 30, "jti": b64([]byte("c41b-jti-16bytes")),
		"verification_method": "minecraft_full_jwks+client_jwt+ecdh_v1",
	}
	header, _ := json.Marshal(map[string]string{"alg": "EdDSA", "typ": bedrockprincipal.WireType, "kid": c41bKID})
	payload, _ := json.Marshal(claims)
	signingInput := b64(header) + "." + b64(payload)
	sig := ed25519.Sign(priv, []byte(signingInput))
	if c.Tamper {
		sig[7] ^= 1
	}
	envelope := []byte(signingInput + "." + b64(sig))

	var raw []byte
	raw = protowire.AppendTag(raw, 6, protowire.VarintType)
	raw = protowire.AppendVarint(raw, 2) // bedrock
	if c.EarlierEndpoint != "" {
		raw = protowire.AppendTag(raw, 7, protowire.BytesType)
		raw = protowire.AppendString(raw, c.EarlierEndpoint)
	}
	raw = protowire.AppendTag(raw, 7, protowire.BytesType)
	raw = protowire.AppendString(raw, c.WireEndpoint)
	raw = protowire.AppendTag(raw, 8, protowire.BytesType)
	raw = protowire.AppendString(raw, c.WireOrg)
	raw = protowire.AppendTag(raw, 9, protowire.BytesType)
	raw = protowire.AppendBytes(raw, nonce[:])
	raw = protowire.AppendTag(raw, 10, protowire.VarintType)
	raw = protowire.AppendVarint(raw, wireVersion)
	raw = protowire.AppendTag(raw, 11, protowire.VarintType)
	raw = protowire.AppendVarint(raw, wirePolicy)
	raw = protowire.AppendTag(raw, 12, protowire.BytesType)
	raw = protowire.AppendBytes(raw, envelope)

	ln, err := net.Listen("tcp", "127.0.0.1:0")
	if err != nil {
		return verifkit.Result{Inconclusive: true, Labels: []string{"inconclusive:listen"}}
	}
	defer ln.Close()
	var dials atomic.Int32
	go func() {
		for {
			conn, err := ln.Accept()
			if err != nil {
				return
			}
			dials.Add(1)
			_ = conn.Close()
		}
	}()
	s := &connect.Session{
		Id:                c41bSession,
		TunnelServiceAddr: "ws://" + ln.Addr().String() + "/tunnel",
		Player: &connect.Player{
			Addr:    "203.0.113.7:19132",
			Profile: &connect.GameProfile{Id: "d5f5a381-70a5-4837-a6ca-adbb4a83a223", Name: "Proposed"},
		},
		Auth: &connect.Authentication{Passthrough: c.Passthrough},
	}
	s.ProtoReflect().SetUnknown(raw)

	h := &proposalHandler{
		localAddr:   &net.TCPAddr{IP: net.IPv4(127, 0, 0, 1), Port: 25565},
		connHandler: func(conn net.Conn) { _ = conn.Close() },
		principal:   pv,
	}
	p := &c41hProposal{s: s}
	ctx, cancel := context.WithTimeout(context.Background(), 20*time.Second)
	defer cancel()
	var panicked any
	func() {
		defer func() { panicked = recover() }()
		h.handle(ctx, p)
	}()
	if panicked != nil {
		return verifkit.Fail("binding:panic", "proposal handler panicked on %+v: %v", c, panicked)
	}
	p.mu.Lock()
	reasons := append([]*connect.RejectionReason(nil), p.reasons...)
	p.mu.Unlock()

	var diffs []string
	if c.WireEndpoint != c.ClaimEndpoint {
		diffs = append(diffs, "endpoint_id")
	}
	if c.WireOrg != c.ClaimOrg {
		diffs = append(diffs, "organization_id")
	}
	if c.ClaimSession != c41bSession {
		diffs = append(diffs, "connect_session_id")
	}
	if c.NonceFlip {
		diffs = append(diffs, "connect_session_nonce")
	}
	if c.PolicyDelta != 0 {
		diffs = append(diffs, "policy_revision")
	}
	if c.VersionDelta != 0 {
		diffs = append(diffs, "source_protocol_version")
	}
	if c.Tamper {
		diffs = append(diffs, "signature")
	}
	labels := []string{fmt.Sprintf("mismatching-fields:%d", len(diffs))}
	for _, d := range diffs {
		labels = append(labels, "differs:"+d)
	}
	if len(diffs) == 0 {
		// bound correctly: the handler goes on to the tunnel service (not asserted: the
		// envelope's time claims depend on the wall clock)
		if dials.Load() > 0 {
			labels = append(labels, "admitted")
		} else {
			labels = append(labels, "matching-envelope-not-admitted")
		}
		return verifkit.Result{Labels: labels}
	}
	if n := dials.Load(); n != 0 || len(reasons) != 1 {
		return verifkit.Fail("binding:mismatching-envelope-admitted",
			"require mode: the proposal's wire fields (endpoint_id %q, organization_id %q, session %q) differ from the signed envelope's claims (endpoint_id %q, organization_id %q, session %q; differing: %v) - want exactly one rejection and no connection to the tunnel service, got %d dial(s), rejections %v",
			c.WireEndpoint, c.WireOrg, c41bSession, c.ClaimEndpoint, c.ClaimOrg, c.ClaimSession, diffs, n, reasons)
	}
	return verifkit.Result{Labels: labels, NonTrivial: true}
}

func c41bGen(t *rapid.T) c41bCase {
	ids := []string{"endpoint-1", "endpoint-2", "org-1", "Endpoint-1"}
	pad := []string{"", "", " ", "\n", "\t", " ", "\x00"}
	variant := func(label, base string) string {
		switch rapid.IntRange(0, 5).Draw(t, label) {
		case 0:
			return base + rapid.SampledFrom(pad[2:]).Draw(t, label+"Pad")
		case 1:
			return rapid.SampledFrom(pad[2:]).Draw(t, label+"Pad") + base
		case 2:
			return rapid.SampledFrom(ids).Draw(t, label+"Other")
		default:
			return base
		}
	}
	c := c41bCase{
		ClaimEndpoint: rapid.SampledFrom(ids[:2]).Draw(t, "claimEndpoint"),
		ClaimOrg:      "org-1",
		ClaimSession:  c41bSession,
		Passthrough:   rapid.Bool().Draw(t, "passthrough"),
	}
	c.WireEndpoint = variant("wireEndpoint", c.ClaimEndpoint)
	c.WireOrg = variant("wireOrg", c.ClaimOrg)
	if rapid.IntRange(0, 3).Draw(t, "earlier") == 0 {
		// the earlier occurrence matches the claims, the last one is what counts
		c.EarlierEndpoint = c.ClaimEndpoint
	}
	switch rapid.IntRange(0, 9).Draw(t, "other") {
	case 0:
		c.ClaimSession = c41bSession + rapid.SampledFrom([]string{" ", "x", "\n"}).Draw(t, "sessionSuffix")
	case 1:
		c.NonceFlip = true
	case 2:
		c.PolicyDelta = rapid.SampledFrom([]int{-1, 1, 256}).Draw(t, "policyDelta")
	case 3:
		c.VersionDelta = rapid.SampledFrom([]int{-1, 1}).Draw(t, "versionDelta")
	case 4:
		c.Tamper = true
	}
	return c
}

func TestVerif_C41Binding(t *testing.T) {
	verifkit.Check(t, "C41", "envelope-binding",
		"session proposals for the real proposal handler in require mode (real principalVerifier, fixed Ed25519 key): well-formed principal fields 6..12 and an envelope validly signed for a claim set that equals the wire fields or differs in endpoint_id / organization_id (other id, leading or trailing space, newline, tab, NBSP, NUL; optionally an earlier occurrence of field 7 that matches while the last one does not), connect_session_id, nonce, policy revision, source protocol version, or carries a flipped signature byte; oracle: whenever a wire field as the reference parser reads it (exact bytes, last occurrence) differs from the signed claim, the handler rejects exactly once and never connects to the tunnel service; non-trivial = at least one differing field",
		c41bGen, c41bRun)
}
