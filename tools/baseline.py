#!/usr/bin/env python3
"""Runs minekube/gate's own test suite in <repo dir> offline and reports tests that fail
beyond the 5 that always fail in this sandbox. exit 0 = suite passes (as baseline)."""
import json, os, subprocess, sys
repo = sys.argv[1] if len(sys.argv) > 1 else "/repo"
pkgs = sys.argv[2:] or ["./..."]
ALWAYS = {
 "go.minekube.com/gate/pkg/edition/bedrock/geyser/managed::TestGeyserDownloadAPI",
 "go.minekube.com/gate/pkg/edition/bedrock/geyser/managed::TestGeyserDownloadAPI/HEAD_request_for_metadata",
 "go.minekube.com/gate/pkg/edition/bedrock/geyser/managed::TestGeyserDownloadAPI/conditional_GET_with_If-Modified-Since",
 "go.minekube.com/gate/pkg/edition/bedrock/geyser/managed::TestGeyserDownloadAPI/conditional_GET_with_If-None-Match",
 "go.minekube.com/gate::TestVelocitySyncRecordedGateCommitsResolve",
}
go = "/root/go/pkg/mod/golang.org/toolchain@v0.0.1-go1.26.0.linux-amd64/bin/go"
env = dict(os.environ, GOFLAGS="-mod=mod", GOPROXY="off", GOSUMDB="off", GOTOOLCHAIN="local", GOWORK="off")
p = subprocess.Popen([go, "test", "-json", "-vet=off", "-count=1", "-timeout", "25m"] + pkgs, cwd=repo, env=env,
                     stdout=subprocess.PIPE, stderr=subprocess.STDOUT, text=True)
failed, passed, buildfail = set(), 0, []
for line in p.stdout:
    try:
        ev = json.loads(line)
    except Exception:
        if line.strip():
            buildfail.append(line.rstrip())
        continue
    if ev.get("Action") == "fail" and ev.get("Test"):
        failed.add("%s::%s" % (ev["Package"], ev["Test"]))
    elif ev.get("Action") == "pass" and ev.get("Test"):
        passed += 1
    elif ev.get("Action") == "fail" and not ev.get("Test"):
        buildfail.append("package failed: " + ev.get("Package", "?"))
    elif ev.get("Action") == "build-fail":
        buildfail.append("build failed: " + ev.get("ImportPath", "?"))
p.wait()
extra = sorted(failed - ALWAYS)
bad_pkgs = [b for b in buildfail if "build failed" in b]
print("passed=%d failed=%d unexpected_failures=%d" % (passed, len(failed), len(extra)))
for e in extra:
    print("UNEXPECTED FAIL:", e)
for b in bad_pkgs:
    print(b)
sys.exit(1 if extra or bad_pkgs else 0)
