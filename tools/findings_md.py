#!/usr/bin/env python3
"""Prints a markdown table of known_findings.json grouped by (property,key)."""
import json, collections
kf = json.load(open("/verif/known_findings.json"))["findings"]
seen = collections.OrderedDict()
for f in kf:
    k = (f["property"], f["key"])
    e = seen.setdefault(k, {"status": f["status"], "commit": f.get("commit", ""), "what": f.get("what", ""), "checks": []})
    e["checks"].append(f.get("check", ""))
print("| property | key | status | commit | sub-checks | what fails |")
print("|---|---|---|---|---|---|")
for (p, k), e in sorted(seen.items()):
    print("| %s | `%s` | %s | %s | %s | %s |" % (p, k, e["status"], e["commit"], ", ".join(sorted(set(e["checks"]))), e["what"].replace("|", "\\|").replace("\n", " ")[:400]))
