#!/usr/bin/env python3
"""Confirms a seeded change produced by a mutation sub-agent and stores it under /verif/seeded/<name>/.
usage: seedconfirm.py <seedout dir> <name> <demo pkg dir relative to repo> [demo run regex]
Confirms: patch applies to clean HEAD; demo passes WITHOUT the patch and fails WITH it; the repository's
suite still passes with the patch. Then copies patch.diff, demo, meta.json (augmented) to /verif/seeded/<name>/."""
import json, os, shutil, subprocess, sys, glob
src, name, pkgdir = os.path.abspath(sys.argv[1]), sys.argv[2], sys.argv[3]
runre = sys.argv[4] if len(sys.argv) > 4 else "."
go = "/root/go/pkg/mod/golang.org/toolchain@v0.0.1-go1.26.0.linux-amd64/bin/go"
env = dict(os.environ, GOFLAGS="-mod=mod", GOPROXY="off", GOSUMDB="off", GOTOOLCHAIN="local", GOWORK="off")
wt = "/tmp/confirmwt-" + name
subprocess.run(["git", "-C", "/repo", "worktree", "remove", "--force", wt], stdout=subprocess.DEVNULL, stderr=subprocess.DEVNULL)
subprocess.run(["git", "-C", "/repo", "worktree", "add", "-q", "--detach", wt, "HEAD"], check=True)
ran = []
ok = True
try:
    demos = glob.glob(os.path.join(src, "demo*_test.go")) + glob.glob(os.path.join(src, "*_test.go"))
    demos = sorted(set(demos))
    for d in demos:
        shutil.copy(d, os.path.join(wt, pkgdir, "zz_seed_" + os.path.basename(d)))
    def demo():
        r = subprocess.run([go, "test", "-vet=off", "-count=1", "-run", runre, "./" + pkgdir], cwd=wt, env=env, capture_output=True, text=True)
        return r.returncode, (r.stdout + r.stderr)[-1500:]
    # only the demo's tests: use -run with names from the demo files
    import re
    names = []
    for d in demos:
        names += re.findall(r"^func (Test\w+)\(", open(d).read(), re.M)
    if runre == "." and names:
        runre = "^(" + "|".join(names) + ")$"
    rc0, out0 = demo()
    ran.append("demo on clean HEAD: rc=%d" % rc0)
    r = subprocess.run(["git", "-C", wt, "apply", "--exclude=*zz_seed_*", os.path.join(src, "patch.diff")], capture_output=True, text=True)
    ran.append("git apply patch.diff: rc=%d %s" % (r.returncode, r.stderr.strip()))
    if r.returncode != 0:
        ok = False
    rc1, out1 = demo()
    ran.append("demo with patch: rc=%d" % rc1)
    for f in glob.glob(os.path.join(wt, pkgdir, "zz_seed_*")):
        os.remove(f)
    r = subprocess.run(["/verif/tools/baseline.py", wt], capture_output=True, text=True)
    if r.returncode != 0:
        # the repository's suite has timing-sensitive tests that flake on a loaded machine: re-run the failing packages alone
        pkgs = sorted({"./" + l.split("UNEXPECTED FAIL: go.minekube.com/gate/")[1].split("::")[0] for l in r.stdout.splitlines() if l.startswith("UNEXPECTED FAIL: go.minekube.com/gate/")})
        if pkgs:
            r2 = subprocess.run(["/verif/tools/baseline.py", wt] + pkgs, capture_output=True, text=True)
            ran.append("first full suite run had unexpected failures in %s; re-run of those packages alone: rc=%d" % (pkgs, r2.returncode))
            if r2.returncode == 0:
                r = r2
    ran.append("repository suite with patch: rc=%d %s" % (r.returncode, r.stdout.strip().splitlines()[0] if r.stdout.strip() else ""))
    suite_ok = r.returncode == 0
    ok = ok and rc0 == 0 and rc1 != 0 and suite_ok
    print("\n".join(ran))
    if rc0 != 0:
        print("DEMO FAILS ON CLEAN:\n" + out0)
    if rc1 == 0:
        print("DEMO PASSES WITH PATCH:\n" + out1)
    if not suite_ok:
        print(r.stdout[-2000:])
    if ok:
        dst = os.path.join("/verif/seeded", name)
        os.makedirs(dst, exist_ok=True)
        shutil.copy(os.path.join(src, "patch.diff"), dst)
        for d in demos:
            shutil.copy(d, dst)
        meta = {}
        mp = os.path.join(src, "meta.json")
        if os.path.exists(mp):
            try:
                meta = json.load(open(mp))
            except Exception:
                meta = {"raw": open(mp).read()}
        meta["demo_pkg_dir"] = pkgdir
        meta["demo_run"] = runre
        meta["confirmed_by_me"] = ran
        json.dump(meta, open(os.path.join(dst, "meta.json"), "w"), indent=1)
        print("CONFIRMED -> " + dst)
    else:
        print("NOT CONFIRMED")
finally:
    subprocess.run(["git", "-C", "/repo", "worktree", "remove", "--force", wt])
sys.exit(0 if ok else 1)
