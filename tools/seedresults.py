#!/usr/bin/env python3
"""Runs every stored seeded change against its property's check and records the outcome in seeded/RESULTS.json.
usage: seedresults.py [names...]   (default: all; only re-runs names given, keeps other results)"""
import glob, json, os, subprocess, sys, re
V = "/verif"
rp = V + "/seeded/RESULTS.json"
res = json.load(open(rp)) if os.path.exists(rp) else {}
names = sys.argv[1:] or [os.path.basename(d) for d in sorted(glob.glob(V + "/seeded/C*")) if os.path.isdir(d)]
for n in names:
    d = V + "/seeded/" + n
    out = subprocess.run([V + "/tools/seedeval.py", d], capture_output=True, text=True).stdout
    line = next((l for l in out.splitlines() if l.startswith("SEED")), out[-300:])
    m = re.search(r"check=(\w+)", line)
    key = re.search(r"violation key=(\S+)", line)
    verdict = m.group(1) if m else "error"
    entry = {"quick": verdict + (" (`%s`)" % key.group(1) if key and verdict == "caught" else "")}
    if verdict == "missed":
        out2 = subprocess.run([V + "/tools/seedeval.py", d, "--tier", "thorough"], capture_output=True, text=True).stdout
        line2 = next((l for l in out2.splitlines() if l.startswith("SEED")), out2[-300:])
        m2 = re.search(r"check=(\w+)", line2); key2 = re.search(r"violation key=(\S+)", line2)
        v2 = m2.group(1) if m2 else "error"
        entry["thorough"] = v2 + (" (`%s`)" % key2.group(1) if key2 and v2 == "caught" else "")
    print(n, entry, flush=True)
    # read-modify-write under a lock: several instances may run side by side
    import fcntl
    with open(rp + ".lock", "w") as lk:
        fcntl.flock(lk, fcntl.LOCK_EX)
        cur = json.load(open(rp)) if os.path.exists(rp) else {}
        cur[n] = entry
        tmp = rp + ".tmp%d" % os.getpid()
        json.dump(cur, open(tmp, "w"), indent=1, sort_keys=True)
        os.replace(tmp, rp)
