#!/usr/bin/env python3
"""Regenerates the generated sections (10, 11, 12) of DESIGN.md between the markers
<!-- GENERATED:BEGIN --> and <!-- GENERATED:END --> from props/*.json, known_findings.json,
seeded/*/meta.json and seeded/RESULTS.json. Hand-written narrative lives in tools/design_narrative.md."""
import glob, json, os, collections, subprocess

V = "/verif"
out = []
w = out.append

# ------------------------------------------------------------------ section 10
w("## 10. As built: one row per property\n")
w("Generated from `props/CNN.json` (the same files the driver and `MANIFEST.json` are generated from). `q`/`t` are the"
  " `-rapid.checks` values per sub-check for the quick/thorough tier, `xN` the number of seed-sharded processes; `-race` units"
  " run under the race detector with `race_anchors` attribution; `+fuzz` units add a coverage-instrumented native fuzz campaign"
  " in the thorough tier.\n")
w("| id | deciding technique | units (package, tiers) |")
w("|---|---|---|")
for p in sorted(glob.glob(V + "/props/C[0-9][0-9].json")):
    d = json.load(open(p))
    units = []
    for u in d["units"]:
        q = u.get("quick", {}); t = u.get("thorough", {})
        units.append("`%s`%s q=%s t=%s x%s%s" % (u["pkg"], " -race" if u.get("race") else "", q.get("checks", "-"),
                                                t.get("checks", "-"), t.get("shards", 1), " +fuzz" if t.get("fuzz") else ""))
    w("| %s | %s | %s |" % (d["id"], d.get("technique", "").replace("|", "/"), "<br>".join(units)))
w("")
w("Per-property oracle, generator, non-trivial rule, trusted base and what is *not* decided are stated in each"
  " `props/CNN.json` (`level_text`, `level_note`, `assumptions`) and repeated in `MANIFEST.json` and in every evidence file"
  " (`coverage.rule`, `assumptions`).\n")

# narrative (hand written)
w(open(V + "/tools/design_narrative.md").read())

# ------------------------------------------------------------------ section 11 table
kf = json.load(open(V + "/known_findings.json"))["findings"]
seen = collections.OrderedDict()
for f in kf:
    k = (f["property"], f["key"])
    e = seen.setdefault(k, {"status": f["status"], "commit": f.get("commit", ""), "what": f.get("what", ""), "checks": []})
    e["checks"].append(f.get("check", ""))
nfixed = len([1 for e in seen.values() if e["status"] == "fixed"])
nknown = len([1 for e in seen.values() if e["status"] == "known"])
w("### 11.3 Table of findings (%d keys fixed, %d keys known; generated from `known_findings.json`)\n" % (nfixed, nknown))
log = subprocess.run(["git", "-C", "/repo", "log", "--format=%h %s"], capture_output=True, text=True).stdout
subj = {l.split()[0]: l.split(" ", 1)[1] for l in log.splitlines() if l.strip()}
w("| property | key | status | fix commit | what failed |")
w("|---|---|---|---|---|")
for (p, k), e in sorted(seen.items()):
    c = e["commit"]
    w("| %s | `%s` | %s | %s | %s |" % (p, k, e["status"], ("`%s` %s" % (c, subj.get(c, "")[:90])) if c else "",
                                       e["what"].replace("|", "\\|").replace("\n", " ")[:330]))
w("")
fixes = [l for l in log.splitlines() if " fix:" in l]
w("`/repo` carries %d `fix:` commits on top of the pinned snapshot (`git -C /repo log --oneline`); the repository's own suite"
  " passes with all of them (883 passed, the 5 offline always-fail tests unchanged).\n" % len(fixes))

# ------------------------------------------------------------------ section 12
w("## 12. Seeded changes (independent mutation sub-agents) and which checks catch them\n")
w("Each change below was written by a fresh sub-agent that saw only the property text and a scratch worktree, must keep the"
  " repository's suite green, and comes with a demonstration test. I re-confirmed each one myself (`tools/seedconfirm.py`:"
  " patch applies to HEAD, demo passes without and fails with the patch, full suite still passes) before storing it under"
  " `seeded/<id>/`. `tools/seedeval.py` applies the patch to a scratch worktree of `/repo` HEAD and runs the property's check"
  " against it through `VERIF_REPO` (equivalent to `git -C /repo apply` + check + `git checkout`, but safe while other work"
  " is running). Patches written before a later `fix:` commit touched the same lines were re-created on the fixed code"
  " (`meta.json: rebased`).\n")
res = {}
rp = V + "/seeded/RESULTS.json"
if os.path.exists(rp):
    res = json.load(open(rp))
w("| seed | property | what the change does | needs | quick check | thorough check |")
w("|---|---|---|---|---|---|")
for d in sorted(glob.glob(V + "/seeded/C*")):
    name = os.path.basename(d)
    try:
        m = json.load(open(d + "/meta.json"))
    except Exception:
        continue
    r = res.get(name, {})
    w("| %s | %s | %s | %s | %s | %s |" % (name, m.get("property", ""), str(m.get("summary", "")).replace("|", "/").replace("\n", " ")[:260],
                                         str(m.get("needs", "")).replace("|", "/").replace("\n", " ")[:200],
                                         r.get("quick", "not run"), r.get("thorough", "")))
w("")
if os.path.exists(V + "/tools/design_seed_notes.md"):
    w(open(V + "/tools/design_seed_notes.md").read())

text = "\n".join(out) + "\n"
dp = V + "/DESIGN.md"
s = open(dp).read()
B, E = "<!-- GENERATED:BEGIN -->", "<!-- GENERATED:END -->"
if B in s:
    s = s[:s.index(B)] + B + "\n" + text + E + s[s.index(E) + len(E):]
else:
    s = s.rstrip() + "\n\n---\n\n" + B + "\n" + text + E + "\n"
open(dp, "w").write(s)
print("DESIGN.md sections regenerated (%d lines)" % len(out))
