#!/usr/bin/env python3
"""Prints the prompt for a fresh mutation sub-agent for property <ID> and creates its scratch worktree."""
import json, subprocess, sys, os
pid = sys.argv[1]
variant = sys.argv[2] if len(sys.argv) > 2 else "a"
rec = None
for l in open("/verif/properties.jsonl"):
    r = json.loads(l)
    if r["id"] == pid:
        rec = r
wt = "/tmp/seedwt-%s%s" % (pid, variant)
out = "/tmp/seedout-%s%s" % (pid, variant)
if not os.path.exists(wt):
    subprocess.run(["git", "-C", "/repo", "worktree", "add", "-q", "--detach", wt, "HEAD"], check=True)
os.makedirs(out, exist_ok=True)
used = set()
if variant == "e":
    import glob
    for mp in glob.glob("/verif/seeded/%s?/meta.json" % pid):
        try:
            used.update(json.load(open(mp)).get("files") or [])
        except Exception:
            pass
hint = {
 "e": "Put the change in a place that a test aimed at the property's own functions would not exercise: a caller that feeds them, a consumer of their result, a constructor or default, a configuration switch, an adapter for another protocol version or connection type, or an error/cleanup path. Do NOT change any of these files (already used by earlier seeded changes): " + (", ".join(sorted(used)) or "(none)") + ". The property must be broken as observed through the proxy's real behaviour, while the functions the property names keep passing their direct tests.",
 "a": "Prefer a change that needs an unusual input or boundary value to manifest.",
 "b": "Prefer a change that needs a multi-step sequence of operations, a particular interleaving, a fault at a particular point, or two cooperating sites that each look fine alone.",
 "d": "Pick a DIFFERENT clause of the property than the one that comes to mind first: read the whole statement, list its separate claims (each 'and', 'never', 'unless', 'only if', 'at most', 'exactly'), and break one of the less prominent ones - a secondary guarantee, an exception ('unless ...'), a bound, a uniqueness or ordering claim, or the behaviour for the rarer of two modes/directions/versions the statement names. The main, most visible behaviour must stay intact.",
 "c": "Prefer a change that is NOT in the most obvious function for this property: put it in a helper, a caller, a constructor/default, a rarely taken branch (error path, closed connection, cancelled context, legacy protocol version, optional feature switched on) or in the interaction with a neighbouring feature, so that it only manifests in a configuration or path that a straightforward test of the main function would not take.",
}[variant]
print(f"""You are helping to evaluate a verification suite by planting ONE realistic bug. You get only the text of a semantic
property of the Go project minekube/gate (a Minecraft Java/Bedrock reverse proxy) and your own scratch git worktree of it at
{wt} (work ONLY there and in {out}; never touch /repo or /verif, and do not read anything under /verif).

The property (it currently holds, or is meant to hold, on the code):

  id: {rec['id']}
  title: {rec['title']}
  statement: {rec['statement']}
  quantified over: {rec['quantifier']['text']}
  where in the code: files {', '.join(rec['anchors']['files'])}; mechanisms: {'; '.join((m.get('name','')+' @ '+m.get('where','')) for m in rec['anchors']['mechanism'])}

Your task: make a small source change to minekube/gate in {wt} that BREAKS this property while
  (1) the project still compiles (`go build ./...` and `go vet`-free test compilation),
  (2) the project's existing test suite still passes: run `/tmp/seedtools/baseline.py {wt}` (takes ~30-60 s; it knows the 5
      tests that always fail offline; exit 0 = suite still passes). You may pass package patterns as further args to run a subset
      while iterating, but the final confirmation must be the full suite,
  (3) the change looks like a plausible mistake or refactoring slip a maintainer could make (not sabotage, no dead flags, no
      randomness, no time bombs), is small (ideally 1–15 changed lines), and
  (4) it needs something specific to manifest — {hint} It must NOT be something ordinary use would expose at once (e.g. not
      "every packet is corrupted").
Do not edit or delete existing tests. Do not add build tags. Non-test source only (plus your demonstration file, which is
separate and not part of the patch).

Then write a demonstration: a Go test file (or small program) that FAILS with your change applied and PASSES on the unchanged code,
and that shows the property being violated through observable behaviour. Verify both directions yourself (git stash / git diff >
patch; git checkout; run; re-apply). NEVER use `git stash` (the stash is shared between worktrees of other workers).

Environment: no network. Use the Go toolchain at /root/go/pkg/mod/golang.org/toolchain@v0.0.1-go1.26.0.linux-amd64/bin/go with
env GOFLAGS=-mod=mod GOPROXY=off GOSUMDB=off GOTOOLCHAIN=local. The machine is shared: do not run more than one test-suite run at a time.

Deliver into {out}/ :
  patch.diff   — `git -C {wt} diff` of the non-test source change only (must apply with `git apply` to a clean checkout of HEAD)
  demo_test.go (or demo/ dir) — the demonstration, with a comment at the top giving the package directory it must be placed in and the exact command to run it
  meta.json    — {{"property": "{pid}", "summary": "<what the change does>", "needs": "<what specific input/sequence/interleaving it needs to manifest>", "files": [...], "ran": ["<commands you ran and their outcomes>"]}}
When done, leave the worktree with the patch applied and reply with a 5-line summary. If after honest effort you cannot find a change
that keeps the suite green, say so and explain what the suite catches.""")
