#!/usr/bin/env python3
"""usage: seedpipe.py NAME...   — for every /tmp/seedout-NAME: find the demo's package dir from its header comment,
confirm the seed (seedconfirm.py), and if confirmed run the property's check against it (seedresults.py)."""
import glob, json, os, re, subprocess, sys
for name in sys.argv[1:]:
    src = "/tmp/seedout-" + name
    demos = sorted(glob.glob(src + "/demo*_test.go") + glob.glob(src + "/*_test.go"))
    if not demos:
        nested = sorted(glob.glob(src + "/demo/*/*_test.go"))
        if nested:
            import shutil
            shutil.copy(nested[0], src + "/demo_test.go"); demos = [src + "/demo_test.go"]
    if not demos or not os.path.exists(src + "/patch.diff"):
        print("PIPE %s: incomplete deliverables" % name, flush=True); continue
    head = "".join(open(demos[0], errors="replace").readlines()[:25])
    m = re.search(r"(pkg/[A-Za-z0-9_/]+|cmd/[A-Za-z0-9_/]+)", head)
    pkgdir = m.group(1).rstrip("/") if m else None
    if not pkgdir:
        # fall back: package clause + files of the patch
        print("PIPE %s: cannot find demo dir" % name, flush=True); continue
    r = subprocess.run(["/verif/tools/seedconfirm.py", src, name, pkgdir], capture_output=True, text=True)
    ok = "CONFIRMED ->" in r.stdout
    if not ok:
        print("PIPE %s: NOT CONFIRMED (%s)\n%s" % (name, pkgdir, r.stdout[-1500:]), flush=True); continue
    r2 = subprocess.run(["/verif/tools/seedresults.py", name], capture_output=True, text=True)
    print("PIPE %s: confirmed; %s" % (name, r2.stdout.strip().splitlines()[-1] if r2.stdout.strip() else r2.stderr[-300:]), flush=True)
