#!/usr/bin/env python3
"""usage: draft2known.py CNN key=<commit|known> [key=...]  — moves entries of props/CNN.known-draft.json into known_findings.json.
Keys not named stay in the draft file. <commit> marks the entry fixed by that /repo commit."""
import json, sys, os
pid = sys.argv[1]
m = dict(a.split("=", 1) for a in sys.argv[2:])
dp = "/verif/props/%s.known-draft.json" % pid
kf = json.load(open("/verif/known_findings.json"))
d = json.load(open(dp))
rest = []
for f in d["findings"]:
    k = f["key"]
    if k not in m:
        rest.append(f); continue
    if m[k] == "known":
        f["status"] = "known"
    else:
        f["status"] = "fixed"; f["commit"] = m[k]
        f["record"] = "fixed: property=%s %s %s — %s" % (pid, m[k], k, f.get("what", "")[:220])
    kf["findings"].append(f)
    print(pid, k, f["status"], f.get("check"))
json.dump(kf, open("/verif/known_findings.json", "w"), indent=1, ensure_ascii=False)
if rest:
    json.dump({"findings": rest}, open(dp, "w"), indent=1, ensure_ascii=False)
    print("left in draft:", [f["key"] for f in rest])
else:
    os.remove(dp)
