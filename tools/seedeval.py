#!/usr/bin/env python3
"""Evaluates a seeded change: usage seedeval.py <seed dir> [--suite] [--tier quick|thorough] [--props C01,C02]
Applies <seed dir>/patch.diff to a scratch worktree of /repo HEAD, optionally runs the repository's own suite
there (--suite), runs the check(s) of the property against it via VERIF_REPO, and cleans up.
Prints one line: SEED <dir> property=<id> suite=<ok|fail|skipped> check=<caught|missed|error> and exit code details."""
import json, os, shutil, subprocess, sys, hashlib, glob
sd = os.path.abspath(sys.argv[1])
args = sys.argv[2:]
suite = "--suite" in args
tier = args[args.index("--tier") + 1] if "--tier" in args else "quick"
meta = json.load(open(os.path.join(sd, "meta.json")))
props = args[args.index("--props") + 1].split(",") if "--props" in args else [meta["property"]]
wt = "/tmp/evalwt-" + hashlib.sha1(sd.encode()).hexdigest()[:8]
subprocess.run(["git", "-C", "/repo", "worktree", "remove", "--force", wt], stdout=subprocess.DEVNULL, stderr=subprocess.DEVNULL)
subprocess.run(["git", "-C", "/repo", "worktree", "add", "-q", "--detach", wt, "HEAD"], check=True)
try:
    r = subprocess.run(["git", "-C", wt, "apply", os.path.join(sd, "patch.diff")], capture_output=True, text=True)
    if r.returncode != 0:
        print("SEED %s: patch does not apply: %s" % (sd, r.stderr.strip()))
        sys.exit(3)
    s = "skipped"
    if suite:
        r = subprocess.run(["/verif/tools/baseline.py", wt], capture_output=True, text=True)
        s = "ok" if r.returncode == 0 else "fail"
        if r.returncode != 0:
            print(r.stdout[-2000:])
    for pid in props:
        env = dict(os.environ, VERIF_REPO=wt)
        r = subprocess.run(["/verif/check", pid, "--tier", tier], capture_output=True, text=True, env=env, cwd="/verif")
        verdict = {0: "missed", 1: "caught"}.get(r.returncode, "error")
        lines = [l for l in (r.stdout + r.stderr).splitlines() if l.startswith(("VIOLATION", "OK", "CHECK COULD", "violation key", "KNOWN"))]
        print("SEED %s property=%s suite=%s check=%s rc=%d | %s" % (os.path.basename(sd), pid, s, verdict, r.returncode, " | ".join(lines)[:600]))
        if verdict == "error":
            print((r.stdout + r.stderr)[-3000:])
finally:
    subprocess.run(["git", "-C", "/repo", "worktree", "remove", "--force", wt])
    alt = "-alt" + hashlib.sha1(wt.encode()).hexdigest()[:6]
    for d in glob.glob("/verif/*" + alt):
        shutil.rmtree(d, ignore_errors=True)
